import TxV.Model.Bits
/-! Helper lemmas for C36 (bit-manipulation helpers). Core Lean only. -/
namespace TxV.Bits

/-! ### binary_tree_reduce -/

/-- the reference: left fold seeded with the first element (`neutral` for no values) -/
def fold1 {α} (op : α → α → α) (e : α) : List α → α
  | [] => e
  | a :: l => l.foldl op a

theorem foldl_layer {α} (op : α → α → α) (hassoc : ∀ a b c, op (op a b) c = op a (op b c)) :
    ∀ (l : List α) (x : α), (layer op l).foldl op x = l.foldl op x
  | [], _ => rfl
  | [_], _ => rfl
  | a :: b :: rest, x => by
    simp only [layer, List.foldl_cons]
    rw [foldl_layer op hassoc rest, hassoc]

theorem fold1_layer {α} (op : α → α → α) (hassoc : ∀ a b c, op (op a b) c = op a (op b c)) (e : α) :
    ∀ (l : List α), fold1 op e (layer op l) = fold1 op e l
  | [] => rfl
  | [_] => rfl
  | a :: b :: rest => by
    simp only [layer, fold1, List.foldl_cons]
    exact foldl_layer op hassoc rest _

theorem length_layer {α} (op : α → α → α) : ∀ (l : List α), (layer op l).length = (l.length + 1) / 2
  | [] => by simp [layer]
  | [_] => by simp [layer]
  | a :: b :: rest => by
    simp only [layer, List.length_cons, length_layer op rest]
    omega

theorem reduceLoop_eq {α} (op : α → α → α) (hassoc : ∀ a b c, op (op a b) c = op a (op b c)) (e : α) :
    ∀ (n : Nat) (l : List α), l ≠ [] → l.length ≤ n + 1 → reduceLoop op n l = [fold1 op e l] := by
  intro n
  induction n with
  | zero =>
    intro l hne hlen
    match l, hne, hlen with
    | [a], _, _ => rfl
    | _ :: _ :: _, _, h => simp at h
  | succ n ih =>
    intro l hne hlen
    simp only [reduceLoop]
    split
    · match l, hne with
      | [a], _ => rfl
      | _ :: _ :: _, _ => rename_i h; simp at h
    · rename_i h
      have hl := length_layer op l
      have hne' : layer op l ≠ [] := by
        intro h0
        rw [h0] at hl
        simp at hl
        omega
      rw [ih (layer op l) hne' (by omega), fold1_layer op hassoc]

/-- `binary_tree_reduce` with an associative operator is the left fold -/
theorem treeReduce_eq {α} (op : α → α → α) (hassoc : ∀ a b c, op (op a b) c = op a (op b c))
    (e : α) (l : List α) : treeReduce op e l = fold1 op e l := by
  unfold treeReduce
  cases l with
  | nil => rfl
  | cons a l =>
    have := reduceLoop_eq op hassoc e (a :: l).length (a :: l) (by simp) (by simp)
    simp only [List.isEmpty_cons, Bool.false_eq_true, if_false]
    rw [this]

theorem foldl_add (l : List Nat) (a : Nat) : l.foldl (· + ·) a = a + l.sum := by
  induction l generalizing a with
  | nil => simp
  | cons b l ih => simp [ih]; omega

theorem fold1_add (l : List Nat) : fold1 (· + ·) 0 l = l.sum := by
  cases l with
  | nil => rfl
  | cons a l => simp [fold1, foldl_add]

theorem sum_map_toNat (s : List Bool) : (s.map Bool.toNat).sum = s.count true := by
  induction s with
  | nil => rfl
  | cons b s ih => cases b <;> simp [ih] <;> omega

/-- `n < 2 ^ bits_for(n)` -/
theorem lt_two_pow_bitsFor (n : Nat) : n < 2 ^ bitsFor n := by
  unfold bitsFor ceilLog2
  by_cases h : n = 0
  · simp [h]
  · have : ¬ (n + 1 ≤ 1) := by omega
    simp only [h, this, if_false, Nat.add_sub_cancel]
    exact Nat.lt_log2_self

/-- `n ≤ 2 ^ ceil_log2(n)` -/
theorem le_two_pow_ceilLog2 (n : Nat) : n ≤ 2 ^ ceilLog2 n := by
  unfold ceilLog2
  by_cases h : n ≤ 1
  · simp [h]
  · simp only [h, if_false]
    have := @Nat.lt_log2_self (n - 1)
    omega

theorem testBit_foldl_or (l : List Nat) (a i : Nat) :
    (l.foldl (· ||| ·) a).testBit i = (a.testBit i || l.any (·.testBit i)) := by
  induction l generalizing a with
  | nil => simp
  | cons b l ih => simp [ih, Bool.or_assoc]

theorem testBit_foldl_and (l : List Nat) (a i : Nat) :
    (l.foldl (· &&& ·) a).testBit i = (a.testBit i && l.all (·.testBit i)) := by
  induction l generalizing a with
  | nil => simp
  | cons b l ih => simp [ih, Bool.and_assoc]

theorem binMin_eq (a b : Nat) : binMin a b = min a b := by
  unfold binMin; split <;> omega
theorem binMax_eq (a b : Nat) : binMax a b = max a b := by
  unfold binMax; split <;> omega

theorem binMin_assoc (a b c : Nat) : binMin (binMin a b) c = binMin a (binMin b c) := by
  simp only [binMin_eq]; omega
theorem binMax_assoc (a b c : Nat) : binMax (binMax a b) c = binMax a (binMax b c) := by
  simp only [binMax_eq]; omega

theorem foldl_binMin (l : List Nat) (a : Nat) :
    l.foldl binMin a ∈ a :: l ∧ ∀ x ∈ a :: l, l.foldl binMin a ≤ x := by
  induction l generalizing a with
  | nil => simp
  | cons b l ih =>
    have := ih (binMin a b)
    simp only [List.foldl_cons, List.mem_cons, forall_eq_or_imp] at *
    rw [binMin_eq] at *
    refine ⟨?_, ?_, ?_, this.2.2⟩
    · rcases this.1 with h | h
      · rw [h]; by_cases hab : a ≤ b
        · left; omega
        · right; left; omega
      · right; right; exact h
    · have := this.2.1; omega
    · have := this.2.1; omega

theorem foldl_binMax (l : List Nat) (a : Nat) :
    l.foldl binMax a ∈ a :: l ∧ ∀ x ∈ a :: l, x ≤ l.foldl binMax a := by
  induction l generalizing a with
  | nil => simp
  | cons b l ih =>
    have := ih (binMax a b)
    simp only [List.foldl_cons, List.mem_cons, forall_eq_or_imp] at *
    rw [binMax_eq] at *
    refine ⟨?_, ?_, ?_, this.2.2⟩
    · rcases this.1 with h | h
      · rw [h]; by_cases hab : b ≤ a
        · left; omega
        · right; left; omega
      · right; right; exact h
    · have := this.2.1; omega
    · have := this.2.1; omega

/-! ### count_trailing_zeros -/

theorem any_id_iff_mem (s : List Bool) : s.any id = true ↔ true ∈ s := by
  simp

theorem ctzIter_eq : ∀ (step : Nat) (s : List Bool),
    s.length ≤ 2 ^ step → s.idxOf true < 2 ^ step → ctzIter s step = s.idxOf true := by
  intro step
  induction step with
  | zero =>
    intro s _ h2
    simp only [ctzIter]
    omega
  | succ step ih =>
    intro s h1 h2
    simp only [ctzIter]
    have hle := @List.idxOf_le_length _ _ _ s true
    have hsplit : s = s.take (2 ^ step) ++ s.drop (2 ^ step) := (List.take_append_drop _ _).symm
    split
    · exact ih s (by omega) (by omega)
    · rename_i hlen
      have htl : (s.take (2 ^ step)).length = 2 ^ step := by
        rw [List.length_take]; omega
      have hidx := @List.idxOf_append _ _ _ (s.take (2 ^ step)) (s.drop (2 ^ step)) true
      rw [← hsplit] at hidx
      split
      · rename_i hany
        have hmem : true ∈ s.take (2 ^ step) := (any_id_iff_mem _).1 hany
        rw [if_pos hmem] at hidx
        have hlt := List.idxOf_lt_length_of_mem hmem
        rw [hidx]
        exact ih _ (by omega) (by omega)
      · rename_i hany
        have hmem : true ∉ s.take (2 ^ step) := fun h => hany ((any_id_iff_mem _).2 h)
        rw [if_neg hmem, htl] at hidx
        rw [hidx]
        have hdl : (s.drop (2 ^ step)).length = s.length - 2 ^ step := List.length_drop
        rw [Nat.pow_succ] at h1 h2
        rw [ih (s.drop (2 ^ step)) (by omega) (by omega)]
        omega

/-- what `idxOf true` means on an LSB-first bit list: all bits before the index are clear and
    the bit at the index (if inside the list) is set -/
theorem idxOf_true_spec (s : List Bool) :
    (∀ j, j < s.idxOf true → s[j]? = some false) ∧
    (s.idxOf true < s.length → s[s.idxOf true]? = some true) := by
  induction s with
  | nil => simp
  | cons b s ih =>
    cases b
    · have e : (false :: s).idxOf true = s.idxOf true + 1 := by simp [List.idxOf_cons]
      rw [e]
      refine ⟨?_, ?_⟩
      · intro j hj
        cases j with
        | zero => rfl
        | succ j => simpa using ih.1 j (by omega)
      · intro h
        simpa using ih.2 (by simpa using h)
    · simp

/-! ### lowest-set-bit tricks -/

theorem exists_lt_succ (P : Nat → Prop) (i : Nat) :
    (∃ j < i + 1, P j) ↔ (P i ∨ ∃ j < i, P j) := by
  constructor
  · rintro ⟨j, hj, hp⟩
    by_cases h : j = i
    · left; rw [← h]; exact hp
    · right; exact ⟨j, by omega, hp⟩
  · rintro (h | ⟨j, hj, hp⟩)
    · exact ⟨i, by omega, h⟩
    · exact ⟨j, by omega, hp⟩

theorem getLsbD_extractLowest {w} (x : BitVec w) (i : Nat) :
    (extractLowest x).getLsbD i = (x.getLsbD i && !decide (∃ j < i, x.getLsbD j = true)) := by
  unfold extractLowest
  rw [BitVec.getLsbD_and, BitVec.getLsbD_neg]
  cases h : x.getLsbD i
  · simp
  · have : i < w := BitVec.lt_of_getLsbD h
    simp [this]

theorem getLsbD_clearLowest {w} (x : BitVec w) (i : Nat) :
    (clearLowest x).getLsbD i = (x.getLsbD i && decide (∃ j < i, x.getLsbD j = true)) := by
  unfold clearLowest
  rw [← BitVec.not_neg, BitVec.getLsbD_and, BitVec.getLsbD_not, BitVec.getLsbD_neg]
  cases h : x.getLsbD i
  · simp
  · have : i < w := BitVec.lt_of_getLsbD h
    simp [this]

theorem getLsbD_maskFrom {w} (x : BitVec w) (i : Nat) :
    (maskFrom x).getLsbD i =
      (decide (i < w) && (x.getLsbD i || decide (∃ j < i, x.getLsbD j = true))) := by
  unfold maskFrom
  rw [BitVec.getLsbD_or, BitVec.getLsbD_neg]
  cases h : x.getLsbD i
  · simp
  · have : i < w := BitVec.lt_of_getLsbD h
    simp [this]

theorem getLsbD_maskAfter {w} (x : BitVec w) (i : Nat) :
    (maskAfter x).getLsbD i = (decide (i < w) && decide (∃ j < i, x.getLsbD j = true)) := by
  unfold maskAfter
  rw [BitVec.getLsbD_shiftLeft, getLsbD_maskFrom]
  cases i with
  | zero => simp
  | succ i =>
    have h := exists_lt_succ (fun j => x.getLsbD j = true) i
    by_cases hw : i + 1 < w
    · have hw' : i < w := by omega
      simp only [hw, hw', decide_true, Bool.true_and, Nat.add_sub_cancel]
      simp [h]
    · simp [hw]

theorem getLsbD_maskUntil {w} (x : BitVec w) (i : Nat) :
    (maskUntil x).getLsbD i = (decide (i < w) && !decide (∃ j < i, x.getLsbD j = true)) := by
  unfold maskUntil
  rw [BitVec.getLsbD_not, getLsbD_maskAfter]
  by_cases hw : i < w <;> simp [hw]

theorem getLsbD_maskBefore {w} (x : BitVec w) (i : Nat) :
    (maskBefore x).getLsbD i =
      (decide (i < w) && !(x.getLsbD i || decide (∃ j < i, x.getLsbD j = true))) := by
  unfold maskBefore
  rw [BitVec.getLsbD_not, getLsbD_maskFrom]
  by_cases hw : i < w <;> simp [hw]

/-! ### mod_incr / mod_add -/

/-- the test `not (mod & (mod - 1))` recognises powers of two -/
theorem pow2_of_and_pred : ∀ (m : Nat), 0 < m → m &&& (m - 1) = 0 → ∃ k, m = 2 ^ k := by
  intro m
  induction m using Nat.strongRecOn with
  | _ m ih =>
    intro hm h
    have hd : m / 2 &&& (m - 1) / 2 = 0 := by rw [← Nat.and_div_two, h]
    by_cases hodd : m % 2 = 1
    · have : (m - 1) / 2 = m / 2 := by omega
      rw [this, Nat.and_self] at hd
      exact ⟨0, by omega⟩
    · have : (m - 1) / 2 = m / 2 - 1 := by omega
      rw [this] at hd
      obtain ⟨k, hk⟩ := ih (m / 2) (by omega) (by omega) hd
      exact ⟨k + 1, by rw [Nat.pow_succ]; omega⟩

theorem and_pred_pow2 (x m : Nat) (hm : 0 < m) (h : m &&& (m - 1) = 0) : x &&& (m - 1) = x % m := by
  obtain ⟨k, rfl⟩ := pow2_of_and_pred m hm h
  exact Nat.and_two_pow_sub_one_eq_mod x k

theorem mod_of_lt_two_mul (a d : Nat) (h1 : d ≤ a) (h2 : a < 2 * d) : a % d = a - d := by
  rw [Nat.mod_eq_sub_mod h1, Nat.mod_eq_of_lt (by omega)]

/-- the case list built by `mod_add`: keys `mod+a … mod+a+n-1` map to `a % mod … (a+n-1) % mod` -/
theorem switchValue_modCases (t m : Nat) (rest : List (Key × Nat)) : ∀ (n a : Nat),
    switchValue t ((List.range' a n).map (fun i => ((some [m + i] : Key), i % m)) ++ rest) =
      if m + a ≤ t ∧ t < m + a + n then (t - m) % m else switchValue t rest := by
  intro n
  induction n with
  | zero => intro a; simp; omega
  | succ n ih =>
    intro a
    simp only [List.range'_succ, List.map_cons, List.cons_append, switchValue, keyMatches,
      List.contains_cons, List.contains_nil, Bool.or_false, beq_iff_eq]
    by_cases h : t = m + a
    · have : m + a ≤ t ∧ t < m + a + (n + 1) := by omega
      rw [if_pos h, if_pos this]
      congr 1; omega
    · rw [if_neg h, ih (a + 1)]
      by_cases h2 : m + a ≤ t ∧ t < m + a + (n + 1)
      · rw [if_pos h2, if_pos (by omega)]
      · rw [if_neg h2, if_neg (by omega)]

theorem modAdd_nonpow2 (sig mod incr maxIncr : Nat) (h : mod &&& (mod - 1) ≠ 0) :
    modAdd sig mod incr maxIncr =
      if mod ≤ sig + incr ∧ sig + incr < mod + maxIncr then (sig + incr - mod) % mod else sig + incr := by
  unfold modAdd
  rw [if_neg h, List.range_eq_range', switchValue_modCases]
  simp [switchValue, keyMatches]

/-! ### cyclic_mask -/

theorem testBit_cyclicMask (bits s e i : Nat) (hs : s < bits) (he : e < bits) :
    (cyclicMask bits s e).testBit i =
      (decide (i < bits) &&
        if s ≤ e then decide (s ≤ i ∧ i ≤ e) else decide (i ≤ e ∨ s ≤ i)) := by
  unfold cyclicMask
  by_cases hse : s ≤ e
  · simp only [hse, if_true, Nat.testBit_shiftLeft, Nat.testBit_two_pow_sub_one]
    by_cases h1 : s ≤ i <;> by_cases h2 : i ≤ e <;> by_cases h3 : i < bits <;> simp [h1, h2, h3] <;> omega
  · simp only [hse, if_false, Nat.testBit_or, Nat.testBit_shiftLeft, Nat.testBit_two_pow_sub_one]
    by_cases h1 : s ≤ i <;> by_cases h2 : i ≤ e <;> by_cases h3 : i < bits <;> simp [h1, h2, h3] <;> omega

end TxV.Bits
