import TxV.Model.POAllocator
namespace TxV.POAllocator
end TxV.POAllocator
