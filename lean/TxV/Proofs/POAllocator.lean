import TxV.Model.POAllocator
/-!
Helper lemmas for C26 (PreservedOrderAllocator): `free_idx` permutes `order`, the position search of
`free`, how the prefix `order[:used]` changes in one cycle, the invariant and its preservation.
-/
namespace TxV.POAllocator

/-! ### widths -/

theorem lt_two_pow_bitsFor {x m : Nat} (h : x ≤ m) : x < 2 ^ bitsFor m := by
  unfold bitsFor
  split
  · omega
  · exact Nat.lt_of_le_of_lt h Nat.lt_log2_self

/-- `used + alloc.run - free_idx.run` does not wrap when the result stays within `0..entries` -/
theorem used_update (n u a f : Nat) (h1 : u + a ≤ n) (h2 : f ≤ u + a) :
    ((u + a) % 2 ^ bitsFor n + 2 ^ bitsFor n - f) % 2 ^ bitsFor n = u + a - f := by
  have hlt : u + a < 2 ^ bitsFor n := lt_two_pow_bitsFor h1
  rw [Nat.mod_eq_of_lt hlt]
  have : u + a + 2 ^ bitsFor n - f = (u + a - f) + 2 ^ bitsFor n := by omega
  rw [this, Nat.add_mod_right]
  exact Nat.mod_eq_of_lt (by omega)

/-! ### `free_idx` moves one entry to the end -/

theorem eraseIdx_append_perm : ∀ (l : List Nat) (k : Nat) (x : Nat), l[k]? = some x → (l.eraseIdx k ++ [x]).Perm l
  | [], k, x, h => by simp at h
  | y :: ys, 0, x, h => by
    simp only [List.getElem?_cons_zero, Option.some.injEq] at h
    subst h
    simp
  | y :: ys, k+1, x, h => by
    simp only [List.getElem?_cons_succ] at h
    simpa using (eraseIdx_append_perm ys k x h).cons y

theorem moveToEnd_perm (order : List Nat) (idx : Nat) (h : idx < order.length) :
    (moveToEnd order idx).Perm order := by
  unfold moveToEnd
  rw [List.getElem?_eq_getElem h]
  exact eraseIdx_append_perm order idx _ (List.getElem?_eq_getElem h)

/-- after `free_idx(idx)` the first `k-1` entries are the first `k` old ones without position `idx` -/
theorem take_moveToEnd (l : List Nat) (idx k : Nat) (h1 : idx < k) (h2 : k ≤ l.length) :
    (moveToEnd l idx).take (k - 1) = (l.take k).eraseIdx idx := by
  unfold moveToEnd
  rw [List.getElem?_eq_getElem (by omega)]
  apply List.ext_getElem?
  intro j
  simp only [List.getElem?_take, List.getElem?_append, List.getElem?_eraseIdx, List.length_eraseIdx]
  grind

/-! ### the position search of `free` -/

theorem lastIdxAux_spec : ∀ (l : List Nat) (id p acc : Nat),
    (lastIdxAux l id p acc = acc ∧ id ∉ l) ∨ (p ≤ lastIdxAux l id p acc ∧ l[lastIdxAux l id p acc - p]? = some id)
  | [], id, p, acc => by simp [lastIdxAux]
  | x :: xs, id, p, acc => by
    simp only [lastIdxAux]
    rcases lastIdxAux_spec xs id (p + 1) (if x = id then p else acc) with ⟨h1, h2⟩ | ⟨h1, h2⟩
    · by_cases hx : x = id
      · right
        rw [h1]; simp [hx]
      · left
        rw [h1]; simp [hx, h2]; exact fun h => hx h.symm
    · right
      refine ⟨by omega, ?_⟩
      have e : lastIdxAux xs id (p + 1) (if x = id then p else acc) - p
          = (lastIdxAux xs id (p + 1) (if x = id then p else acc) - (p + 1)) + 1 := by omega
      rw [e, List.getElem?_cons_succ]
      exact h2

/-- when `ident` occurs in `order`, `free` finds a position holding it -/
theorem lastIdx_spec (order : List Nat) (id : Nat) (h : id ∈ order) : order[lastIdx order id]? = some id := by
  rcases lastIdxAux_spec order id 0 0 with ⟨_, h2⟩ | ⟨_, h2⟩
  · exact absurd h h2
  · simpa [lastIdx] using h2

/-- with pairwise distinct entries the position is the unique one: below `used` when `ident` is among the first `used` -/
theorem lastIdx_lt (order : List Nat) (id used : Nat) (hn : order.Nodup) (h : id ∈ order.take used) :
    lastIdx order id < used ∧ (order.take used)[lastIdx order id]? = some id := by
  have hm : id ∈ order := List.mem_of_mem_take h
  have h1 := lastIdx_spec order id hm
  obtain ⟨j, hj⟩ := List.mem_iff_getElem?.mp h
  rw [List.getElem?_take] at hj
  split at hj
  · rename_i hju
    have hjl : j < order.length := (List.getElem?_eq_some_iff.mp hj).1
    have : j = lastIdx order id := (List.getElem?_inj hjl hn).mp (by rw [hj, h1])
    subst this
    exact ⟨hju, by rw [List.getElem?_take, if_pos hju]; exact hj⟩
  · cases hj

theorem erase_eq_eraseIdx_of_nodup : ∀ (l : List Nat) (k id : Nat), l.Nodup → l[k]? = some id → l.erase id = l.eraseIdx k
  | [], k, id, _, h => by simp at h
  | x :: xs, 0, id, _, h => by
    simp only [List.getElem?_cons_zero, Option.some.injEq] at h
    subst h; simp
  | x :: xs, k+1, id, hn, h => by
    simp only [List.getElem?_cons_succ] at h
    have hmem : id ∈ xs := List.mem_of_getElem? h
    rw [List.nodup_cons] at hn
    have hne : x ≠ id := fun e => hn.1 (e ▸ hmem)
    rw [List.erase_cons_tail (by simpa using hne), List.eraseIdx_cons_succ,
      erase_eq_eraseIdx_of_nodup xs k id hn.2 h]

/-! ### invariant, abstraction, environment hypotheses -/

/-- `order` is a permutation of the identifiers and `used` is in range -/
def Inv (n : Nat) (s : State) : Prop := s.order.Perm (List.range n) ∧ s.used ≤ n

/-- the allocated identifiers, oldest first -/
def allocated (s : State) : List Nat := s.order.take s.used

/-- environment hypotheses of the property for one cycle: `free` only for an allocated identifier (and
    not together with `free_idx`, whose winner is unspecified), `free_idx` only below the used count -/
def EnvOk (s : State) (i : In) : Prop :=
  (∀ id, i.free = some id → id ∈ allocated s ∧ i.freeIdx = none) ∧ (∀ k, i.freeIdx = some k → k < s.used)

theorem inv_init (n : Nat) : Inv n (init n) := ⟨List.Perm.refl _, Nat.zero_le _⟩

theorem inv_length {n : Nat} {s : State} (h : Inv n s) : s.order.length = n := by
  have := h.1.length_eq; simpa using this

theorem inv_nodup {n : Nat} {s : State} (h : Inv n s) : s.order.Nodup :=
  (h.1.nodup_iff).mpr List.nodup_range

theorem allocated_length {n : Nat} {s : State} (h : Inv n s) : (allocated s).length = s.used := by
  simp only [allocated, List.length_take, inv_length h]
  exact Nat.min_eq_left h.2

/-- the index `free_idx` is called with in this cycle -/
def calledIdx (s : State) (i : In) : Option Nat :=
  match i.free with
  | some ident => some (lastIdx s.order ident)
  | none => i.freeIdx

/-- under the hypotheses the called index designates an allocated position -/
theorem calledIdx_lt {n : Nat} {s : State} {i : In} (hI : Inv n s) (hE : EnvOk s i) {k : Nat}
    (h : calledIdx s i = some k) : k < s.used := by
  unfold calledIdx at h
  cases hf : i.free with
  | some id =>
    rw [hf] at h; simp only [Option.some.injEq] at h; subst h
    exact (lastIdx_lt _ _ _ (inv_nodup hI) (hE.1 id hf).1).1
  | none =>
    rw [hf] at h
    exact hE.2 k h

theorem arun_le {n : Nat} {s : State} {i : In} (hu : s.used ≤ n) :
    s.used + (i.alloc && (s.used != n)).toNat ≤ n := by
  by_cases h : s.used = n
  · simp [h]
  · have hb : (s.used != n) = true := by simpa using h
    rw [hb]
    cases i.alloc <;> simp <;> omega

/-- state after a cycle without `clear` under the invariant and the environment hypotheses -/
theorem step_noclear {n : Nat} {s : State} {i : In} (hI : Inv n s) (hE : EnvOk s i) (hc : i.clear = false) :
    (step n s i).1 =
      { order := match calledIdx s i with | some k => moveToEnd s.order k | none => s.order
        used := s.used + (i.alloc && (s.used != n)).toNat - (calledIdx s i).isSome.toNat } := by
  have ha : s.used + (i.alloc && (s.used != n)).toNat ≤ n := arun_le hI.2
  have hf : (calledIdx s i).isSome.toNat ≤ s.used + (i.alloc && (s.used != n)).toNat := by
    cases h : calledIdx s i with
    | none => simp
    | some k => have := calledIdx_lt hI hE h; simp; omega
  simp only [step, hc, Bool.false_eq_true, if_false]
  congr 1
  exact used_update n _ _ _ ha hf

theorem step_clear (n : Nat) (s : State) (i : In) (hc : i.clear = true) : (step n s i).1 = init n := by
  simp [step, hc]

theorem inv_step {n : Nat} {s : State} {i : In} (hI : Inv n s) (hE : EnvOk s i) : Inv n (step n s i).1 := by
  cases hc : i.clear with
  | true => rw [step_clear n s i hc]; exact inv_init n
  | false =>
    rw [step_noclear hI hE hc]
    refine ⟨?_, ?_⟩
    · cases h : calledIdx s i with
      | none => exact hI.1
      | some k =>
        have hk := calledIdx_lt hI hE h
        exact (moveToEnd_perm _ _ (by rw [inv_length hI]; have := hI.2; omega)).trans hI.1
    · have := arun_le (i := i) hI.2
      simp only
      omega

/-- the allocated list after a cycle without `clear`: the designated entry removed, the returned
    identifier appended -/
theorem allocated_step {n : Nat} {s : State} {i : In} (hI : Inv n s) (hE : EnvOk s i) (hc : i.clear = false) :
    allocated (step n s i).1 =
      (match calledIdx s i with | some k => (allocated s).eraseIdx k | none => allocated s) ++
      (match (step n s i).2.alloc with | some id => [id] | none => []) := by
  rw [step_noclear hI hE hc]
  have hlen := inv_length hI
  have hu := hI.2
  -- the returned identifier
  have hout : (step n s i).2.alloc = if (i.alloc && (s.used != n)) then some (arrayRead s.order s.used) else none := rfl
  rw [hout]
  by_cases ha : (i.alloc && (s.used != n)) = true
  · -- alloc executes: used < n
    have hne : s.used ≠ n := by
      simp only [Bool.and_eq_true, bne_iff_ne] at ha; exact ha.2
    have hlt : s.used < s.order.length := by omega
    have hread : arrayRead s.order s.used = s.order[s.used] := by
      simp [arrayRead, List.getElem?_eq_getElem hlt]
    have htake : s.order.take (s.used + 1) = s.order.take s.used ++ [s.order[s.used]] := by
      rw [List.take_add_one, List.getElem?_eq_getElem hlt]; rfl
    simp only [ha, Bool.toNat_true, if_true, hread, allocated]
    cases h : calledIdx s i with
    | none =>
      simp only [Option.isSome_none, Bool.toNat_false, Nat.sub_zero]
      exact htake
    | some k =>
      have hk := calledIdx_lt hI hE h
      simp only [Option.isSome_some, Bool.toNat_true]
      rw [take_moveToEnd _ _ _ (by omega) (by omega), htake,
        List.eraseIdx_append_of_lt_length (by simp [List.length_take]; omega)]
  · have ha' : (i.alloc && (s.used != n)) = false := by simpa using ha
    simp only [ha', Bool.toNat_false, Nat.add_zero, Bool.false_eq_true, if_false, List.append_nil, allocated]
    cases h : calledIdx s i with
    | none => simp
    | some k =>
      have hk := calledIdx_lt hI hE h
      simp only [Option.isSome_some, Bool.toNat_true]
      exact take_moveToEnd _ _ _ hk (by omega)

theorem allocated_nodup {n : Nat} {s : State} (h : Inv n s) : (allocated s).Nodup :=
  List.Nodup.sublist (List.take_sublist _ _) (inv_nodup h)

/-! ### histories -/

/-- bookkeeping of the allocated identifiers (oldest first) from the observations of one cycle:
    `clear` empties it; otherwise the designated identifier leaves (`free(ident)`: that identifier,
    `free_idx(idx)`: the one at position `idx`) and the identifier returned by `alloc` is appended -/
def ghostStep (A : List Nat) (i : In) (o : Out) : List Nat :=
  if o.clear then [] else
  (match i.free with
   | some id => A.erase id
   | none => match i.freeIdx with
     | some k => A.eraseIdx k
     | none => A) ++
  (match o.alloc with | some id => [id] | none => [])

/-- states reachable from reset by histories in which the environment frees only allocated
    identifiers (according to the bookkeeping list) and indices below the number of allocated ones,
    and never attempts `free` and `free_idx` in the same cycle -/
inductive Reach (n : Nat) : State → List Nat → Prop
  | init : Reach n (init n) []
  | step {s : State} {A : List Nat} (i : In) : Reach n s A →
      (∀ id, i.free = some id → id ∈ A ∧ i.freeIdx = none) → (∀ k, i.freeIdx = some k → k < A.length) →
      Reach n (step n s i).1 (ghostStep A i (step n s i).2)

theorem ghost_agrees {n : Nat} {s : State} {i : In} (hI : Inv n s) (hE : EnvOk s i) :
    allocated (step n s i).1 = ghostStep (allocated s) i (step n s i).2 := by
  cases hc : i.clear with
  | true =>
    have : (step n s i).2.clear = true := by simp [step, hc]
    rw [step_clear n s i hc]
    simp [ghostStep, this, allocated, init]
  | false =>
    have : (step n s i).2.clear = false := by simp [step, hc]
    rw [allocated_step hI hE hc]
    simp only [ghostStep, this, Bool.false_eq_true, if_false]
    congr 1
    cases hf : i.free with
    | some id =>
      simp only [calledIdx, hf]
      have := lastIdx_lt _ _ _ (inv_nodup hI) (hE.1 id hf).1
      exact (erase_eq_eraseIdx_of_nodup _ _ _ (allocated_nodup hI) this.2).symm
    | none => simp only [calledIdx, hf]

theorem reach_inv {n : Nat} {s : State} {A : List Nat} (h : Reach n s A) : Inv n s ∧ allocated s = A := by
  induction h with
  | init => exact ⟨inv_init n, by simp [allocated, init]⟩
  | @step s' A' i _ h1 h2 ih =>
    obtain ⟨hI, hA⟩ := ih
    have hE : EnvOk s' i := by
      refine ⟨fun id hf => ?_, fun k hk => ?_⟩
      · rw [hA]; exact h1 id hf
      · have := h2 k hk; rw [← hA, allocated_length hI] at this; exact this
    exact ⟨inv_step hI hE, by rw [ghost_agrees hI hE, hA]⟩

end TxV.POAllocator
