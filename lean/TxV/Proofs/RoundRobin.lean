import TxV.Model.RoundRobin
/-! Helper lemmas for C39 (round-robin arbiters); also used by C09. -/
namespace TxV.RoundRobin

theorem mod_small {a b d : Nat} (ha : a < d) (hb : b ≤ d) :
    (a + b) % d = if a + b < d then a + b else a + b - d := by
  split
  · exact Nat.mod_eq_of_lt ‹_›
  · rw [Nat.mod_eq_sub_mod (by omega)]; exact Nat.mod_eq_of_lt (by omega)

theorem search_spec (n g : Nat) (req : Nat → Bool) : ∀ (fuel k : Nat),
    (search n g req k fuel = g ∧ ∀ k', k ≤ k' → k' < k + fuel → req ((g + k') % n) = false) ∨
    (∃ k', k ≤ k' ∧ k' < k + fuel ∧ search n g req k fuel = (g + k') % n ∧ req ((g + k') % n) = true ∧
        ∀ k'', k ≤ k'' → k'' < k' → req ((g + k'') % n) = false)
  | 0, k => Or.inl ⟨rfl, fun k' h1 h2 => by omega⟩
  | fuel+1, k => by
    unfold search
    by_cases h : req ((g + k) % n) = true
    · simp only [h, if_true]
      exact Or.inr ⟨k, Nat.le_refl _, by omega, rfl, h, fun k'' h1 h2 => by omega⟩
    · simp only [h]
      have hf : req ((g + k) % n) = false := by simpa using h
      rcases search_spec n g req fuel (k+1) with ⟨e, hall⟩ | ⟨k', h1, h2, e, hr, hall⟩
      · refine Or.inl ⟨by simpa using e, fun k' h1 h2 => ?_⟩
        by_cases hk : k' = k
        · subst hk; exact hf
        · exact hall k' (by omega) (by omega)
      · refine Or.inr ⟨k', by omega, by omega, by simpa using e, hr, fun k'' h1' h2' => ?_⟩
        by_cases hk : k'' = k
        · subst hk; exact hf
        · exact hall k'' (by omega) h2'

/-- number of steps (1…n) from g forward to j -/
def dist (n j g : Nat) : Nat := (j + n - g - 1) % n + 1

theorem dist_le (n j g : Nat) (hn : 0 < n) : dist n j g ≤ n := by
  unfold dist; have := Nat.mod_lt (j + n - g - 1) hn; omega

theorem pick_lt {n g : Nat} {req : Nat → Bool} (hg : g < n) : pick n g req < n := by
  unfold pick
  rcases search_spec n g req (n-1) 1 with ⟨e, _⟩ | ⟨k', _, _, e, _, _⟩
  · rw [e]; exact hg
  · rw [e]; exact Nat.mod_lt _ (by omega)

/-- every index `j ≠ g` below `n` is `(g + k) % n` for exactly one offset `1 ≤ k < n` -/
theorem offset_of {n g j : Nat} (hg : g < n) (hj : j < n) (hne : g ≠ j) :
    ∃ k, 1 ≤ k ∧ k < n ∧ (g + k) % n = j := by
  by_cases hlt : g < j
  · exact ⟨j - g, by omega, by omega, by rw [mod_small hg (by omega)]; split <;> omega⟩
  · exact ⟨j + n - g, by omega, by omega, by rw [mod_small hg (by omega)]; split <;> omega⟩

/-- one cycle: a requesting `j` is granted, or the grant register moves strictly closer to it -/
theorem pick_progress {n j g : Nat} {req : Nat → Bool} (hj : j < n) (hg : g < n) (hr : req j = true) :
    pick n g req = j ∨ dist n j (pick n g req) < dist n j g := by
  unfold pick
  rcases search_spec n g req (n-1) 1 with ⟨e, hall⟩ | ⟨k', h1, h2, e, hrk, hall⟩
  · -- nobody else requests: then g = j
    rw [e]
    by_cases hgj : g = j
    · exact Or.inl hgj
    · exfalso
      obtain ⟨k, hk1, hk2, hk3⟩ := offset_of hg hj hgj
      have := hall k hk1 (by omega)
      rw [hk3, hr] at this; cases this
  · rw [e]
    have hk'n : k' < n := by omega
    by_cases hhit : (g + k') % n = j
    · exact Or.inl hhit
    · right
      unfold dist
      have e1 := mod_small hg (Nat.le_of_lt hk'n)
      rw [e1] at hhit hrk ⊢
      have hnot : ∀ k'', 1 ≤ k'' → k'' < k' → (g + k'') % n ≠ j := by
        intro k'' a b hc; have := hall k'' a b; rw [hc, hr] at this; cases this
      by_cases hw : g + k' < n
      · simp only [hw, if_true] at hhit hrk ⊢
        by_cases hgj : g < j
        · have : g + k' < j := by
            rcases Nat.lt_or_ge (g + k') j with h | h
            · exact h
            · exfalso
              have := hnot (j - g) (by omega) (by omega)
              rw [mod_small hg (by omega)] at this; split at this <;> omega
          have h1 : (j + n - (g + k') - 1) % n = j - (g + k') - 1 := by
            have : j + n - (g + k') - 1 = (j - (g + k') - 1) + n := by omega
            rw [this, Nat.add_mod_right]; exact Nat.mod_eq_of_lt (by omega)
          have h2 : (j + n - g - 1) % n = j - g - 1 := by
            have : j + n - g - 1 = (j - g - 1) + n := by omega
            rw [this, Nat.add_mod_right]; exact Nat.mod_eq_of_lt (by omega)
          rw [h1, h2]; omega
        · have h1 : (j + n - (g + k') - 1) % n = j + n - (g + k') - 1 := Nat.mod_eq_of_lt (by omega)
          have h2 : (j + n - g - 1) % n = j + n - g - 1 := Nat.mod_eq_of_lt (by omega)
          rw [h1, h2]; omega
      · simp only [hw, if_false] at hhit hrk ⊢
        by_cases hgj : g < j
        · exfalso
          have := hnot (j - g) (by omega) (by omega)
          rw [mod_small hg (by omega)] at this; split at this <;> omega
        · have : g + k' - n < j := by
            rcases Nat.lt_or_ge (g + k' - n) j with h | h
            · exact h
            · exfalso
              have := hnot (j + n - g) (by omega) (by omega)
              rw [mod_small hg (by omega)] at this; split at this <;> omega
          have h1 : (j + n - (g + k' - n) - 1) % n = j - (g + k' - n) - 1 := by
            have : j + n - (g + k' - n) - 1 = (j - (g + k' - n) - 1) + n := by omega
            rw [this, Nat.add_mod_right]; exact Nat.mod_eq_of_lt (by omega)
          have h2 : (j + n - g - 1) % n = j + n - g - 1 := Nat.mod_eq_of_lt (by omega)
          rw [h1, h2]; omega

theorem traj_lt {n : Nat} (reqs : Nat → Nat → Bool) {g0 : Nat} (h : g0 < n) : ∀ t, traj n reqs g0 t < n
  | 0 => h
  | t+1 => pick_lt (traj_lt reqs h t)

theorem traj_shift (n : Nat) (reqs : Nat → Nat → Bool) (g0 : Nat) : ∀ t,
    traj n (fun t => reqs (t+1)) (pick n g0 (reqs 0)) t = traj n reqs g0 (t+1) := by
  intro t; induction t with
  | zero => rfl
  | succ t ih => simp only [traj] at ih ⊢; rw [ih]

/-- fairness: an input that requests continuously is granted within `dist ≤ n` cycles, from any state -/
theorem rr_fair {n j g0 : Nat} (reqs : Nat → Nat → Bool) (hj : j < n) (hg : g0 < n) :
    ∀ m, dist n j g0 ≤ m → (∀ t, t < m → reqs t j = true) →
      ∃ t, t < m ∧ pick n (traj n reqs g0 t) (reqs t) = j
  | 0, hd, _ => by unfold dist at hd; omega
  | m+1, hd, hreq => by
    rcases pick_progress (req := reqs 0) hj hg (hreq 0 (by omega)) with h | h
    · exact ⟨0, by omega, h⟩
    · have hg' : pick n g0 (reqs 0) < n := pick_lt hg
      obtain ⟨t, ht, he⟩ := rr_fair (fun t => reqs (t+1)) hj hg' m (by omega) (fun t ht => hreq (t+1) (by omega))
      refine ⟨t+1, by omega, ?_⟩
      rw [traj_shift] at he; exact he

theorem rr_fair_n {n j g0 : Nat} (reqs : Nat → Nat → Bool) (hj : j < n) (hg : g0 < n)
    (h : ∀ t, t < n → reqs t j = true) : ∃ t, t < n ∧ pick n (traj n reqs g0 t) (reqs t) = j :=
  rr_fair reqs hj hg n (dist_le n j g0 (by omega)) h

/-! ### what `pick` returns -/

theorem anyReq_true {n : Nat} {req : Nat → Bool} : anyReq n req = true ↔ ∃ j, j < n ∧ req j = true := by
  simp [anyReq, List.any_eq_true]

theorem anyReq_false {n : Nat} {req : Nat → Bool} : anyReq n req = false ↔ ∀ j, j < n → req j = false := by
  simp [anyReq, List.any_eq_false]

/-- if anybody requests, the picked index requests -/
theorem pick_requests {n g : Nat} {req : Nat → Bool} (hg : g < n) (h : ∃ j, j < n ∧ req j = true) :
    req (pick n g req) = true := by
  obtain ⟨j, hj, hr⟩ := h
  unfold pick
  rcases search_spec n g req (n-1) 1 with ⟨e, hall⟩ | ⟨k', _, _, e, hrk, _⟩
  · rw [e]
    by_cases hgj : g = j
    · rw [hgj]; exact hr
    · exfalso
      obtain ⟨k, hk1, hk2, hk3⟩ := offset_of hg hj hgj
      have := hall k hk1 (by omega)
      rw [hk3, hr] at this; cases this
  · rw [e]; exact hrk

/-- nobody requests: the register keeps its value -/
theorem pick_none {n g : Nat} {req : Nat → Bool} (h : ∀ j, j < n → req j = false) (hn : 0 < n) :
    pick n g req = g := by
  unfold pick
  rcases search_spec n g req (n-1) 1 with ⟨e, _⟩ | ⟨k', _, _, _, hrk, _⟩
  · exact e
  · have := h ((g + k') % n) (Nat.mod_lt _ hn)
    rw [this] at hrk; cases hrk

/-- the holder of the grant keeps it only if nobody else requests -/
theorem pick_self {n g : Nat} {req : Nat → Bool} (hg : g < n) (h : pick n g req = g) :
    ∀ j, j < n → j ≠ g → req j = false := by
  intro j hj hne
  unfold pick at h
  rcases search_spec n g req (n-1) 1 with ⟨_, hall⟩ | ⟨k', h1, h2, e, _, _⟩
  · obtain ⟨k, hk1, hk2, hk3⟩ := offset_of hg hj (Ne.symm hne)
    have := hall k hk1 (by omega)
    rwa [hk3] at this
  · exfalso
    rw [h] at e
    rw [mod_small hg (by omega)] at e
    split at e <;> omega

/-! ### `pick` is the selection as the source writes it -/

theorem search_eq_find (n g : Nat) (req : Nat → Bool) : ∀ (fuel k : Nat),
    search n g req k fuel =
      match ((List.range' k fuel).map (fun k => (g + k) % n)).find? req with
      | some j => j
      | none => g
  | 0, k => by simp [search]
  | fuel+1, k => by
    rw [search, search_eq_find n g req fuel (k+1)]
    simp only [List.range'_succ, List.map_cons, List.find?_cons]
    by_cases h : req ((g + k) % n) = true
    · simp [h]
    · have hf : req ((g + k) % n) = false := by simpa using h
      simp [hf]

theorem order_eq {n g : Nat} (hg : g < n) :
    (List.range' 1 (n - 1)).map (fun k => (g + k) % n) = order n g := by
  unfold order
  apply List.ext_getElem?
  intro i
  simp only [List.getElem?_map, List.getElem?_append, List.length_range']
  by_cases h1 : i < n - 1
  · by_cases h2 : i < n - (g + 1)
    · simp [h1, h2]
      rw [mod_small hg (by omega)]; split <;> omega
    · simp [h1, h2]
      have : i - (n - (g + 1)) < g := by omega
      simp [this]
      rw [mod_small hg (by omega)]; split <;> omega
  · have h2 : ¬ i < n - (g + 1) := by omega
    have : ¬ i - (n - (g + 1)) < g := by omega
    simp [h1, h2, this]

theorem pickSrc_eq_pick {n g : Nat} (hg : g < n) (req : Nat → Bool) : pickSrc n g req = pick n g req := by
  unfold pickSrc pick
  rw [search_eq_find, order_eq hg]
  cases List.find? req (order n g) <;> rfl

/-! ### RoundRobin (binary) over histories -/

/-- the grant register of `RoundRobin` stays below `count` along every history -/
theorem binRun_getElem {n : Nat} : ∀ (rs : List (Nat → Bool)) (s : BinState) (t : Nat) (o o' : BinState) (r : Nat → Bool),
    s.grant < n → (binRun n s rs)[t]? = some o → (binRun n s rs)[t+1]? = some o' → rs[t]? = some r →
    o.grant < n ∧ o' = binStep n o r
  | [], _, _, _, _, _, _, h, _, _ => by simp [binRun] at h
  | r0 :: rs, s, 0, o, o', r, hs, h0, h1, hr => by
    cases rs with
    | nil => simp [binRun] at h1
    | cons r1 rs =>
      simp only [binRun, List.getElem?_cons_zero, List.getElem?_cons_succ, Option.some.injEq] at h0 h1 hr
      subst h0 hr
      exact ⟨hs, h1.symm⟩
  | r0 :: rs, s, t+1, o, o', r, hs, h0, h1, hr => by
    simp only [binRun, List.getElem?_cons_succ] at h0 h1 hr
    exact binRun_getElem rs (binStep n s r0) t o o' r (pick_lt hs) h0 h1 hr

end TxV.RoundRobin
