import TxV.Model.MultiportMemIlvt
/-!
Helper lemmas for C23, part 1: list plumbing (`nthD`, `tab`), XOR sums, memory rows,
the ideal memory under the property's hypothesis, and the `MultiReadMemory` refinement.
-/
namespace TxV.MultiportMem

/-! ### nthD / tab -/

theorem nthD_tab {α} (z : α) (n : Nat) (f : Nat → α) (i : Nat) :
    nthD z (tab n f) i = if i < n then f i else z := by
  unfold nthD tab
  by_cases h : i < n
  · simp [h]
  · simp [h]

theorem nthD_tab_lt {α} (z : α) {n : Nat} (f : Nat → α) {i : Nat} (h : i < n) :
    nthD z (tab n f) i = f i := by
  rw [nthD_tab]; simp [h]

@[simp] theorem tab_length {α} (n : Nat) (f : Nat → α) : (tab n f).length = n := by
  simp [tab]

theorem tab_congr {α} {n : Nat} {f g : Nat → α} (h : ∀ i, i < n → f i = g i) : tab n f = tab n g := by
  unfold tab
  apply List.map_congr_left
  intro i hi
  exact h i (List.mem_range.mp hi)

theorem nthD_of_lt {α} (z : α) (l : List α) {i : Nat} (h : i < l.length) : nthD z l i = l[i] := by
  unfold nthD; simp [h]

theorem nthD_of_ge {α} (z : α) (l : List α) {i : Nat} (h : l.length ≤ i) : nthD z l i = z := by
  unfold nthD; simp [h]

theorem nthD_set {α} (z : α) (l : List α) (a b : Nat) (v : α) :
    nthD z (l.set a v) b = if a = b ∧ a < l.length then v else nthD z l b := by
  unfold nthD
  by_cases hab : a = b
  · subst hab
    by_cases hl : a < l.length
    · simp [hl]
    · simp [hl]
  · simp [List.getElem?_set_ne hab, hab]

theorem rd_set (m : List Nat) (a b v : Nat) :
    rd (m.set a v) b = if a = b ∧ a < m.length then v else rd m b := nthD_set 0 m a b v

/-! ### XOR sums -/

theorem xorAll_congr {f g : Nat → Nat} {n : Nat} (h : ∀ k, k < n → f k = g k) : xorAll f n = xorAll g n := by
  induction n with
  | zero => rfl
  | succ n ih =>
    simp only [xorAll]
    rw [ih (fun k hk => h k (Nat.lt_succ_of_lt hk)), h n (Nat.lt_succ_self n)]

theorem xorExcept_congr {f g : Nat → Nat} {j n : Nat} (h : ∀ k, k < n → k ≠ j → f k = g k) :
    xorExcept f j n = xorExcept g j n := by
  induction n with
  | zero => rfl
  | succ n ih =>
    simp only [xorExcept]
    rw [ih (fun k hk => h k (Nat.lt_succ_of_lt hk))]
    by_cases hn : n = j
    · simp [hn]
    · simp [hn, h n (Nat.lt_succ_self n) hn]

theorem xorExcept_of_ge {f : Nat → Nat} {j n : Nat} (h : n ≤ j) : xorExcept f j n = xorAll f n := by
  induction n with
  | zero => rfl
  | succ n ih =>
    simp only [xorExcept, xorAll]
    rw [ih (Nat.le_of_succ_le h)]
    have : n ≠ j := by omega
    simp [this]

/-- the sum over all banks splits into bank `j` and the others -/
theorem xorAll_split {f : Nat → Nat} {j n : Nat} (hj : j < n) : xorAll f n = f j ^^^ xorExcept f j n := by
  induction n with
  | zero => omega
  | succ n ih =>
    simp only [xorAll, xorExcept]
    by_cases hn : n = j
    · subst hn
      rw [xorExcept_of_ge (Nat.le_refl _)]
      simp [Nat.xor_comm]
    · have hj' : j < n := by omega
      rw [ih hj']
      simp [hn, Nat.xor_assoc]

theorem xor_cancel_right (d x : Nat) : (d ^^^ x) ^^^ x = d := by
  rw [Nat.xor_assoc, Nat.xor_self, Nat.xor_zero]

/-- `(d ⊕ ⨁_{k≠j} f k) ⊕ ⨁_{k≠j} f k = d` in the form used by the pipelines: if bank `j` holds
    `d ⊕ ⨁_{k≠j} f k` and every other bank `k` holds `f k`, the XOR of all banks is `d` -/
theorem xorAll_restore {f g : Nat → Nat} {j n : Nat} (d : Nat) (hj : j < n)
    (hgj : g j = d ^^^ xorExcept f j n) (hg : ∀ k, k < n → k ≠ j → g k = f k) : xorAll g n = d := by
  rw [xorAll_split hj, hgj, xorExcept_congr hg, xor_cancel_right]

/-! ### MultiReadMemory refines the ideal memory -/

namespace MultiRead

/-- every physical memory holds the ideal contents and its read register the ideal port's register -/
def Rel (c : Cfg) (s : State) (t : Ideal.State) : Prop :=
  ∀ r, r < c.nr → bank s r = ⟨t.mem, nthD 0 t.rdata r⟩

theorem rel_init (c : Cfg) : Rel c (init c) (Ideal.init c) := by
  intro r hr
  simp [bank, init, Ideal.init, nthD_tab_lt _ _ hr]

theorem rel_step (c : Cfg) (s : State) (t : Ideal.State) (i : In) (h : Rel c s t) :
    Rel c (step c s i) (Ideal.step c t i) := by
  intro r hr
  simp only [bank, step, Ideal.step, nthD_tab_lt _ _ hr]
  have := h r hr
  simp only [bank] at this
  rw [this]

theorem rel_out (c : Cfg) (s : State) (t : Ideal.State) (h : Rel c s t) : out c s = Ideal.out c t := by
  unfold out Ideal.out
  apply tab_congr
  intro r hr
  rw [h r hr]

theorem run_eq (c : Cfg) (is : List In) (s : State) (t : Ideal.State) (h : Rel c s t) :
    run c s is = Ideal.run c t is := by
  induction is generalizing s t with
  | nil => rfl
  | cons i is ih =>
    simp only [run, Ideal.run]
    rw [rel_out c s t h, ih _ _ (rel_step c s t i h)]

end MultiRead

end TxV.MultiportMem
