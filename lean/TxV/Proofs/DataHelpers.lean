import TxV.Model.DataHelpers
import TxV.Model.DataHelpersIO
/-! Helper lemmas for C41 (data helpers). -/
namespace TxV.DataHelpers

/-! ## Python integer bit operations against arithmetic -/


theorem testBit_ldiff (m n i : Nat) : (ldiff m n).testBit i = (m.testBit i && !n.testBit i) := by
  unfold ldiff
  rw [Nat.testBit_bitwise (by rfl)]

/-- `(2^w - 1) & ~n = 2^w - 1 - n mod 2^w` -/
theorem ldiff_mask (w n : Nat) : ldiff (2 ^ w - 1) n = 2 ^ w - 1 - n % 2 ^ w := by
  apply Nat.eq_of_testBit_eq
  intro i
  have hlt : n % 2 ^ w < 2 ^ w := Nat.mod_lt _ (Nat.two_pow_pos w)
  have : 2 ^ w - 1 - n % 2 ^ w = 2 ^ w - (n % 2 ^ w + 1) := by omega
  rw [this, Nat.testBit_two_pow_sub_succ hlt, testBit_ldiff, Nat.testBit_two_pow_sub_one, Nat.testBit_mod_two_pow]
  by_cases h : i < w <;> simp [h]

/-- `n & ~(2^p - 1) = n - n mod 2^p` -/
theorem ldiff_mask_right (p n : Nat) : ldiff n (2 ^ p - 1) = n - n % 2 ^ p := by
  have : n - n % 2 ^ p = (n >>> p) <<< p := by
    rw [Nat.shiftRight_eq_div_pow, Nat.shiftLeft_eq]
    have := Nat.div_add_mod n (2 ^ p)
    rw [Nat.mul_comm] at this
    omega
  rw [this]
  apply Nat.eq_of_testBit_eq
  intro i
  rw [testBit_ldiff, Nat.testBit_two_pow_sub_one, Nat.testBit_shiftLeft, Nat.testBit_shiftRight]
  by_cases h : i < p
  · have : ¬ i ≥ p := by omega
    simp [h, this]
  · have h' : i ≥ p := by omega
    have : p + (i - p) = i := by omega
    simp [h, h', this]

/-- `n | (2^p - 1) = n - n mod 2^p + (2^p - 1)` -/
theorem or_mask (p n : Nat) : n ||| (2 ^ p - 1) = n - n % 2 ^ p + (2 ^ p - 1) := by
  have h1 : n - n % 2 ^ p = (n >>> p) <<< p := by
    rw [Nat.shiftRight_eq_div_pow, Nat.shiftLeft_eq]
    have := Nat.div_add_mod n (2 ^ p)
    rw [Nat.mul_comm] at this
    omega
  have hlt : 2 ^ p - 1 < 2 ^ p := by have := Nat.two_pow_pos p; omega
  rw [h1, Nat.shiftLeft_add_eq_or_of_lt hlt]
  apply Nat.eq_of_testBit_eq
  intro i
  simp only [Nat.testBit_or, Nat.testBit_two_pow_sub_one, Nat.testBit_shiftLeft, Nat.testBit_shiftRight]
  by_cases h : i < p
  · simp [h]
  · have h' : i ≥ p := by omega
    have : p + (i - p) = i := by omega
    simp [h, h', this]


theorem pow_cast (w : Nat) : (2 : Int) ^ w = ((2 ^ w : Nat) : Int) := by
  rw [Int.natCast_pow]; rfl

theorem mask_cast (w : Nat) : (2 : Int) ^ w - 1 = Int.ofNat (2 ^ w - 1) := by
  have := Nat.two_pow_pos w
  rw [pow_cast]
  show _ = ((2 ^ w - 1 : Nat) : Int)
  omega

theorem notmask_cast (w : Nat) : pyNot ((2 : Int) ^ w - 1) = Int.negSucc (2 ^ w - 1) := by
  have := Nat.two_pow_pos w
  rw [pow_cast, Int.negSucc_eq, pyNot]
  omega

/-- Python `x & (2**w - 1)` is `x mod 2**w` (for negative `x` too) -/
theorem pyAnd_mask (x : Int) (w : Nat) : pyAnd x (2 ^ w - 1) = x % 2 ^ w := by
  have hp := Nat.two_pow_pos w
  rw [mask_cast]
  cases x with
  | ofNat m =>
    simp only [pyAnd, Nat.and_two_pow_sub_one_eq_mod]
    rw [pow_cast]; rfl
  | negSucc m =>
    simp only [pyAnd, ldiff_mask]
    rw [Int.negSucc_emod m (by rw [pow_cast]; omega), pow_cast]
    have := Nat.mod_lt m hp
    omega

/-- Python `x & ~(2**p - 1)` is `x - x mod 2**p` -/
theorem pyAnd_notmask (x : Int) (p : Nat) : pyAnd x (pyNot (2 ^ p - 1)) = x - x % 2 ^ p := by
  have hp := Nat.two_pow_pos p
  rw [notmask_cast]
  cases x with
  | ofNat m =>
    simp only [pyAnd, ldiff_mask_right]
    rw [pow_cast]
    have := Nat.mod_le m (2 ^ p)
    show ((m - m % 2 ^ p : Nat) : Int) = (m : Int) - (m : Int) % ((2 ^ p : Nat) : Int)
    omega
  | negSucc m =>
    simp only [pyAnd, or_mask]
    rw [Int.negSucc_emod m (by rw [pow_cast]; omega), pow_cast, Int.negSucc_eq, Int.negSucc_eq]
    have := Nat.mod_le m (2 ^ p)
    have := Nat.mod_lt m hp
    omega


theorem and_two_pow (m k : Nat) : m &&& 2 ^ k = if m.testBit k then 2 ^ k else 0 := by
  apply Nat.eq_of_testBit_eq
  intro i
  rw [Nat.testBit_and, Nat.testBit_two_pow]
  by_cases hk : k = i
  · subst hk
    cases h : m.testBit k <;> simp
  · cases h : m.testBit k <;> simp [hk]

theorem testBit_top (m k : Nat) (h : m < 2 ^ (k + 1)) : m.testBit k = decide (2 ^ k ≤ m) := by
  by_cases hm : 2 ^ k ≤ m
  · simp [hm, Nat.testBit_of_two_pow_le_and_two_pow_add_one_gt hm h]
  · have : m < 2 ^ k := by omega
    simp [hm, Nat.testBit_lt_two_pow this]

/-- `signed_to_int` on a `w`-bit pattern: the usual two's-complement reading -/
theorem signedToInt_nat (m k : Nat) (h : m < 2 ^ (k + 1)) :
    signedToInt (m : Int) (k + 1) = some (if m < 2 ^ k then (m : Int) else (m : Int) - 2 ^ (k + 1)) := by
  have hp := Nat.two_pow_pos k
  have h2 : 2 ^ (k + 1) = 2 * 2 ^ k := by rw [Nat.pow_succ]; omega
  simp only [signedToInt, Nat.add_one_ne_zero, if_false, Nat.add_sub_cancel, Option.some.injEq]
  rw [pow_cast k]
  show pyOr (Int.ofNat m) (-(pyAnd (Int.ofNat m) (Int.ofNat (2 ^ k)))) = _
  simp only [pyAnd, and_two_pow, testBit_top m k h]
  by_cases hm : 2 ^ k ≤ m
  · have hneg : -(((2 ^ k : Nat) : Int)) = Int.negSucc (2 ^ k - 1) := by rw [Int.negSucc_eq]; omega
    have hmod : m % 2 ^ k = m - 2 ^ k := by
      rw [Nat.mod_eq_sub_mod hm, Nat.mod_eq_of_lt (by omega)]
    simp only [hm, decide_true, if_true, hneg, pyOr, ldiff_mask, hmod]
    have hlt : ¬ m < 2 ^ k := by omega
    simp only [hlt, if_false]
    rw [Int.negSucc_eq, pow_cast (k + 1), h2]
    omega
  · have hlt : m < 2 ^ k := by omega
    simp only [hm, decide_false, Bool.false_eq_true, if_false, hlt, if_true]
    show pyOr (Int.ofNat m) (-(Int.ofNat 0)) = _
    simp [pyOr]


theorem intToSigned_eq (x : Int) (w : Nat) : intToSigned x w = x % 2 ^ w := pyAnd_mask x w

theorem alignDown_eq (num : Int) (p : Nat) : alignDown num p = num - num % 2 ^ p := pyAnd_notmask num p

theorem alignUp_eq (num : Int) (p : Nat) :
    alignUp num p = if num % 2 ^ p = 0 then num else num - num % 2 ^ p + 2 ^ p := by
  simp only [alignUp, pyAnd_mask, pyAnd_notmask]

theorem pow_pos_int (p : Nat) : (0 : Int) < 2 ^ p := by
  rw [pow_cast]; have := Nat.two_pow_pos p; omega


/-! ## make_hashable -/

mutual
theorem mh_of_hashable : ∀ v, hashable v = true → makeHashable v = v
  | .int _, _ => by simp [makeHashable]
  | .str _, _ => by simp [makeHashable]
  | .fset _, _ => by simp [makeHashable]
  | .tuple l, h => by
    have h' : hashableList l = true := by simpa [hashable] using h
    simp [makeHashable, h']
  | .list _, h => by simp [hashable] at h
  | .dict _, h => by simp [hashable] at h
  | .set _, h => by simp [hashable] at h
theorem mhList_of_hashable : ∀ l, hashableList l = true → mhList l = l
  | .nil, _ => by simp [mhList]
  | .cons a t, h => by
    have h' : hashable a = true ∧ hashableList t = true := by simpa [hashableList] using h
    simp [mhList, mh_of_hashable a h'.1, mhList_of_hashable t h'.2]
end

/-- whether or not `hash` succeeds, a tuple is mapped to the tuple of the mapped members -/
theorem mh_tuple (l : PyList) : makeHashable (.tuple l) = .tuple (mhList l) := by
  by_cases h : hashableList l = true
  · simp [makeHashable, h, mhList_of_hashable l h]
  · simp [makeHashable, h]

theorem length_mhPairs : ∀ l : PyPairs, (mhPairs l).length = l.length
  | .nil => by simp [mhPairs, PyList.length, PyPairs.length]
  | .cons _ _ t => by simp [mhPairs, PyList.length, PyPairs.length, length_mhPairs t]

theorem any_mhPairs (k v : PyVal) (ih : ∀ b, pyEq v b = true → pyEq (makeHashable v) (makeHashable b) = true) :
    ∀ l2 : PyPairs, l2.any (fun k' v' => pyEq k k' && pyEq v v') = true →
      (mhPairs l2).any (fun y => pyEq (.tuple (.cons k (.cons (makeHashable v) .nil))) y) = true
  | .nil, h => by simp [PyPairs.any] at h
  | .cons k' v' t, h => by
    simp only [PyPairs.any, Bool.or_eq_true, Bool.and_eq_true] at h
    simp only [mhPairs, PyList.any, Bool.or_eq_true]
    rcases h with ⟨h1, h2⟩ | h
    · left
      simp [pyEq, eqList, h1, ih v' h2]
    · right
      exact any_mhPairs k v ih t h

mutual
theorem mh_eq : ∀ a b, pyEq a b = true → pyEq (makeHashable a) (makeHashable b) = true
  | .int _, b, h => by cases b <;> simp_all [pyEq, makeHashable]
  | .str _, b, h => by cases b <;> simp_all [pyEq, makeHashable]
  | .tuple l1, b, h => by
    cases b with
    | tuple l2 =>
      rw [mh_tuple, mh_tuple]
      simp only [pyEq] at h ⊢
      exact mhList_eq l1 l2 h
    | _ => simp [pyEq] at h
  | .list l1, b, h => by
    cases b with
    | list l2 =>
      simp only [pyEq, makeHashable] at h ⊢
      exact mhList_eq l1 l2 h
    | _ => simp [pyEq] at h
  | .dict l1, b, h => by
    cases b with
    | dict l2 =>
      simp only [pyEq, makeHashable, Bool.and_eq_true, length_mhPairs] at h ⊢
      exact ⟨h.1, mhPairs_sub l1 l2 h.2⟩
    | _ => simp [pyEq] at h
  | .set l1, b, h => by cases b <;> simp_all [pyEq, makeHashable]
  | .fset l1, b, h => by cases b <;> simp_all [pyEq, makeHashable]
theorem mhList_eq : ∀ l1 l2, eqList l1 l2 = true → eqList (mhList l1) (mhList l2) = true
  | .nil, l2, h => by cases l2 <;> simp_all [eqList, mhList]
  | .cons a t, l2, h => by
    cases l2 with
    | nil => simp [eqList] at h
    | cons b u =>
      simp only [eqList, mhList, Bool.and_eq_true] at h ⊢
      exact ⟨mh_eq a b h.1, mhList_eq t u h.2⟩
theorem mhPairs_sub : ∀ l1 l2, subDict l1 l2 = true → subList (mhPairs l1) (mhPairs l2) = true
  | .nil, l2, _ => by simp [mhPairs, subList]
  | .cons k v t, l2, h => by
    simp only [subDict, Bool.and_eq_true] at h
    simp only [mhPairs, subList, Bool.and_eq_true]
    exact ⟨any_mhPairs k v (mh_eq v) l2 h.1, mhPairs_sub t l2 h.2⟩
end


/-! ## transpose -/

theorem allSome_map {α β} (l : List α) (h : α → Option β) (g : α → β) (hg : ∀ x ∈ l, h x = some (g x)) :
    allSome (l.map h) = some (l.map g) := by
  induction l with
  | nil => rfl
  | cons a t ih =>
    have ha := hg a (by simp)
    have := ih (fun x hx => hg x (by simp [hx]))
    simp [allSome, ha, this]

/-- the two shapes a key list of a layout can have -/
inductive KeysForm : List Key → Prop
  | names (ns : List String) : KeysForm (ns.map Key.name)
  | idxs (n : Nat) : KeysForm ((List.range n).map Key.idx)

theorem keysForm_keys {σ} (l : Lay σ) : KeysForm l.keys := by
  cases l with
  | struct fs =>
    have : (Lay.struct fs).keys = (fs.map (·.1)).map Key.name := by simp [Lay.keys, Lay.fields, List.map_map]
    rw [this]; exact .names _
  | array e n =>
    have : (Lay.array e n).keys = (List.range n).map Key.idx := by simp [Lay.keys, Lay.fields, List.map_map]
    rw [this]; exact .idxs _
  | other w => exact .names []

theorem slice_length (v : List Bool) (off len : Nat) (h : off + len ≤ v.length) : (slice v off len).length = len := by
  simp [slice]; omega

theorem slice_append_left (a b : List Bool) (len : Nat) (h : len = a.length) : slice (a ++ b) 0 len = a := by
  subst h; simp [slice]

theorem slice_append_right (a b : List Bool) (off len : Nat) : slice (a ++ b) (a.length + off) len = slice b off len := by
  have : List.drop (a.length + off) a = [] := List.drop_eq_nil_of_le (by omega)
  simp [slice, List.drop_append, this]

/-- **block lemma**: in a concatenation of blocks, laid out like the members of a layout, the member
    found under key `k` is block `k` -/
theorem fieldAt_blocks {σ} (sz : σ → Nat) (f : Key → σ) (blk : Key → List Bool) :
    ∀ (keys : List Key) (_ : ∀ k ∈ keys, (blk k).length = sz (f k)) (k : Key) (_ : k ∈ keys),
      ∃ off, fieldAt sz (keys.map fun k => (k, f k)) k = some (off, f k) ∧
        slice ((keys.map blk).flatten) off (sz (f k)) = blk k
  | [], _, k, hk => by simp at hk
  | k' :: rest, hlen, k, hk => by
    by_cases he : k' = k
    · subst he
      refine ⟨0, by simp [fieldAt], ?_⟩
      simp only [List.map_cons, List.flatten_cons]
      exact slice_append_left _ _ _ (hlen k' (by simp)).symm
    · have hk' : k ∈ rest := by
        rcases List.mem_cons.mp hk with h | h
        · exact absurd h.symm he
        · exact h
      obtain ⟨off, h1, h2⟩ := fieldAt_blocks sz f blk rest (fun x hx => hlen x (by simp [hx])) k hk'
      refine ⟨sz (f k') + off, by simp [fieldAt, he, h1], ?_⟩
      simp only [List.map_cons, List.flatten_cons]
      rw [← hlen k' (by simp), slice_append_right]
      exact h2

theorem flatten_blocks_length {σ} (sz : σ → Nat) (f : Key → σ) (blk : Key → List Bool) (keys : List Key)
    (hlen : ∀ k ∈ keys, (blk k).length = sz (f k)) :
    ((keys.map blk).flatten).length = ((keys.map fun k => (k, f k)).map fun p => sz p.2).sum := by
  induction keys with
  | nil => rfl
  | cons a t ih =>
    simp only [List.map_cons, List.flatten_cons, List.length_append, List.sum_cons]
    rw [ih (fun x hx => hlen x (by simp [hx])), hlen a (by simp)]

/-- a member that exists lies inside the layout -/
theorem fieldAt_bound {σ} (sz : σ → Nat) : ∀ (fs : List (Key × σ)) (k : Key) (off : Nat) (s : σ),
    fieldAt sz fs k = some (off, s) → off + sz s ≤ (fs.map fun p => sz p.2).sum ∧ fs.lookup k = some s
  | [], _, _, _, h => by simp [fieldAt] at h
  | (k', s') :: rest, k, off, s, h => by
    by_cases he : k' = k
    · subst he
      simp [fieldAt] at h
      obtain ⟨rfl, rfl⟩ := h
      simp [List.lookup]
    · simp only [fieldAt, he, if_false, Option.map_eq_some_iff] at h
      obtain ⟨⟨off', s''⟩, h1, h2⟩ := h
      simp only [Prod.mk.injEq] at h2
      obtain ⟨rfl, rfl⟩ := h2
      have := fieldAt_bound sz rest k off' s'' h1
      have hne : (k == k') = false := by
        simp only [beq_eq_false_iff_ne, ne_eq]; exact fun e => he e.symm
      simp only [List.map_cons, List.sum_cons, List.lookup, hne]
      exact ⟨by omega, this.2⟩

theorem fieldAt_of_lookup {σ} (sz : σ → Nat) : ∀ (fs : List (Key × σ)) (k : Key) (s : σ),
    fs.lookup k = some s → ∃ off, fieldAt sz fs k = some (off, s)
  | [], _, _, h => by simp [List.lookup] at h
  | (k', s') :: rest, k, s, h => by
    by_cases he : k' = k
    · subst he
      simp [List.lookup] at h
      exact ⟨0, by simp [fieldAt, h]⟩
    · have hne : (k == k') = false := by
        simp only [beq_eq_false_iff_ne, ne_eq]; exact fun e => he e.symm
      simp only [List.lookup, hne] at h
      obtain ⟨off, ho⟩ := fieldAt_of_lookup sz rest k s h
      exact ⟨sz s' + off, by simp [fieldAt, he, ho]⟩

theorem lookup_of_mem_keys {σ} : ∀ (fs : List (Key × σ)) (k : Key), k ∈ fs.map (·.1) → ∃ s, fs.lookup k = some s ∧ (k, s) ∈ fs
  | [], _, h => by simp at h
  | (k', s') :: rest, k, h => by
    by_cases he : k' = k
    · subst he; exact ⟨s', by simp [List.lookup], by simp⟩
    · have hne : (k == k') = false := by
        simp only [beq_eq_false_iff_ne, ne_eq]; exact fun e => he e.symm
      have hk : k ∈ rest.map (·.1) := by
        simp only [List.map_cons, List.mem_cons] at h
        rcases h with h | h
        · exact absurd h.symm he
        · exact h
      obtain ⟨s, h1, h2⟩ := lookup_of_mem_keys rest k hk
      exact ⟨s, by simp [List.lookup, hne, h1], by simp [h2]⟩


theorem mkLayout_spec {σ} (keys : List Key) (cont : Key → Option σ) (f : Key → σ)
    (hf : KeysForm keys) (hne : keys ≠ []) (hc : ∀ k ∈ keys, cont k = some (f k))
    (hom : ∀ n, keys = (List.range n).map Key.idx → ∀ k ∈ keys, f k = f (.idx 0)) :
    ∃ r, mkLayout keys cont = some r ∧ r.fields = keys.map (fun k => (k, f k)) ∧ r.isAS = true := by
  cases hf with
  | names ns =>
    cases ns with
    | nil => simp at hne
    | cons s0 rest =>
      let g : Key → String × σ := fun k => match k with
        | .name s => (s, f k)
        | .idx _ => ("", f k)
      have hg : ∀ k ∈ (s0 :: rest).map Key.name, structEntry cont k = some (g k) := by
        intro k hk
        obtain ⟨s, _, rfl⟩ := List.mem_map.mp hk
        simp [g, structEntry, hc _ hk]
      refine ⟨.struct (((s0 :: rest).map Key.name).map g), ?_, ?_, rfl⟩
      · have := allSome_map _ _ g hg
        simp only [List.map_cons] at this ⊢
        simp only [mkLayout, List.map_cons, this, Option.map_some]
      · simp [Lay.fields, List.map_map, g]
  | idxs n =>
    cases n with
    | zero => simp at hne
    | succ m =>
      have h0 : Key.idx 0 ∈ (List.range (m + 1)).map Key.idx := by
        apply List.mem_map.mpr; exact ⟨0, by simp, rfl⟩
      refine ⟨.array (f (.idx 0)) (m + 1), ?_, ?_, rfl⟩
      · rw [List.range_succ_eq_map] at hc h0 ⊢
        simp only [List.map_cons] at hc h0 ⊢
        simp [mkLayout, hc _ h0]
      · simp only [Lay.fields, List.map_map]
        apply List.map_congr_left
        intro i hi
        have hk : Key.idx i ∈ (List.range (m + 1)).map Key.idx := List.mem_map.mpr ⟨i, hi, rfl⟩
        simp [hom (m + 1) rfl _ hk]

theorem mkLayout_congr {σ} (keys : List Key) (c1 c2 : Key → Option σ) (hf : KeysForm keys)
    (h : ∀ k ∈ keys, c1 k = c2 k) : mkLayout keys c1 = mkLayout keys c2 := by
  cases hf with
  | names ns =>
    cases ns with
    | nil => rfl
    | cons s0 rest =>
      have : ((s0 :: rest).map Key.name).map (structEntry c1) = ((s0 :: rest).map Key.name).map (structEntry c2) := by
        apply List.map_congr_left
        intro k hk
        obtain ⟨s, _, rfl⟩ := List.mem_map.mp hk
        simp [structEntry, h _ hk]
      simp only [List.map_cons] at this
      simp only [List.map_cons, mkLayout, this]
  | idxs n =>
    cases n with
    | zero => rfl
    | succ m =>
      have h0 : Key.idx 0 ∈ (List.range (m + 1)).map Key.idx := List.mem_map.mpr ⟨0, by simp, rfl⟩
      have := h _ h0
      rw [List.range_succ_eq_map]
      simp only [List.map_cons, mkLayout, this]


/-- the requirements `transpose_layout_with_keys` checks (data.py:103-117) -/
structure TChk (l : Outer) (ok ik : List Key) : Prop where
  isAS : l.isAS = true
  ok_eq : ok = l.keys
  ok_ne : ok ≠ []
  inner_as : ∀ p ∈ l.fields, p.2.isAS = true
  inner_keys : ∀ p ∈ l.fields, p.2.keys = ik
  ik_ne : ik ≠ []

/-- what a successful `transposeLayout` has checked and built -/
structure TOk (l r : Outer) (ok ik : List Key) : Prop extends TChk l ok ik where
  built : mkLayout ik (fun i => mkLayout ok (fun o => (l.lookup o).bind (·.lookup i))) = some r

theorem transposeLayout_ok (l r : Outer) (ok ik : List Key) (h : transposeLayout l = .ok (r, ok, ik)) :
    TOk l r ok ik := by
  unfold transposeLayout at h
  split at h
  · cases h
  · rename_i h1
    simp only at h
    split at h
    · cases h
    · rename_i h2
      split at h
      · cases h
      · rename_i h3
        split at h
        · cases h
        · rename_i first hfirst
          split at h
          · cases h
          · rename_i h4
            split at h
            · cases h
            · rename_i h5
              split at h
              · rename_i r' hmk
                simp only [Except.ok.injEq, Prod.mk.injEq] at h
                obtain ⟨rfl, rfl, rfl⟩ := h
                refine ⟨⟨by simpa using h1, rfl, by simpa using h2, ?_, ?_, by simpa using h4⟩, hmk⟩
                · intro p hp
                  have := h3
                  simp only [Bool.not_eq_true, Bool.not_eq_false', List.all_eq_true] at this
                  exact this p hp
                · intro p hp
                  have := h5
                  simp only [Bool.not_eq_true, Bool.not_eq_false', List.all_eq_true, beq_iff_eq] at this
                  exact this p hp
              · cases h

theorem lookup_array {σ} (e : σ) (n j : Nat) (h : j < n) : (Lay.array e n).lookup (.idx j) = some e := by
  obtain ⟨s, hs, hm⟩ := lookup_of_mem_keys (Lay.array e n).fields (.idx j)
    (by simp only [Lay.fields, List.map_map]; exact List.mem_map.mpr ⟨j, by simpa using h, rfl⟩)
  simp only [Lay.fields, List.mem_map, Prod.mk.injEq] at hm
  obtain ⟨i, _, _, rfl⟩ := hm
  exact hs

/-- a struct/array layout whose (non-empty) keys are indices is an array -/
theorem array_of_idx_keys {σ} (l : Lay σ) (has : l.isAS = true) (n : Nat)
    (hk : l.keys = (List.range n).map Key.idx) (hne : l.keys ≠ []) : ∃ e, l = .array e n := by
  cases l with
  | other w => simp [Lay.isAS] at has
  | array e m =>
    refine ⟨e, ?_⟩
    have := congrArg List.length hk
    simp [Lay.keys, Lay.fields] at this
    rw [this]
  | struct fs =>
    cases fs with
    | nil => simp [Lay.keys, Lay.fields] at hne
    | cons p t =>
      cases n with
      | zero => simp [Lay.keys, Lay.fields] at hk
      | succ m =>
        rw [List.range_succ_eq_map] at hk
        simp [Lay.keys, Lay.fields] at hk

/-- with index keys every lookup gives the element shape -/
theorem lookup_idx_const {σ} (l : Lay σ) (has : l.isAS = true) (n : Nat)
    (hk : l.keys = (List.range n).map Key.idx) (hne : l.keys ≠ []) :
    ∀ k ∈ l.keys, l.lookup k = l.lookup (.idx 0) := by
  obtain ⟨e, rfl⟩ := array_of_idx_keys l has n hk hne
  intro k hk'
  rw [hk] at hk'
  obtain ⟨j, hj, rfl⟩ := List.mem_map.mp hk'
  have hj' : j < n := by simpa using hj
  rw [lookup_array e n j hj', lookup_array e n 0 (by omega)]


/-- `layout[o][i].shape` -/
def leafAt (l : Outer) (o i : Key) : Option Leaf := (l.lookup o).bind (·.lookup i)
/-- totalised versions used only to *name* the members in the statements below -/
def leafOf (l : Outer) (o i : Key) : Leaf := (leafAt l o i).getD ⟨0, 0⟩
def rowOf (l : Outer) (ok : List Key) (i : Key) : Inner := (mkLayout ok (fun o => leafAt l o i)).getD (.other 0)

theorem mem_fields_of_mem_keys {σ} (l : Lay σ) (k : Key) (hk : k ∈ l.keys) :
    ∃ s, l.lookup k = some s ∧ (k, s) ∈ l.fields := lookup_of_mem_keys l.fields k hk

theorem leafAt_some (l : Outer) (ok ik : List Key) (h : TChk l ok ik) (o i : Key) (ho : o ∈ ok) (hi : i ∈ ik) :
    ∃ il, l.lookup o = some il ∧ (o, il) ∈ l.fields ∧ il.lookup i = some (leafOf l o i) ∧ leafAt l o i = some (leafOf l o i) := by
  rw [h.ok_eq] at ho
  obtain ⟨il, h1, h2⟩ := mem_fields_of_mem_keys l o ho
  have hk := h.inner_keys _ h2
  simp only at hk
  rw [← hk] at hi
  obtain ⟨leaf, h3, _⟩ := mem_fields_of_mem_keys il i hi
  have : leafAt l o i = some leaf := by simp [leafAt, h1, h3]
  refine ⟨il, h1, h2, ?_, ?_⟩
  · simp [leafOf, this, h3]
  · simp [leafOf, this]

theorem keysForm_ik (l : Outer) (ok ik : List Key) (h : TChk l ok ik) : KeysForm ik := by
  have hne := h.ok_ne
  rw [h.ok_eq] at hne
  cases hf : l.fields with
  | nil => simp [Lay.keys, hf] at hne
  | cons p t =>
    have := h.inner_keys p (by simp [hf])
    rw [← this]; exact keysForm_keys _

/-- the rows of the transposed layout -/
theorem row_fields (l : Outer) (ok ik : List Key) (h : TChk l ok ik) (i : Key) (hi : i ∈ ik) :
    mkLayout ok (fun o => leafAt l o i) = some (rowOf l ok i) ∧
    (rowOf l ok i).fields = ok.map (fun o => (o, leafOf l o i)) ∧ (rowOf l ok i).isAS = true := by
  have hkf : KeysForm ok := by rw [h.ok_eq]; exact keysForm_keys l
  obtain ⟨row, h1, h2, h3⟩ := mkLayout_spec ok (fun o => leafAt l o i) (fun o => leafOf l o i) hkf h.ok_ne
    (fun o ho => (leafAt_some l ok ik h o i ho hi).choose_spec.2.2.2)
    (by
      intro n hn o ho
      have hc := lookup_idx_const l h.isAS n (by rw [← h.ok_eq]; exact hn) (by rw [← h.ok_eq]; exact h.ok_ne)
      have := hc o (by rw [← h.ok_eq]; exact ho)
      simp [leafOf, leafAt, this])
  simp [rowOf, h1, h2, h3]

theorem transposed_exists (l : Outer) (ok ik : List Key) (h : TChk l ok ik) :
    ∃ r, mkLayout ik (fun i => mkLayout ok (fun o => (l.lookup o).bind (·.lookup i))) = some r ∧
      r.fields = ik.map (fun i => (i, rowOf l ok i)) ∧ r.isAS = true := by
  have hkf := keysForm_ik l ok ik h
  exact mkLayout_spec ik (fun i => mkLayout ok (fun o => leafAt l o i)) (fun i => rowOf l ok i) hkf h.ik_ne
    (fun i hi => (row_fields l ok ik h i hi).1)
    (by
      intro n hn i hi
      have hok : KeysForm ok := by rw [h.ok_eq]; exact keysForm_keys l
      have : mkLayout ok (fun o => leafAt l o i) = mkLayout ok (fun o => leafAt l o (.idx 0)) := by
        apply mkLayout_congr _ _ _ hok
        intro o ho
        obtain ⟨il, h1, h2, _, _⟩ := leafAt_some l ok ik h o i ho hi
        have hk := h.inner_keys _ h2
        simp only at hk
        have hc := lookup_idx_const il (h.inner_as _ h2) n (by rw [hk]; exact hn) (by rw [hk]; exact h.ik_ne)
        simp [leafAt, h1, hc i (by rw [hk]; exact hi)]
      simp [rowOf, this])

theorem transposed_fields (l r : Outer) (ok ik : List Key) (h : TOk l r ok ik) :
    r.fields = ik.map (fun i => (i, rowOf l ok i)) ∧ r.isAS = true := by
  obtain ⟨r', h1, h2, h3⟩ := transposed_exists l ok ik h.toTChk
  have hb := h.built
  rw [h1] at hb
  cases hb
  exact ⟨h2, h3⟩

theorem size_eq_sum {σ} (sz : σ → Nat) (l : Lay σ) (h : l.isAS = true) :
    l.size sz = (l.fields.map fun p => sz p.2).sum := by
  cases l with
  | other w => simp [Lay.isAS] at h
  | struct fs => rfl
  | array e n => rfl

/-- the bits of `view[o][i]` (named through the model's own accessor) -/
def cellOf (l : Outer) (v : List Bool) (o i : Key) : List Bool := ((getPath l v o i).map (·.2)).getD []

theorem getField_some {σ} (sz : σ → Nat) (l : Lay σ) (has : l.isAS = true) (v : List Bool) (hv : v.length = l.size sz)
    (k : Key) (s : σ) (hl : l.lookup k = some s) :
    ∃ bits, getField sz l v k = some (s, bits) ∧ bits.length = sz s := by
  obtain ⟨off, hf⟩ := fieldAt_of_lookup sz l.fields k s hl
  have hb := (fieldAt_bound sz _ _ _ _ hf).1
  rw [← size_eq_sum sz l has, ← hv] at hb
  exact ⟨slice v off (sz s), by simp [getField, hf], slice_length v off (sz s) hb⟩

theorem getPath_orig (l : Outer) (ok ik : List Key) (h : TChk l ok ik) (v : List Bool) (hv : v.length = outerSize l)
    (o i : Key) (ho : o ∈ ok) (hi : i ∈ ik) :
    getPath l v o i = some (leafOf l o i, cellOf l v o i) ∧ (cellOf l v o i).length = (leafOf l o i).w := by
  obtain ⟨il, h1, h2, h3, _⟩ := leafAt_some l ok ik h o i ho hi
  obtain ⟨b1, hg1, hl1⟩ := getField_some innerSize l h.isAS v hv o il h1
  obtain ⟨b2, hg2, hl2⟩ := getField_some Leaf.w il (h.inner_as _ h2) b1 hl1 i _ h3
  have : getPath l v o i = some (leafOf l o i, b2) := by simp [getPath, hg1, hg2]
  simp [cellOf, this, hl2]

theorem transposeVal_eq (l : Outer) (ok ik : List Key) (h : TChk l ok ik) (v : List Bool) (hv : v.length = outerSize l) :
    transposeVal l ok ik v = some ((ik.map fun i => (ok.map fun o => cellOf l v o i).flatten).flatten) := by
  unfold transposeVal
  rw [allSome_map ik _ (fun i => (ok.map fun o => cellOf l v o i).flatten)]
  · rfl
  · intro i hi
    rw [allSome_map ok _ (fun o => cellOf l v o i)]
    · rfl
    · intro o ho
      simp [(getPath_orig l ok ik h v hv o i ho hi).1]

/-- **members of the transposed view**: under key `[i][o]` the transposed layout finds, in the concatenated
    bits, exactly the shape and the bits that the original view has under `[o][i]` -/
theorem getPath_transposed (l r : Outer) (ok ik : List Key) (h : TOk l r ok ik) (v tv : List Bool)
    (hv : v.length = outerSize l) (htv : transposeVal l ok ik v = some tv)
    (o i : Key) (ho : o ∈ ok) (hi : i ∈ ik) :
    getPath r tv i o = getPath l v o i ∧ tv.length = outerSize r := by
  rw [transposeVal_eq l ok ik h.toTChk v hv] at htv
  cases htv
  obtain ⟨hrf, hras⟩ := transposed_fields l r ok ik h
  -- length of every row block
  have hrow : ∀ i ∈ ik, ((ok.map fun o => cellOf l v o i).flatten).length = innerSize (rowOf l ok i) := by
    intro i hi
    obtain ⟨_, hf, has⟩ := row_fields l ok ik h.toTChk i hi
    rw [innerSize, size_eq_sum Leaf.w _ has, hf]
    exact flatten_blocks_length Leaf.w (fun o => leafOf l o i) (fun o => cellOf l v o i) ok
      (fun o ho => (getPath_orig l ok ik h.toTChk v hv o i ho hi).2)
  constructor
  · obtain ⟨off, hf1, hs1⟩ := fieldAt_blocks innerSize (fun i => rowOf l ok i)
      (fun i => (ok.map fun o => cellOf l v o i).flatten) ik hrow i hi
    obtain ⟨_, hf, _⟩ := row_fields l ok ik h.toTChk i hi
    obtain ⟨off2, hf2, hs2⟩ := fieldAt_blocks Leaf.w (fun o => leafOf l o i) (fun o => cellOf l v o i) ok
      (fun o ho => (getPath_orig l ok ik h.toTChk v hv o i ho hi).2) o ho
    rw [(getPath_orig l ok ik h.toTChk v hv o i ho hi).1]
    simp only [getPath, getField, hrf, hf1, Option.map_some, Option.bind_some, hs1, hf, hf2, hs2]
  · rw [outerSize, size_eq_sum innerSize r hras, hrf]
    exact flatten_blocks_length innerSize (fun i => rowOf l ok i) _ ik hrow



/-! ## transposing twice; totality -/


/-- the checks and the construction succeed ⇒ `transposeLayout` returns the construction -/
theorem transposeLayout_of_chk (l r : Outer) (ok ik : List Key) (h : TChk l ok ik)
    (hb : mkLayout ik (fun i => mkLayout ok (fun o => (l.lookup o).bind (·.lookup i))) = some r) :
    transposeLayout l = .ok (r, ok, ik) := by
  have hne := h.ok_ne
  rw [h.ok_eq] at hne
  cases hf : l.fields with
  | nil => simp [Lay.keys, hf] at hne
  | cons p t =>
    have hp := h.inner_keys p (by simp [hf])
    have hall1 : (l.fields.all fun p => p.2.isAS) = true := by
      rw [List.all_eq_true]; exact fun q hq => h.inner_as q hq
    have hall2 : (l.fields.all fun q => q.2.keys == ik) = true := by
      rw [List.all_eq_true]; exact fun q hq => by simpa using h.inner_keys q hq
    have hike : ik.isEmpty = false := by
      cases hik : ik with
      | nil => exact absurd hik h.ik_ne
      | cons _ _ => rfl
    have hoke : l.keys.isEmpty = false := by
      cases hk : l.keys with
      | nil => exact absurd hk hne
      | cons _ _ => rfl
    have hhead : l.fields.head? = some p := by simp [hf]
    unfold transposeLayout
    simp only [h.isAS, Bool.not_true, Bool.false_eq_true, if_false, hoke, hall1, hhead, hp, hike, hall2]
    rw [← h.ok_eq, hb]

theorem transposeLayout_total (l : Outer) : transposeLayout l ≠ .error .internal := by
  intro h
  by_cases h1 : l.isAS = true
  · by_cases h2 : l.keys.isEmpty = true
    · simp [transposeLayout, h1, h2] at h
    · by_cases h3 : (l.fields.all fun p => p.2.isAS) = true
      · cases hf : l.fields with
        | nil => simp [Lay.keys, hf] at h2
        | cons p t =>
          by_cases h4 : p.2.keys.isEmpty = true
          · simp [transposeLayout, h1, h2, hf, h4] at h
            split at h <;> cases h
          · by_cases h5 : (l.fields.all fun q => q.2.keys == p.2.keys) = true
            · have hc : TChk l l.keys p.2.keys := by
                refine ⟨h1, rfl, ?_, ?_, ?_, ?_⟩
                · intro e; simp [e] at h2
                · exact fun q hq => (List.all_eq_true.mp h3) q hq
                · exact fun q hq => by simpa using (List.all_eq_true.mp h5) q hq
                · intro e; simp [e] at h4
              obtain ⟨r, hr, _⟩ := transposed_exists l l.keys p.2.keys hc
              rw [transposeLayout_of_chk l r _ _ hc hr] at h
              cases h
            · simp [transposeLayout, h1, h2, hf, h4] at h
              have h5' : (!(l.fields.all fun q => q.2.keys == p.2.keys)) = true := by simpa using h5
              simp only [h3, h5', Bool.not_true, Bool.false_eq_true, if_false, if_true] at h
              cases h
      · simp [transposeLayout, h1, h2, h3] at h
  · simp [transposeLayout, h1] at h


theorem lookup_map_keys {σ} (f : Key → σ) : ∀ (keys : List Key) (k : Key), k ∈ keys →
    (keys.map fun k => (k, f k)).lookup k = some (f k)
  | [], _, h => by simp at h
  | k' :: rest, k, h => by
    by_cases he : k = k'
    · subst he; simp
    · have hne : (k == k') = false := by simpa using he
      have hk : k ∈ rest := by
        rcases List.mem_cons.mp h with h | h
        · exact absurd h he
        · exact h
      simp [List.lookup, hne, lookup_map_keys f rest k hk]

/-- with distinct keys, a member list is determined by its keys and its lookups -/
theorem fields_of_nodup {σ} (g : Key → σ) : ∀ (fs : List (Key × σ)), (fs.map (·.1)).Nodup →
    (∀ k ∈ fs.map (·.1), fs.lookup k = some (g k)) → fs = (fs.map (·.1)).map fun k => (k, g k)
  | [], _, _ => rfl
  | (k', s') :: rest, hnd, hl => by
    simp only [List.map_cons, List.nodup_cons] at hnd
    have h0 := hl k' (by simp)
    simp only [List.lookup, beq_self_eq_true, Option.some.injEq] at h0
    have ih := fields_of_nodup g rest hnd.2 (by
      intro k hk
      have hne : (k == k') = false := by
        simp only [beq_eq_false_iff_ne, ne_eq]; rintro rfl; exact hnd.1 hk
      have := hl k (by simp [hk])
      simpa [List.lookup, hne] using this)
    simp only [List.map_cons, List.cons.injEq, Prod.mk.injEq, true_and]
    exact ⟨h0, ih⟩

/-- struct/array layouts with the same non-empty member list are equal -/
theorem lay_ext {σ} (l1 l2 : Lay σ) (h1 : l1.isAS = true) (h2 : l2.isAS = true)
    (hf : l1.fields = l2.fields) (hne : l1.fields ≠ []) : l1 = l2 := by
  cases l1 with
  | other w => simp [Lay.isAS] at h1
  | struct fs =>
    cases l2 with
    | other w => simp [Lay.isAS] at h2
    | struct gs =>
      congr 1
      simp only [Lay.fields] at hf
      have hinj : Function.Injective (fun p : String × σ => ((Key.name p.1, p.2) : Key × σ)) := by
        rintro ⟨a, b⟩ ⟨c, d⟩ h
        simp only [Prod.mk.injEq, Key.name.injEq] at h
        simp [h.1, h.2]
      exact (List.map_inj_right (fun x y h => hinj h)).mp hf
    | array e n =>
      cases fs with
      | nil => simp [Lay.fields] at hne
      | cons p t =>
        cases n with
        | zero => simp [Lay.fields] at hf
        | succ m => rw [Lay.fields, Lay.fields, List.range_succ_eq_map] at hf; simp at hf
  | array e n =>
    cases l2 with
    | other w => simp [Lay.isAS] at h2
    | struct gs =>
      cases gs with
      | nil => simp [Lay.fields] at hf hne; simp [hf] at hne
      | cons p t =>
        cases n with
        | zero => simp [Lay.fields] at hf
        | succ m => rw [Lay.fields, Lay.fields, List.range_succ_eq_map] at hf; simp at hf
    | array e' n' =>
      have hlen := congrArg List.length hf
      simp [Lay.fields] at hlen
      subst hlen
      cases n with
      | zero => simp [Lay.fields] at hne
      | succ m =>
        rw [Lay.fields, Lay.fields, List.range_succ_eq_map] at hf
        simp only [List.map_cons, List.cons.injEq, Prod.mk.injEq, true_and] at hf
        rw [hf.1]

/-- dict keys are unique: the member names of every struct of the layout are pairwise distinct -/
def WF (l : Outer) : Prop := l.keys.Nodup ∧ ∀ p ∈ l.fields, p.2.keys.Nodup

theorem keys_of_fields {σ} (l : Lay σ) (keys : List Key) (f : Key → σ) (h : l.fields = keys.map fun k => (k, f k)) :
    l.keys = keys := by
  simp [Lay.keys, h, List.map_map, Function.comp_def]

theorem transpose_involution (l r : Outer) (ok ik : List Key) (h : transposeLayout l = .ok (r, ok, ik)) (hwf : WF l) :
    transposeLayout r = .ok (l, ik, ok) := by
  have h := transposeLayout_ok l r ok ik h
  obtain ⟨hrf, hras⟩ := transposed_fields l r ok ik h
  have hrk : r.keys = ik := keys_of_fields r ik _ hrf
  have hr : TChk r ik ok := by
    refine ⟨hras, hrk.symm, h.ik_ne, ?_, ?_, h.ok_ne⟩
    · intro p hp
      rw [hrf] at hp
      obtain ⟨i, hi, rfl⟩ := List.mem_map.mp hp
      exact (row_fields l ok ik h.toTChk i hi).2.2
    · intro p hp
      rw [hrf] at hp
      obtain ⟨i, hi, rfl⟩ := List.mem_map.mp hp
      exact keys_of_fields _ ok _ (row_fields l ok ik h.toTChk i hi).2.1
  obtain ⟨r2, hb2, hf2, has2⟩ := transposed_exists r ik ok hr
  rw [transposeLayout_of_chk r r2 ik ok hr hb2]
  -- members of the doubly transposed layout are the original ones
  have hleaf : ∀ o ∈ ok, ∀ i ∈ ik, leafOf r i o = leafOf l o i := by
    intro o ho i hi
    have h1 : r.lookup i = some (rowOf l ok i) := by
      rw [Lay.lookup, hrf]; exact lookup_map_keys _ ik i hi
    have h2 : (rowOf l ok i).lookup o = some (leafOf l o i) := by
      rw [Lay.lookup, (row_fields l ok ik h.toTChk i hi).2.1]; exact lookup_map_keys _ ok o ho
    simp [leafOf, leafAt, h1, h2]
  have hrow : ∀ o ∈ ok, l.lookup o = some (rowOf r ik o) := by
    intro o ho
    obtain ⟨i0, hi0⟩ := List.exists_mem_of_ne_nil ik h.ik_ne
    obtain ⟨il, h1, h2, _, _⟩ := leafAt_some l ok ik h.toTChk o i0 ho hi0
    rw [h1]
    congr 1
    have hk := h.inner_keys _ h2
    simp only at hk
    apply lay_ext il _ (h.inner_as _ h2) (row_fields r ik ok hr o ho).2.2
    · rw [(row_fields r ik ok hr o ho).2.1]
      have := fields_of_nodup (fun i => leafOf l o i) il.fields (hwf.2 _ h2) (by
        intro i hi
        have hi' : i ∈ ik := by rw [← hk]; exact hi
        obtain ⟨il', h1', _, h3', _⟩ := leafAt_some l ok ik h.toTChk o i ho hi'
        rw [h1] at h1'; cases h1'; exact h3')
      rw [this]
      have hk' : il.fields.map (·.1) = ik := hk
      rw [hk']
      apply List.map_congr_left
      intro i hi
      rw [hleaf o ho i hi]
    · intro e
      have : il.keys = [] := by simp [Lay.keys, e]
      rw [hk] at this; exact h.ik_ne this
  have : r2 = l := by
    apply lay_ext r2 l has2 h.isAS
    · rw [hf2]
      have := fields_of_nodup (fun o => rowOf r ik o) l.fields hwf.1 (by
        intro o ho
        exact hrow o (by rw [h.ok_eq]; exact ho))
      rw [this]
      have hk' : l.fields.map (·.1) = ok := h.ok_eq.symm
      rw [hk']
    · rw [hf2]
      intro e
      exact h.ok_ne (List.map_eq_nil_iff.mp e)
  rw [this]


end TxV.DataHelpers
