import TxV.Model.Stream
/-! Specification vocabulary and helper lemmas for C29 (stream adapters). -/
namespace TxV.Stream

def optList {α : Type} : Option α → List α
  | none => []
  | some a => [a]

theorem filterMap_eq_flatMap_optList {α β : Type} (f : α → Option β) (l : List α) :
    l.filterMap f = l.flatMap (fun a => optList (f a)) := by
  induction l with
  | nil => rfl
  | cons a l ih =>
    simp only [List.filterMap_cons, List.flatMap_cons, ih]
    cases f a <;> simp [optList]

namespace Source

/-- the item transferred to the consumer in this cycle (`valid ∧ ready`) -/
def xfer (o : Out) : Option Nat := if o.valid && o.ready then some o.payload else none

/-- the item sitting in the register, written but not yet transferred -/
def pending (s : State) : List Nat := if s.valid then [s.payload] else []

/-- the ready/valid protocol rule for a producer, on consecutive cycles of a trace -/
def stableTrace : List Out → Prop
  | [] => True
  | [_] => True
  | a :: b :: r =>
    ((a.valid = true ∧ a.ready = false) → (b.valid = true ∧ b.payload = a.payload)) ∧ stableTrace (b :: r)

theorem step_out (s : State) (i : In) :
    (step s i).2.valid = s.valid ∧ (step s i).2.payload = s.payload ∧ (step s i).2.ready = i.ready := by
  simp [step]

theorem step_stable (s : State) (i : In) (hv : s.valid = true) (hr : i.ready = false) :
    (step s i).1.valid = true ∧ (step s i).1.payload = s.payload ∧ (step s i).2.written = none := by
  simp [step, hv, hr]

/-- bookkeeping of one cycle: what was pending plus what is written = what is transferred plus
    what is pending afterwards -/
theorem step_account (s : State) (i : In) :
    pending s ++ optList (step s i).2.written = optList (xfer (step s i).2) ++ pending (step s i).1 := by
  obtain ⟨v, p⟩ := s
  obtain ⟨w, r⟩ := i
  cases v <;> cases r <;> cases w <;> simp [step, pending, xfer, optList]

theorem run_account (s : State) (is : List In) :
    pending s ++ (run s is).2.filterMap (·.written)
      = (run s is).2.filterMap xfer ++ pending (run s is).1 := by
  induction is generalizing s with
  | nil => simp [run]
  | cons i is ih =>
    simp only [run]
    have h1 := step_account s i
    have h2 := ih (step s i).1
    rw [filterMap_eq_flatMap_optList, filterMap_eq_flatMap_optList] at h2 ⊢
    simp only [List.flatMap_cons]
    rw [← List.append_assoc, h1, List.append_assoc, h2, List.append_assoc]

theorem run_head (s : State) (i : In) (is : List In) :
    (run s (i :: is)).2 = (step s i).2 :: (run (step s i).1 is).2 := by
  simp [run]

theorem run_stable (s : State) (is : List In) : stableTrace (run s is).2 := by
  induction is generalizing s with
  | nil => simp [run, stableTrace]
  | cons i is ih =>
    cases is with
    | nil => simp [run, stableTrace]
    | cons j js =>
      rw [run_head, run_head]
      refine ⟨?_, ?_⟩
      · intro ⟨hv, hr⟩
        have ho := step_out s i
        rw [ho.1] at hv
        rw [ho.2.2] at hr
        have hs := step_stable s i hv hr
        have ho' := step_out (step s i).1 j
        rw [ho'.1, ho'.2.1, ho.2.1]
        exact ⟨hs.1, hs.2.1⟩
      · have := ih (step s i).1
        rwa [run_head] at this

end Source

namespace Sink

/-- the item transferred from the producer in this cycle (`valid ∧ ready`) -/
def xfer (i : In) (o : Out) : Option Nat := if i.valid && o.ready then some i.payload else none

theorem xfer_eq_read (i : In) : xfer i (step i) = (step i).read := by
  obtain ⟨v, p, r, k⟩ := i
  cases v <;> cases r <;> simp [xfer, step]

end Sink

/-! ### wrapper -/

def inXfer (e : PortEv) : Option Nat := if e.iv && e.ir then some e.ip else none
def outXfer (e : PortEv) : Option Nat := if e.ov && e.ordy then some e.op else none

/-- producer rule on the module's input port -/
def legalProducer : List PortEv → Prop
  | [] => True
  | [_] => True
  | a :: b :: r =>
    ((a.iv = true ∧ a.ir = false) → (b.iv = true ∧ b.ip = a.ip)) ∧ legalProducer (b :: r)

def envOf (e : PortEv) : Bool × Nat × Bool := (e.iv, e.ip, e.ordy)

namespace Wrapper

variable {σ : Type}

/-- the `Source.In` the wrapper's StreamSource sees in a cycle -/
def srcIn (M : Mod σ) (s : State σ) (i : In) : Source.In :=
  { write := i.write, ready := (step M s i).2.port.ir }

theorem step_src (M : Mod σ) (s : State σ) (i : In) :
    (step M s i).1.src = (Source.step s.src (srcIn M s i)).1 ∧
    (step M s i).2.written = (Source.step s.src (srcIn M s i)).2.written ∧
    inXfer (step M s i).2.port = Source.xfer (Source.step s.src (srcIn M s i)).2 ∧
    (step M s i).2.port.iv = s.src.valid ∧ (step M s i).2.port.ip = s.src.payload := by
  simp [step, srcIn, Mod.ev, inXfer, Source.xfer, Source.step]

theorem step_read (M : Mod σ) (s : State σ) (i : In) :
    (step M s i).2.read = outXfer (step M s i).2.port := by
  simp only [step, Mod.ev, outXfer, Sink.step]
  cases (M.out s.m s.src.valid s.src.payload).1 <;> cases i.read <;> simp

theorem step_m (M : Mod σ) (s : State σ) (i : In) :
    (step M s i).1.m = M.next s.m (step M s i).2.port.iv (step M s i).2.port.ip (step M s i).2.port.ordy ∧
    (step M s i).2.port = M.ev s.m (step M s i).2.port.iv (step M s i).2.port.ip (step M s i).2.port.ordy := by
  simp [step, Mod.ev]

theorem run_head (M : Mod σ) (s : State σ) (i : In) (is : List In) :
    (run M s (i :: is)).2 = (step M s i).2 :: (run M (step M s i).1 is).2 ∧
    (run M s (i :: is)).1 = (run M (step M s i).1 is).1 := by
  simp [run]

theorem run_account (M : Mod σ) (s : State σ) (is : List In) :
    Source.pending s.src ++ (run M s is).2.filterMap (·.written)
      = (run M s is).2.filterMap (fun o => inXfer o.port) ++ Source.pending (run M s is).1.src := by
  induction is generalizing s with
  | nil => simp [run]
  | cons i is ih =>
    rw [(run_head M s i is).1, (run_head M s i is).2]
    have hs := step_src M s i
    have h1 := Source.step_account s.src (srcIn M s i)
    rw [← hs.1, ← hs.2.1, ← hs.2.2.1] at h1
    have h2 := ih (step M s i).1
    rw [filterMap_eq_flatMap_optList, filterMap_eq_flatMap_optList] at h2 ⊢
    simp only [List.flatMap_cons]
    rw [← List.append_assoc, h1, List.append_assoc, h2, List.append_assoc]

theorem run_reads (M : Mod σ) (s : State σ) (is : List In) :
    (run M s is).2.filterMap (·.read) = (run M s is).2.filterMap (fun o => outXfer o.port) := by
  induction is generalizing s with
  | nil => simp [run]
  | cons i is ih =>
    rw [(run_head M s i is).1]
    simp only [List.filterMap_cons, step_read M s i, ih (step M s i).1]

theorem run_legal (M : Mod σ) (s : State σ) (is : List In) :
    legalProducer ((run M s is).2.map (·.port)) := by
  induction is generalizing s with
  | nil => simp [run, legalProducer]
  | cons i is ih =>
    cases is with
    | nil => simp [run, legalProducer]
    | cons j js =>
      rw [(run_head M s i _).1, (run_head M _ j js).1]
      simp only [List.map_cons]
      refine ⟨?_, ?_⟩
      · intro ⟨hv, hr⟩
        have hs := step_src M s i
        have hs' := step_src M (step M s i).1 j
        rw [hs.2.2.2.1] at hv
        have hst := Source.step_stable s.src (srcIn M s i) hv hr
        rw [hs'.2.2.2.1, hs'.2.2.2.2, hs.2.2.2.2, hs.1]
        exact ⟨hst.1, hst.2.1⟩
      · have := ih (step M s i).1
        rw [(run_head M _ j js).1] at this
        simpa using this

/-- the port trace seen inside the wrapper is a trace of the module alone against the
    environment formed by the wrapper's source and sink -/
theorem run_is_mod_trace (M : Mod σ) (s : State σ) (is : List In) :
    (run M s is).2.map (·.port) = M.trace s.m (((run M s is).2.map (·.port)).map envOf) := by
  induction is generalizing s with
  | nil => simp [run, Mod.trace]
  | cons i is ih =>
    rw [(run_head M s i is).1]
    simp only [List.map_cons, envOf, Mod.trace]
    have hm := step_m M s i
    rw [← hm.2, ← hm.1]
    congr 1
    exact ih (step M s i).1

end Wrapper

/-- the pass-through module is stream-correct for `Spec ins outs := outs = ins.map (· + k mod 2^w)` -/
theorem passMod_spec (w k : Nat) (m : Unit) (env : List (Bool × Nat × Bool)) :
    ((passMod w k).trace m env).filterMap outXfer
      = (((passMod w k).trace m env).filterMap inXfer).map (fun x => (x + k) % 2 ^ w) := by
  induction env with
  | nil => simp [Mod.trace]
  | cons e es ih =>
    obtain ⟨iv, ip, ordy⟩ := e
    simp only [Mod.trace, List.filterMap_cons]
    have ih' : List.filterMap outXfer ((passMod w k).trace () es)
        = List.map (fun x => (x + k) % 2 ^ w) (List.filterMap inXfer ((passMod w k).trace () es)) := ih
    cases iv <;> cases ordy <;> simp [Mod.ev, passMod, inXfer, outXfer] <;> exact ih'

end TxV.Stream
