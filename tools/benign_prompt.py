#!/usr/bin/env python3
"""Prompt for an independent agent producing SEMANTICS-PRESERVING refactorings (false-alarm test) for property Cxx."""
import json, sys
from pathlib import Path
pid = sys.argv[1]
props = {json.loads(l)["id"]: json.loads(l) for l in (Path(__file__).resolve().parents[1] / "properties.jsonl").read_text().splitlines() if l.strip()}
p = props[pid]
wt = f"/tmp/benign_{pid}"
print(f"""You are helping to measure FALSE ALARMS of an (unseen) verification effort for the Python hardware-construction library kuznia-rdzeni/transactron (a library for Amaranth HDL). You have your own scratch git worktree of the repository at {wt} (work ONLY there; never touch /repo or /verif and do not read anything under /verif; never use `git stash`). Python: /venv/bin/python; to import YOUR worktree's copy put it first on the path: `cd {wt} && PYTHONPATH={wt} /venv/bin/python …`; tests: `cd {wt} && PYTHONPATH={wt} /venv/bin/python -m pytest -q -p no:cacheprovider test/<files> -n 4`.

Here is a semantic property of the library that holds today:

  id: {p['id']} — {p['title']}
  statement: {p['statement']}
  code anchors: {', '.join(p['anchors']['files'])}

YOUR TASK: produce THREE different, realistic, SEMANTICS-PRESERVING refactorings of the anchored code (each a separate patch against HEAD, touching only files under transactron/), of the kind a maintainer would do in a clean-up: restructure expressions into equivalent ones (De Morgan, `x != 0` vs `x.any()`, arithmetic vs mask on power-of-two paths, Mux vs If/Else), rename LOCAL variables and signals created inside elaborate(), reorder independent statements, split or merge assignments, introduce a helper function or an intermediate signal, change an internal loop structure — while keeping the externally observable cycle-level behaviour EXACTLY the same for every configuration and input, and keeping the public API (class names, constructor parameters, method names, documented public attributes) unchanged. Make them progressively more invasive: patch 1 small (a few lines), patch 2 medium (10–30 lines), patch 3 as large as you can keep provably equivalent. For each:
 1. write `git diff` output to {wt}/benign_out/<n>/patch.diff (n = 1, 2, 3);
 2. write {wt}/benign_out/<n>/meta.json: {{"property": "{p['id']}", "summary": "...", "why_equivalent": "<argument that behaviour is unchanged for all configurations/inputs>", "files_touched": [...], "tests_run": [...]}};
 3. run the existing tests covering the touched files with the patch applied and confirm they pass (known flaky, load-sensitive: test_stack.py::test_randomized, test_storage.py::TestContentAddressableMemory::test_random, hypothesis DeadlineExceeded in test_utils.py — ignore those);
 4. convince yourself of equivalence with a small differential script (old vs new on random/exhaustive stimulus) — you need not deliver it, but say in meta.json what you compared.
Leave the worktree clean at the end (`git checkout -- .`; only benign_out/ untracked). Final message: three short descriptions.""")
