#!/usr/bin/env python3
"""Regenerate the table of seeded changes in DESIGN.md (between the SEEDED-TABLE markers) from seeded/*/meta.json."""
import json, re
from pathlib import Path
ROOT = Path(__file__).resolve().parents[1]
rows = []
for d in sorted((ROOT / "seeded").iterdir()):
    m = json.loads((d / "meta.json").read_text())
    c = m.get("confirmed_by_coordinator", {})
    checks = dict(c.get("our_checks") or {})
    rerun = c.get("our_checks_rerun") or {}
    first = ", ".join(f"{p}: {'caught' if v['rc']==1 else 'MISSED' if v['rc']==0 else 'error'}" for p, v in checks.items())
    later = ", ".join(f"{p}: {'caught' if v['rc']==1 else 'MISSED' if v['rc']==0 else 'error'}" for p, v in rerun.items())
    summ = re.sub(r"\s+", " ", m.get("summary", ""))[:170].replace("|", "/")
    need = re.sub(r"\s+", " ", m.get("needs_to_manifest", ""))[:150].replace("|", "/")
    rows.append(f"| {d.name} | {summ} | {need} | {first}{(' → after strengthening: ' + later) if later else ''} |")
table = "| id | change (file(s): " + "see patch.diff) | needs, to manifest | outcome of `./check` (quick tier) |\n|---|---|---|---|\n" + "\n".join(rows)
p = ROOT / "DESIGN.md"
s = p.read_text()
s = re.sub(r"(<!-- SEEDED-TABLE-BEGIN -->\n).*?(<!-- SEEDED-TABLE-END -->)", lambda mm: mm.group(1) + table + "\n" + mm.group(2), s, flags=re.S)
p.write_text(s)
print(len(rows), "rows")
