#!/usr/bin/env python3
"""Re-run every kept seed against the current checks (property of the seed only): tools/rerun_all_seeds.py [-j N]"""
import json, subprocess, sys
from concurrent.futures import ThreadPoolExecutor
from pathlib import Path
ROOT = Path(__file__).resolve().parents[1]
j = int(sys.argv[sys.argv.index("-j") + 1]) if "-j" in sys.argv else 4
seeds = sorted(p.name for p in (ROOT / "seeded").iterdir() if (p / "patch.diff").exists())
def run(s):
    r = subprocess.run([sys.executable, str(ROOT / "tools" / "rerun_seed.py"), s], capture_output=True, text=True)
    line = [l for l in r.stdout.splitlines() if "->" in l]
    return s, (line[-1] if line else r.stdout[-200:] + r.stderr[-200:])
with ThreadPoolExecutor(j) as ex:
    res = list(ex.map(run, seeds))
missed = []
for s, line in res:
    ok = "rc=1" in line
    print(("CAUGHT " if ok else "MISSED ") + line[:170])
    if not ok: missed.append(s)
print(f"{len(res)} seeds, {len(missed)} not caught by their own property's check: {missed}")
