#!/usr/bin/env python3
"""tools/try_seed.py <worktree> <n> <Cxx> [Cyy…]
Confirm a seeded change (demo fails with patch / passes without) in its scratch worktree and run our checks against the
patched package by shadowing it through PYTHONPATH (equivalent to `git -C /repo apply`, but does not disturb /repo)."""
import json, os, subprocess, sys, time
from pathlib import Path
wt, n, pids = Path(sys.argv[1]), sys.argv[2], sys.argv[3:]
out = wt / "seed_out" / n
env = dict(os.environ, PYTHONPATH=str(wt), PYTHONDONTWRITEBYTECODE="1", VERIF_EVIDENCE_DIR="/tmp/txv_seed_evidence", VERIF_REPLAYS_DIR="/tmp/txv_seed_replays")
def sh(cmd, **kw):
    return subprocess.run(cmd, cwd=wt, env=env, capture_output=True, text=True, **kw)
sh(["git", "checkout", "--", "."])
r0 = sh(["/venv/bin/python", "-W", "ignore", f"seed_out/{n}/demo.py"], timeout=1800)
a = sh(["git", "apply", f"seed_out/{n}/patch.diff"])
if a.returncode: print("APPLY FAILED", a.stderr); sys.exit(2)
r1 = sh(["/venv/bin/python", "-W", "ignore", f"seed_out/{n}/demo.py"], timeout=1800)
print(f"demo: without patch rc={r0.returncode}, with patch rc={r1.returncode}")
print("  with-patch tail:", (r1.stdout + r1.stderr).strip().splitlines()[-2:])
res = {"demo_without": r0.returncode, "demo_with": r1.returncode, "checks": {}}
for pid in pids:
    t = time.time()
    r = subprocess.run(["./check", pid], cwd="/verif", env=env, capture_output=True, text=True)
    lines = [l for l in (r.stdout + r.stderr).splitlines() if l.startswith("VIOLATION") or l.startswith(f"[{pid}]") or l.startswith("  ")]
    print(f"{pid}: rc={r.returncode} ({time.time()-t:.0f}s)")
    for l in lines[:6]: print("   ", l[:300])
    res["checks"][pid] = {"rc": r.returncode, "lines": lines[:6]}
sh(["git", "checkout", "--", "."])
(out / "our_result.json").write_text(json.dumps(res, indent=1))
