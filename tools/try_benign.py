#!/usr/bin/env python3
"""tools/try_benign.py <worktree> <n> <Cxx…>: apply benign_out/<n>/patch.diff and run checks; expect rc=0 (silent)."""
import json, os, subprocess, sys, time, shutil
from pathlib import Path
wt, n, pids = Path(sys.argv[1]), sys.argv[2], sys.argv[3:]
out = wt / "benign_out" / n
env = dict(os.environ, PYTHONPATH=str(wt), PYTHONDONTWRITEBYTECODE="1", VERIF_EVIDENCE_DIR="/tmp/txv_seed_evidence", VERIF_REPLAYS_DIR="/tmp/txv_seed_replays")
subprocess.run(["git", "checkout", "--", "."], cwd=wt)
a = subprocess.run(["git", "apply", f"benign_out/{n}/patch.diff"], cwd=wt, capture_output=True, text=True)
if a.returncode: print("APPLY FAILED", a.stderr); sys.exit(2)
res = {}
for pid in pids:
    t = time.time()
    r = subprocess.run(["./check", pid], cwd="/verif", env=env, capture_output=True, text=True)
    lines = [l for l in (r.stdout + r.stderr).splitlines() if l.startswith("VIOLATION") or l.startswith(f"[{pid}]") or l.startswith("  ")]
    print(f"{wt.name}/{n} -> {pid}: rc={r.returncode} ({time.time()-t:.0f}s) {'SILENT' if r.returncode == 0 else ' | '.join(lines[:3])[:300]}")
    res[pid] = {"rc": r.returncode, "lines": lines[:4]}
subprocess.run(["git", "checkout", "--", "."], cwd=wt)
meta = json.loads((out / "meta.json").read_text()) if (out / "meta.json").exists() else {"property": pids[0], "summary": "(meta.json not delivered)"}
meta["our_checks"] = res
dst = Path("/verif/seeded_benign") / f"{meta['property']}-b{n}"
dst.mkdir(parents=True, exist_ok=True)
shutil.copy(out / "patch.diff", dst / "patch.diff")
(dst / "meta.json").write_text(json.dumps(meta, indent=1))
