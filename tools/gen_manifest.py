#!/usr/bin/env python3
"""Regenerate MANIFEST.json from the META dict literal of every harness/txv/props/cXX.py.

Properties without a module (or with META["claimed"] == False) are listed under not_applicable
with the reason given in tools/not_claimed.json (default: "check not built yet").
"""
import ast
import json
import re
from pathlib import Path

ROOT = Path(__file__).resolve().parents[1]
props = [json.loads(l) for l in (ROOT / "properties.jsonl").read_text().splitlines() if l.strip()]
reasons_file = ROOT / "tools" / "not_claimed.json"
reasons = json.loads(reasons_file.read_text()) if reasons_file.exists() else {}


wip_file = ROOT / "tools" / "wip.json"
wip = set(json.loads(wip_file.read_text())) if wip_file.exists() else set()


def meta_of(pid: str):
    f = ROOT / "harness" / "txv" / "props" / f"{pid.lower()}.py"
    if not f.exists():
        return None
    tree = ast.parse(f.read_text())
    for node in tree.body:
        if isinstance(node, ast.Assign) and any(isinstance(t, ast.Name) and t.id == "META" for t in node.targets):
            return ast.literal_eval(node.value)
    return None


checks = []
na = []
engines = {}
for p in props:
    pid = p["id"]
    meta = meta_of(pid)
    if pid in wip:
        meta = None
    if not meta or meta.get("claimed") is False:
        na.append({"property_id": pid, "reason": (meta or {}).get("reason") or reasons.get(pid, "check not built yet (work in progress)")})
        continue
    checks.append(
        {
            "property_id": pid,
            "quick_cmd": f"./check {pid} --tier quick",
            "thorough_cmd": f"./check {pid} --tier thorough",
            "evidence_file": f"evidence/{pid}.json",
            "replay_cmd_template": f"./check {pid} --replay {{path}}",
            "engine": "lean-proof+correspondence",
            "level_claimed": {
                "category": "proof",
                "text": meta["level_text"],
                "design_ref": meta.get("design_ref", "DESIGN.md"),
            },
            "level_note": meta["level_note"],
            "technique": meta["technique"],
        }
    )

manifest = {
    "version": 1,
    "setup_cmd": "cd lean && lake build TxV.Core.BridgeC01 TxV.Core.BridgeEval TxV.Core.Placed " + " ".join(f"TxV.Props.{c['property_id']}" for c in checks),
    "hooks": {
        "guard": "TRANSACTRON_VERIF",
        "enable": "no hooks are needed: checks import /repo's working tree through the editable install in /venv and observe public attributes/signals; the guard name is reserved",
        "baseline_off_cmd": "cd /repo && /venv/bin/python -m pytest -ra -q -p no:cacheprovider --timeout=900 --continue-on-collection-errors",
        "source_commits": [],
        "add_only": True,
    },
    "engines": [
        {
            "name": "lean-proof+correspondence",
            "path": "check",
            "serves_properties": [c["property_id"] for c in checks],
            "kind_free_text": "Lean 4 theorems over hand-written executable models (lean/TxV), kernel-checked by `lake build` with axiom audit; "
            "tie to /repo's current tree by a correspondence check (harness/txv): the real code (pysim / direct calls) and the Lean model "
            "interpreter run on the same stimulus lines and are diffed; independent Python monitors drive the failing-input search",
        }
    ],
    "checks": checks,
    "notes": "See DESIGN.md. Exit codes: 0 held, 1 VIOLATION, 2 infrastructure error. VERIF_SEED and VERIF_TIER are honoured.",
    "not_applicable": na,
}
(ROOT / "MANIFEST.json").write_text(json.dumps(manifest, indent=1) + "\n")
print(f"claimed {len(checks)}; not claimed {len(na)}")
