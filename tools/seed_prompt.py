#!/usr/bin/env python3
"""Print the prompt given to an independent 'seeding' agent for property Cxx (property text only, nothing from /verif)."""
import json, sys
from pathlib import Path
pid = sys.argv[1]
round2 = len(sys.argv) > 2 and sys.argv[2] == "2"
props = {json.loads(l)["id"]: json.loads(l) for l in (Path(__file__).resolve().parents[1] / "properties.jsonl").read_text().splitlines() if l.strip()}
p = props[pid]
wt = f"/tmp/seed_{pid}"
prev = ""
if round2:
    import glob
    items = []
    for f in sorted(glob.glob(str(Path(__file__).resolve().parents[1] / "seeded" / f"{pid}-*" / "meta.json"))):
        m = json.loads(open(f).read())
        items.append("  - " + " ".join(m.get("summary", "").split())[:400])
    prev = "\n\nOther people have ALREADY proposed the following changes for this property; do NOT repeat them or close variants — find different mechanisms, different code sites (including helper modules the anchored code depends on), different configurations:\n" + "\n".join(items) + "\nPrefer this time: two cooperating edits that each look harmless alone; a refactoring that is correct for the common configuration but wrong for a rare one; state that is only wrong after a specific multi-step history.\n"
print(f"""You are testing how well an (unseen) verification effort can detect regressions in the Python hardware-construction library kuznia-rdzeni/transactron (a library for Amaranth HDL). You have your own scratch git worktree of the repository at {wt} (work ONLY there; never touch /repo or /verif and do not read anything under /verif). The library's python environment is /venv/bin/python (amaranth and the test dependencies are installed; `transactron` is installed editable from /repo, so to import YOUR worktree's copy you MUST put it first on the path: `cd {wt} && PYTHONPATH={wt} /venv/bin/python …`, and run tests as `cd {wt} && PYTHONPATH={wt} /venv/bin/python -m pytest -q -p no:cacheprovider test/<files> -n 4`; verify with `python -c "import transactron; print(transactron.__file__)"` that {wt} is what gets imported).

Here is a semantic property of the library that should always hold:

  id: {p['id']} — {p['title']}
  statement: {p['statement']}
  quantified over: {p['quantifier']['text']}
  code anchors: {', '.join(p['anchors']['files'])}
{prev}
YOUR TASK: produce TWO different, realistic changes to the library source (each a separate small patch against the worktree's HEAD, touching only files under transactron/) that BREAK this property while the code still imports/elaborates and the EXISTING test suite still passes. Think of plausible maintainer mistakes: an off-by-one, a dropped or weakened condition, a swapped priority/order, a wrong reset, a refactoring that loses a corner case. IMPORTANT: prefer changes that need something specific to manifest — a particular interleaving, a multi-step sequence of operations, an unusual configuration/input, a rare simultaneous combination, or two cooperating sites that each look fine alone — NOT ones that ordinary use exposes at once (those would already be caught by the existing tests). For each change:
 1. write the patch as `git diff` output to {wt}/seed_out/<n>/patch.diff (n = 1, 2);
 2. write a demonstration {wt}/seed_out/<n>/demo.py: a standalone script (run as `cd {wt} && PYTHONPATH={wt} /venv/bin/python seed_out/<n>/demo.py`) that exercises the real library (simulate with amaranth's simulator / transactron.testing helpers, or call the function) and exits non-zero with a clear message when the property is violated — it must FAIL with the change applied and PASS on the unmodified worktree;
 3. run the existing tests that cover the touched files (at least the test modules for the changed component, plus test/core if you touched transactron/core) with the change applied and confirm they still pass (known flaky, load-sensitive tests: test_stack.py::test_randomized, test_storage.py::TestContentAddressableMemory::test_random, hypothesis DeadlineExceeded — ignore those); say exactly which test files you ran;
 4. write {wt}/seed_out/<n>/meta.json: {{"property": "{p['id']}", "summary": "...", "needs_to_manifest": "<the specific interleaving/sequence/configuration needed>", "files_touched": [...], "tests_run": [...], "demo_fails_with_patch": true, "demo_passes_without_patch": true}}.
Never use `git stash` (the stash is shared between all worktrees of the repository and other agents use it): save diffs to files instead. Leave the worktree clean at the end (`git checkout -- . ` so that only seed_out/ is untracked). Keep the patches small (1–10 changed lines each). If after honest effort you can produce only one such change, deliver one and say why. Your final message: for each change a 3-line description (what, what is needed to manifest, which tests ran).""")
