#!/usr/bin/env python3
"""tools/rerun_seed.py <seed-id> [Cxx…]: apply seeded/<seed-id>/patch.diff in a fresh scratch worktree of /repo (under /tmp),
run the named checks (default: the property of the seed) against it via PYTHONPATH, record the outcome in meta.json, remove the worktree."""
import json, os, subprocess, sys, time, shutil
from pathlib import Path
sid = sys.argv[1]
d = Path("/verif/seeded") / sid
meta = json.loads((d / "meta.json").read_text())
pids = sys.argv[2:] or [meta["property"]]
wt = Path(f"/tmp/reseed_{sid}_{os.getpid()}")
subprocess.run(["git", "-C", "/repo", "worktree", "add", "-q", str(wt), "HEAD"], check=True)
try:
    subprocess.run(["git", "apply", str(d / "patch.diff")], cwd=wt, check=True)
    env = dict(os.environ, PYTHONPATH=str(wt), PYTHONDONTWRITEBYTECODE="1", VERIF_EVIDENCE_DIR="/tmp/txv_seed_evidence", VERIF_REPLAYS_DIR="/tmp/txv_seed_replays")
    res = {}
    for pid in pids:
        t = time.time()
        r = subprocess.run(["./check", pid], cwd="/verif", env=env, capture_output=True, text=True)
        lines = [l for l in (r.stdout + r.stderr).splitlines() if l.startswith("VIOLATION") or l.startswith(f"[{pid}]") or l.startswith("  ")]
        print(f"{sid} -> {pid}: rc={r.returncode} ({time.time()-t:.0f}s) {lines[1][:160] if len(lines) > 1 else ''}")
        res[pid] = {"rc": r.returncode, "lines": lines[:6]}
    meta.setdefault("confirmed_by_coordinator", {}).setdefault("our_checks_rerun", {}).update(res)
    (d / "meta.json").write_text(json.dumps(meta, indent=1))
finally:
    subprocess.run(["git", "-C", "/repo", "worktree", "remove", "--force", str(wt)])
    subprocess.run(["git", "-C", "/repo", "worktree", "prune"])
