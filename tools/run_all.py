#!/usr/bin/env python3
"""Run every claimed check (quick tier by default) and summarise: tools/run_all.py [--tier T] [--seed N] [-j J] [ids…]"""
import argparse, json, subprocess, sys, time
from concurrent.futures import ThreadPoolExecutor
from pathlib import Path

ROOT = Path(__file__).resolve().parents[1]
ap = argparse.ArgumentParser()
ap.add_argument("--tier", default="quick")
ap.add_argument("--seed", default="0")
ap.add_argument("-j", type=int, default=4)
ap.add_argument("ids", nargs="*")
a = ap.parse_args()
man = json.loads((ROOT / "MANIFEST.json").read_text())
ids = a.ids or [c["property_id"] for c in man["checks"]]


def run(pid):
    t = time.time()
    r = subprocess.run(["./check", pid, "--tier", a.tier, "--seed", a.seed], cwd=ROOT, capture_output=True, text=True)
    return pid, r.returncode, time.time() - t, (r.stdout + r.stderr)


with ThreadPoolExecutor(a.j) as ex:
    res = list(ex.map(run, ids))
bad = 0
for pid, rc, dt, out in res:
    last = [l for l in out.splitlines() if l.startswith(f"[{pid}]")]
    print(f"{pid} rc={rc} {dt:6.1f}s {last[-1] if last else out[-300:]}")
    if rc != 0:
        bad += 1
        print("   " + "\n   ".join(out.splitlines()[-12:]))
print(f"{len(res)} checks, {bad} non-zero")
sys.exit(1 if bad else 0)
