#!/usr/bin/env python3
"""tools/keep_seed.py <worktree> <n> <seed-id> <test files…>: re-run the named existing tests with the patch applied,
and store patch.diff, demo.py, meta.json (+ what we ran / what our checks reported) under /verif/seeded/<seed-id>/."""
import json, os, shutil, subprocess, sys
from pathlib import Path
wt, n, sid, tests = Path(sys.argv[1]), sys.argv[2], sys.argv[3], sys.argv[4:]
out = wt / "seed_out" / n
env = dict(os.environ, PYTHONPATH=str(wt), PYTHONDONTWRITEBYTECODE="1")
subprocess.run(["git", "checkout", "--", "."], cwd=wt)
subprocess.run(["git", "apply", f"seed_out/{n}/patch.diff"], cwd=wt, check=True)
r = subprocess.run(["/venv/bin/python", "-m", "pytest", "-q", "-p", "no:cacheprovider", "-n", "6", *tests], cwd=wt, env=env, capture_output=True, text=True)
subprocess.run(["git", "checkout", "--", "."], cwd=wt)
tail = r.stdout.strip().splitlines()[-1] if r.stdout.strip() else r.stderr[-300:]
print("tests with patch:", tail)
failed = [l for l in r.stdout.splitlines() if l.startswith("FAILED")]
for f in failed: print("  ", f[:200])
meta = json.loads((out / "meta.json").read_text())
ours = json.loads((out / "our_result.json").read_text()) if (out / "our_result.json").exists() else {}
meta["confirmed_by_coordinator"] = {
    "demo_rc_without_patch": ours.get("demo_without"), "demo_rc_with_patch": ours.get("demo_with"),
    "existing_tests_run_with_patch": tests, "existing_tests_result": tail, "failed_tests": failed,
    "how": "patch applied in a scratch worktree; package shadowed through PYTHONPATH (same effect as git -C /repo apply); demo and tests run there; then ./check <id> run against it",
    "our_checks": ours.get("checks"),
}
dst = Path("/verif/seeded") / sid
dst.mkdir(parents=True, exist_ok=True)
shutil.copy(out / "patch.diff", dst / "patch.diff")
shutil.copy(out / "demo.py", dst / "demo.py")
(dst / "meta.json").write_text(json.dumps(meta, indent=1))
print("kept", dst)
