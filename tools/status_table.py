#!/usr/bin/env python3
"""Regenerate the per-property status table in DESIGN.md (between STATUS-TABLE markers) from Props/*.lean and evidence/*.json."""
import json, re
from pathlib import Path
ROOT = Path(__file__).resolve().parents[1]
props = [json.loads(l) for l in (ROOT / "properties.jsonl").read_text().splitlines() if l.strip()]
kf = (ROOT / "known_findings.txt").read_text()
rows = []
for p in props:
    pid = p["id"]
    lean = ROOT / "lean" / "TxV" / "Props" / f"{pid}.lean"
    obl = re.findall(r"^--\s*OBLIGATION\s+(\S+)", lean.read_text(), re.M) if lean.exists() else []
    partial = [o for o in obl if "partial" in o]
    imports = re.findall(r"^import\s+(TxV\.\S+)", lean.read_text(), re.M) if lean.exists() else []
    ev = ROOT / "evidence" / f"{pid}.json"
    e = json.loads(ev.read_text()) if ev.exists() else {}
    c = e.get("coverage", {})
    fixed = len(re.findall(rf"^fixed: property={pid} ", kf, re.M))
    opn = len(re.findall(rf"^finding: property={pid} ", kf, re.M))
    rows.append(f"| {pid} | {', '.join(i.replace('TxV.', '') for i in imports)} | {len(obl)}" + (f" ({len(partial)} partial: {', '.join(partial)})" if partial else "") +
                f" | {c.get('evaluations', '-')} / {c.get('distinct_nontrivial', '-')} / {c.get('traces_validated_against_impl', '-')} | {e.get('wall_s', '-')} | {fixed} / {opn} |")
table = "| id | Props imports | theorems (OBLIGATIONs) | quick tier: evaluations / distinct non-trivial / traces = model | wall s | defects fixed / open |\n|---|---|---|---|---|---|\n" + "\n".join(rows)
p = ROOT / "DESIGN.md"
s = p.read_text()
s = re.sub(r"(<!-- STATUS-TABLE-BEGIN -->\n).*?(<!-- STATUS-TABLE-END -->)", lambda m: m.group(1) + table + "\n" + m.group(2), s, flags=re.S)
p.write_text(s)
print(len(rows))
