"""Evaluation of purely combinational Amaranth expressions in pysim (used by C36, C37).

`CombDesign(inputs, outputs)` is an `Elaboratable` that assigns every expression of
`outputs` (name -> (expr, width | None)) to a fresh unsigned output `Signal`; the expressions
are built by the REAL helper functions of `/repo` on the given input signals.
`evaluate(design, vectors)` sets the inputs to every vector in turn (one simulation for the
whole batch), lets the combinational logic settle and returns the outputs as ints.
"""

from __future__ import annotations

import warnings
from typing import Any, Optional, Sequence

from amaranth import *  # noqa: F403
from amaranth.sim import Simulator

warnings.filterwarnings("ignore")

EXTRA = 4


class CombDesign(Elaboratable):  # noqa: F405
    def __init__(self, inputs: Sequence[Any], outputs: dict[str, tuple[Any, Optional[int]]]):
        self.inputs = [Value.cast(i) if not isinstance(i, Signal) else i for i in inputs]  # noqa: F405
        self.exprs = {}
        self.outs = {}
        self.lens = {}
        for name, (expr, width) in outputs.items():
            v = Value.cast(expr)  # noqa: F405
            # observe the returned Value at its OWN width and EXTRA bits beyond (a signed result is sign-extended
            # into them), so stray high bits / a wrong result width are visible; `width` forces a narrower view
            w = len(v) + EXTRA if width is None else width
            self.exprs[name] = v
            self.lens[name] = len(v)
            self.outs[name] = Signal(max(w, 1), name=f"out_{name}")  # noqa: F405

    def elaborate(self, platform):
        m = Module()  # noqa: F405
        for name, v in self.exprs.items():
            m.d.comb += self.outs[name].eq(v)
        return m


def evaluate(design: CombDesign, vectors: Sequence[Sequence[int]]) -> list[dict[str, int]]:
    """One simulation; identical vectors are evaluated once."""
    uniq: dict[tuple, Optional[dict[str, int]]] = {}
    for v in vectors:
        uniq.setdefault(tuple(v), None)
    order = list(uniq)
    names = list(design.outs)
    sigs = [design.outs[n] for n in names]
    sim = Simulator(design)

    async def tb(ctx):
        for vec in order:
            for s, x in zip(design.inputs, vec):
                if s.shape().signed and x >= 1 << (len(s) - 1):  # bit pattern -> signed value
                    x -= 1 << len(s)
                ctx.set(s, x)
            await ctx.delay(1e-6)
            uniq[vec] = {n: ctx.get(s) for n, s in zip(names, sigs)}

    sim.add_testbench(tb)
    sim.run()
    return [uniq[tuple(v)] for v in vectors]  # type: ignore[misc]


def kv(line: str) -> dict[str, str]:
    """`op=popcount w=5 x=19` -> {"op": "popcount", "w": "5", "x": "19"}"""
    return dict(t.split("=", 1) for t in line.split() if "=" in t)


def ints(s: str) -> list[int]:
    return [] if s in ("", "-") else [int(x) for x in s.split(",")]


def show_list(xs: Sequence[int]) -> str:
    return ",".join(str(x) for x in xs) if xs else "-"


def corner_values(w: int) -> list[int]:
    """Values worth trying at any width: 0, all ones, single bits, alternating patterns, edges."""
    m = (1 << w) - 1
    vals = {0, m, 1, 1 << (w - 1), m >> 1, m & ~1, 0x5555555555555555 & m, 0xAAAAAAAAAAAAAAAA & m}
    for i in (1, w // 2, w - 2):
        if 0 <= i < w:
            vals.add(1 << i)
            vals.add(m & ~((1 << i) - 1))
            vals.add((1 << i) - 1)
    return sorted(vals)
