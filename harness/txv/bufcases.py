"""Stimulus helpers shared by the buffer properties C14 (BasicFifo, FIFO), C16 (Stack), C17 (Forwarder, Pipe).

A cycle is the tuple (w, r, p, c): `w` = None (no write attempt) or the flattened argument,
`r`/`p`/`c` = 0/1 attempt flags of read / peek / clear.  Line format: `cyc w=17 r=1 p=0 c=0`
(`w=-` for no attempt).  Components without peek/clear use `cyc w=17 r=1`.
"""

from __future__ import annotations

import itertools
import json
from typing import Iterable, Optional

from .common import CORPUS
from .lockstep import Case

Cyc = tuple  # (w, r, p, c)


def fmt(cyc: Cyc, short: bool = False) -> str:
    w, r, p, c = cyc
    ws = "-" if w is None else str(int(w))
    return f"cyc w={ws} r={int(r)}" if short else f"cyc w={ws} r={int(r)} p={int(p)} c={int(c)}"


def parse(line: str) -> Cyc:
    t = dict(x.split("=") for x in line.split()[1:])
    w = None if t["w"] == "-" else int(t["w"])
    return (w, int(t["r"]), int(t.get("p", 0)), int(t.get("c", 0)))


def fields(obs: str) -> dict:
    return dict(x.split("=") for x in obs.split())


def optv(s: str) -> Optional[int]:
    return None if s == "-" else int(s)


class Vals:
    """Source of write arguments: mostly a running counter (so that loss, duplication and
    reordering are visible in the returned data), sometimes random, all below 2**width."""

    def __init__(self, rng, width: int):
        self.rng = rng
        self.mask = (1 << width) - 1
        self.n = rng.randrange(1 << min(width, 16))

    def next(self) -> int:
        self.n += 1
        if self.rng.random() < 0.15:
            return self.rng.randrange(self.mask + 1)
        return self.n & self.mask


def random_ops(rng, n: int, width: int, pw: float, pr: float, pp: float, pc: float) -> list[Cyc]:
    vals = Vals(rng, width)
    return [
        (vals.next() if rng.random() < pw else None, int(rng.random() < pr), int(rng.random() < pp), int(rng.random() < pc))
        for _ in range(n)
    ]


REGIMES = [
    # (p_write, p_read, p_peek, p_clear)
    (0.9, 0.1, 0.3, 0.01),  # mostly full
    (0.1, 0.9, 0.3, 0.01),  # mostly empty
    (0.5, 0.5, 0.5, 0.05),  # steady
    (1.0, 1.0, 1.0, 0.03),  # everything attempted every cycle
    (1.0, 0.5, 0.2, 0.0),
    (0.5, 1.0, 0.2, 0.0),
    (0.6, 0.4, 0.1, 0.3),  # clear-heavy
]


def directed_ops(depth: int, width: int, rng, dense: bool = True) -> list[list[Cyc]]:
    """fill-drain, over/underflow, wrap-around at every pointer value, simultaneous
    read/write at full and empty, clear together with every other method combination."""
    v = Vals(rng, width)
    W = lambda: (v.next(), 0, 0, 0)  # noqa: E731
    R = (None, 1, 0, 0)
    P = (None, 0, 1, 0)
    RW = lambda: (v.next(), 1, 0, 0)  # noqa: E731
    ALL = lambda: (v.next(), 1, 1, 0)  # noqa: E731
    seqs = []
    # fill, overfill, peek, drain, underflow
    seqs.append([W() for _ in range(depth + 2)] + [P, P] + [R] * (depth + 2) + [P])
    # simultaneous read/write at empty, then at full
    seqs.append([RW(), RW(), ALL()] + [W() for _ in range(depth)] + [RW(), RW(), ALL(), ALL()] + [R] * (depth + 1))
    # wrap-around: advance the pointers to every position, fill to every level, single-step everything
    for start in range(depth):
        for level in sorted({0, 1, depth // 2, max(depth - 1, 0), depth} if dense else {0, depth // 2, depth}):
            pre = []
            for _ in range(start):
                pre += [W(), R]
            pre += [W() for _ in range(level)]
            seqs.append(pre + [RW(), ALL(), R, W(), W()] + [R] * (depth + 1))
    # clear together with every combination of the other methods, at empty / partly / full
    for level in sorted({0, 1, depth}):
        for w, r, p in itertools.product((0, 1), repeat=3):
            pre = [W() for _ in range(level)]
            seqs.append(pre + [(v.next() if w else None, r, p, 1), ALL(), ALL(), R, R])
    return seqs


def exhaustive_ops(length: int, values: Iterable[int], with_pc: bool = True) -> Iterable[list[Cyc]]:
    ws = [None, *values]
    alpha = [(w, r, p, c) for w in ws for r in (0, 1) for p in ((0, 1) if with_pc else (0,)) for c in ((0, 1) if with_pc else (0,))]
    return (list(seq) for seq in itertools.product(alpha, repeat=length))


def load_corpus(pid: str) -> list[Case]:
    out = []
    d = CORPUS / pid
    if not d.is_dir():
        return out
    for f in sorted(d.glob("*.json")):
        body = json.loads(f.read_text())
        out.append(Case(body["cfg"], list(body["ops"]), body.get("desc", {}), "corpus"))
    return out
