"""Stimulus helpers shared by the buffer properties C14 (BasicFifo, FIFO), C16 (Stack), C17 (Forwarder, Pipe).

A cycle is the tuple (w, r, p, c): `w` = None (no write attempt) or the flattened argument,
`r`/`p`/`c` = 0/1 attempt flags of read / peek / clear.  Line format: `cyc w=17 r=1 p=0 c=0`
(`w=-` for no attempt).  Components without peek/clear use `cyc w=17 r=1`.
"""

from __future__ import annotations

import itertools
import json
from typing import Iterable, Optional

from .common import CORPUS
from .lockstep import Case

Cyc = tuple  # (w, r, p, c)


def fmt(cyc: Cyc, short: bool = False) -> str:
    w, r, p, c = cyc
    ws = "-" if w is None else str(int(w))
    return f"cyc w={ws} r={int(r)}" if short else f"cyc w={ws} r={int(r)} p={int(p)} c={int(c)}"


def parse(line: str) -> Cyc:
    t = dict(x.split("=") for x in line.split()[1:])
    w = None if t["w"] == "-" else int(t["w"])
    return (w, int(t["r"]), int(t.get("p", 0)), int(t.get("c", 0)))


def fields(obs: str) -> dict:
    return dict(x.split("=") for x in obs.split())


def optv(s: str) -> Optional[int]:
    return None if s == "-" else int(s)


class Vals:
    """Source of write arguments: mostly a running counter (so that loss, duplication and
    reordering are visible in the returned data), sometimes random, all below 2**width."""

    def __init__(self, rng, width: int):
        self.rng = rng
        self.mask = (1 << width) - 1
        self.n = rng.randrange(1 << min(width, 16))

    def next(self) -> int:
        self.n += 1
        if self.rng.random() < 0.15:
            return self.rng.randrange(self.mask + 1)
        return self.n & self.mask


def random_ops(rng, n: int, width: int, pw: float, pr: float, pp: float, pc: float) -> list[Cyc]:
    vals = Vals(rng, width)
    return [
        (vals.next() if rng.random() < pw else None, int(rng.random() < pr), int(rng.random() < pp), int(rng.random() < pc))
        for _ in range(n)
    ]


REGIMES = [
    # (p_write, p_read, p_peek, p_clear)
    (0.9, 0.1, 0.3, 0.01),  # mostly full
    (0.1, 0.9, 0.3, 0.01),  # mostly empty
    (0.5, 0.5, 0.5, 0.05),  # steady
    (1.0, 1.0, 1.0, 0.03),  # everything attempted every cycle
    (1.0, 0.5, 0.2, 0.0),
    (0.5, 1.0, 0.2, 0.0),
    (0.6, 0.4, 0.1, 0.3),  # clear-heavy
]


def directed_ops(depth: int, width: int, rng, dense: bool = True) -> list[list[Cyc]]:
    """fill-drain, over/underflow, wrap-around at every pointer value, simultaneous
    read/write at full and empty, clear together with every other method combination."""
    v = Vals(rng, width)
    W = lambda: (v.next(), 0, 0, 0)  # noqa: E731
    R = (None, 1, 0, 0)
    P = (None, 0, 1, 0)
    RW = lambda: (v.next(), 1, 0, 0)  # noqa: E731
    ALL = lambda: (v.next(), 1, 1, 0)  # noqa: E731
    seqs = []
    # fill, overfill, peek, drain, underflow
    seqs.append([W() for _ in range(depth + 2)] + [P, P] + [R] * (depth + 2) + [P])
    # simultaneous read/write at empty, then at full
    seqs.append([RW(), RW(), ALL()] + [W() for _ in range(depth)] + [RW(), RW(), ALL(), ALL()] + [R] * (depth + 1))
    # wrap-around: advance the pointers to every position, fill to every level, single-step everything
    for start in range(depth):
        for level in sorted({0, 1, depth // 2, max(depth - 1, 0), depth} if dense else {0, depth // 2, depth}):
            pre = []
            for _ in range(start):
                pre += [W(), R]
            pre += [W() for _ in range(level)]
            seqs.append(pre + [RW(), ALL(), R, W(), W()] + [R] * (depth + 1))
    # clear together with every combination of the other methods, at empty / partly / full
    for level in sorted({0, 1, depth}):
        for w, r, p in itertools.product((0, 1), repeat=3):
            pre = [W() for _ in range(level)]
            seqs.append(pre + [(v.next() if w else None, r, p, 1), ALL(), ALL(), R, R])
    return seqs


def exhaustive_ops(length: int, values: Iterable[int], with_pc: bool = True) -> Iterable[list[Cyc]]:
    ws = [None, *values]
    alpha = [(w, r, p, c) for w in ws for r in (0, 1) for p in ((0, 1) if with_pc else (0,)) for c in ((0, 1) if with_pc else (0,))]
    return (list(seq) for seq in itertools.product(alpha, repeat=length))


def load_corpus(pid: str) -> list[Case]:
    out = []
    d = CORPUS / pid
    if not d.is_dir():
        return out
    for f in sorted(d.glob("*.json")):
        body = json.loads(f.read_text())
        out.append(Case(body["cfg"], list(body["ops"]), body.get("desc", {}), "corpus"))
    return out


# ----------------------------------------------------------------------------- several callers per method
def make_multi(inner, n: int = 2):
    """Wrapper owning the real component; `SimpleTestCircuit` puts one AdapterTrans on every element of the
    method lists, i.e. `n` independent transactions calling the *same* `read` / `write` / `peek` method."""
    from amaranth import Elaboratable
    from transactron import TModule

    class MultiCaller(Elaboratable):
        def __init__(self):
            self.inner = inner
            self.write = [inner.write] * n
            self.read = [inner.read] * n
            if hasattr(inner, "peek"):
                self.peek = [inner.peek] * n
            if hasattr(inner, "clear"):
                self.clear = inner.clear

        def elaborate(self, platform):
            m = TModule()
            m.submodules.inner = self.inner
            return m

    return MultiCaller()


def probe_orders(sim, n: int = 2) -> tuple[list[int], list[int]]:
    """Static priority among the callers of write / of read, read off the real scheduler: all callers attempt
    while the method is ready; the one that runs is first.  (Which one it is is the manager's business.)"""
    assert n == 2
    tr = sim.run([{f"write[{k}]": k + 1 for k in range(n)}, {f"read[{k}]": 0 for k in range(n)}])
    ww = [k for k in range(n) if tr[0][("write", k)] is not None]
    rw = [k for k in range(n) if tr[1][("read", k)] is not None]
    w0 = ww[0] if ww else 0
    r0 = rw[0] if rw else 0
    return [w0] + [k for k in range(n) if k != w0], [r0] + [k for k in range(n) if k != r0]


def mfmt(ws, rs, ps, c, short: bool = False) -> str:
    w = ",".join("-" if v is None else str(int(v)) for v in ws)
    r = ",".join(str(int(x)) for x in rs)
    if short:
        return f"mcyc w={w} r={r}"
    return f"mcyc w={w} r={r} p={','.join(str(int(x)) for x in ps)} c={int(c)}"


def mparse(line: str):
    t = dict(x.split("=") for x in line.split()[1:])
    ws = [None if v == "-" else int(v) for v in t["w"].split(",")]
    rs = [int(v) for v in t["r"].split(",")]
    ps = [int(v) for v in t["p"].split(",")] if "p" in t else [0] * len(rs)
    return ws, rs, ps, int(t.get("c", 0))


def multi_sim_op(line: str, has_pc: bool) -> dict:
    ws, rs, ps, c = mparse(line)
    op = {}
    for k, v in enumerate(ws):
        op[f"write[{k}]"] = v
        op[f"read[{k}]"] = 0 if rs[k] else None
        if has_pc:
            op[f"peek[{k}]"] = 0 if ps[k] else None
    if has_pc:
        op["clear"] = 0 if c else None
    return op


def multi_obs(r: dict, n: int, has_pc: bool) -> str:
    s = "w=" + ",".join("0" if r[("write", k)] is None else "1" for k in range(n))
    s += " r=" + ",".join("-" if r[("read", k)] is None else str(r[("read", k)]) for k in range(n))
    if has_pc:
        s += " p=" + ",".join("-" if r[("peek", k)] is None else str(r[("peek", k)]) for k in range(n))
        s += f" c={0 if r[('clear',)] is None else 1}"
    return s


def random_multi_ops(rng, n_cyc: int, width: int, pw: float, pr: float, pp: float, pc: float, n: int = 2, short: bool = False) -> list[str]:
    vals = Vals(rng, width)
    out = []
    for _ in range(n_cyc):
        ws = [vals.next() if rng.random() < pw else None for _ in range(n)]
        rs = [int(rng.random() < pr) for _ in range(n)]
        ps = [int(rng.random() < pp) for _ in range(n)]
        out.append(mfmt(ws, rs, ps, int(rng.random() < pc), short))
    return out


def reduce_multi(case: Case, out: list[str]):
    """Multi-caller part of the monitors: an exclusive method (read, write) executes for at most one caller per
    cycle and only for a caller that attempted; all attempting peek callers see the same thing.  Returns
    (failure | None, single-port case, single-port observations) so that the single-port property monitor then
    checks the union of all callers: every value delivered exactly once and in order, readiness, clear."""
    if out[0] != "ok":
        return None, case, out
    sops, sout = [], ["ok"]
    for k, (line, obs) in enumerate(zip(case.ops, out[1:])):
        ws, rs, ps, c = mparse(line)
        toks = obs.split()
        f = dict(x.split("=") for x in toks)
        has_pc = "p" in f
        wd = [x == "1" for x in f["w"].split(",")]
        rv = [optv(x) for x in f["r"].split(",")]
        pv = [optv(x) for x in f["p"].split(",")] if has_pc else []
        wex = [j for j, d in enumerate(wd) if d]
        rex = [j for j, v in enumerate(rv) if v is not None]
        if len(wex) > 1:
            return f"cycle {k}: write executed for {len(wex)} callers in the same cycle (values {[ws[j] for j in wex]})", case, out
        if len(rex) > 1:
            return (f"cycle {k}: read executed for {len(rex)} callers in the same cycle: each received "
                    f"{[rv[j] for j in rex]} - a value delivered more than once"), case, out
        if any(ws[j] is None for j in wex) or any(not rs[j] for j in rex):
            return f"cycle {k}: a method executed for a caller that did not attempt it", case, out
        pw = None
        if has_pc:
            if any(v is not None and not ps[j] for j, v in enumerate(pv)):
                return f"cycle {k}: peek executed for a caller that did not attempt it", case, out
            seen = {pv[j] for j in range(len(ps)) if ps[j]}
            if len(seen) > 1:
                return f"cycle {k}: peek callers of the same cycle saw different things: {pv}", case, out
            pw = next(iter(seen)) if seen else None
        w_att = [v for v in ws if v is not None]
        w = ws[wex[0]] if wex else (w_att[0] if w_att else None)
        sops.append(fmt((w, int(any(rs)), int(any(ps)), c), short=not has_pc))
        rest = " ".join(t for t in toks if t.split("=")[0] not in ("w", "r", "p", "c"))
        s = f"w={int(bool(wex))} r={'-' if not rex else rv[rex[0]]}"
        if has_pc:
            s += f" p={'-' if pw is None else pw} c={f['c']}"
        sout.append(s + " " + rest)
    return None, case.with_ops(sops), sout


def multi_nontrivial(case: Case, out: list[str]) -> bool:
    """some cycle in which >= 2 callers attempt the same exclusive method and it executes (arbitration happened)"""
    if out[0] != "ok":
        return False
    for line, obs in zip(case.ops, out[1:]):
        ws, rs, _, _ = mparse(line)
        f = fields(obs)
        if (sum(v is not None for v in ws) > 1 and "1" in f["w"]) or (sum(rs) > 1 and f["r"].replace(",", "").replace("-", "")):
            return True
    return False
