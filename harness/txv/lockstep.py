"""Generic correspondence engine: implementation vs. Lean driver on the same stimulus lines.

A *case* is a configuration line followed by op lines.  The property module supplies

  impl(case)      -> list[str]   one observation line per input line, produced by the REAL code
  monitor(case, out_lines) -> Optional[str]
                                  property monitor, independent of the Lean model: a description of
                                  the property failure seen in the implementation's observations
  more_cases(case, rng) -> iterable of cases   (optional) targeted cases for the failing-input search

and this module does: run implementation, monitor, (on failure) shrink and report with a
concrete replay; pipe all cases to the Lean driver, diff, and on divergence run the
failing-input search before reporting.
"""

from __future__ import annotations

import json
import multiprocessing as mp
import os
from dataclasses import dataclass, field
from typing import Any, Callable, Iterable, Optional, Sequence

from .common import Check, InfraError, ddmin, first_diff


@dataclass
class Case:
    cfg: str  # configuration line (first line sent to the driver; driver answers "ok")
    ops: list[str]  # one line per cycle / operation
    desc: dict = field(default_factory=dict)  # canonical descriptor (configuration class) for findings / evidence
    tag: str = "random"  # corpus | directed | random | exhaustive | witness
    payload: Any = None  # anything the impl runner needs besides the lines

    def lines(self) -> list[str]:
        return [self.cfg, *self.ops]

    def key(self) -> str:
        return json.dumps([self.cfg, self.ops])

    def with_ops(self, ops: list[str]) -> "Case":
        return Case(self.cfg, ops, self.desc, self.tag, self.payload)


EXC = "!exception "


def _guarded(impl, case) -> list[str]:
    """Run the implementation on one case.  An exception raised while driving the REAL objects (a change of /repo
    may alter shapes, signatures or record formats the runner reads) is an observation, not an infrastructure
    error: it makes the correspondence fail for this case and starts the failing-input search."""
    try:
        return impl(case)
    except InfraError:
        raise
    except Exception as e:  # noqa: BLE001
        import traceback

        tb = traceback.extract_tb(e.__traceback__)
        where = f"{tb[-1].filename}:{tb[-1].lineno}" if tb else "?"
        return [f"{EXC}{type(e).__name__}: {str(e)[:300]} (at {where})"] * len(case.lines())


def _worker(args):
    impl, case = args
    return _guarded(impl, case)


def run_impl(impl, cases: Sequence[Case], procs: int = 1) -> list[list[str]]:
    if procs <= 1 or len(cases) < 4:
        return [_guarded(impl, c) for c in cases]
    with mp.get_context("fork").Pool(procs) as pool:
        return pool.map(_worker, [(impl, c) for c in cases], chunksize=max(1, len(cases) // (procs * 4)))


def lockstep(
    ctx: Check,
    corr: str,
    driver: str,
    cases: Sequence[Case],
    impl: Callable[[Case], list[str]],
    monitor: Optional[Callable[[Case, list[str]], Optional[str]]] = None,
    more_cases: Optional[Callable[[Case, Any], Iterable[Case]]] = None,
    nontrivial: Optional[Callable[[Case, list[str]], bool]] = None,
    procs: Optional[int] = None,
    max_reports: int = 3,
) -> None:
    """Run all `cases` through implementation, monitor and Lean model; report into `ctx`."""
    if corr not in ctx.corr_names:
        ctx.corr_names.append(corr)
    if procs is None:
        procs = 1 if ctx.quick else min(16, os.cpu_count() or 1)
    outs = run_impl(impl, cases, procs)
    reported = 0
    # ---- monitor on the implementation's own observations
    for case, out in zip(cases, outs):
        if len(out) != len(case.lines()):
            raise InfraError(f"impl runner produced {len(out)} lines for {len(case.lines())} inputs ({case.cfg})")
        nt = True if nontrivial is None else nontrivial(case, out)
        ctx.case(case.key(), nontrivial=nt, n=len(case.ops) or 1)
        ctx.count(f"cases_{case.tag}")
        if case.tag != "witness":
            ctx.sample({"cfg": case.cfg, "ops": case.ops[:8], "impl": out[1:9]}) if len(ctx.samples) < 3 else None
        if monitor is None or out[0].startswith(EXC):
            continue
        fail = monitor(case, out)
        if fail:
            if ctx.is_known(case.desc):
                ctx.count("failures_covered_by_known_finding")
                continue
            if reported < max_reports:
                small = _shrink(case, impl, monitor)
                fail = monitor(small, impl(small)) or fail
                ctx.violation(
                    f"{fail}",
                    {"cfg": small.cfg, "ops": small.ops, "desc": small.desc, "impl_observations": impl(small)},
                )
                reported += 1
    # ---- the Lean model on the same lines
    all_lines: list[str] = []
    for case in cases:
        all_lines.extend(case.lines())
    model = ctx.lean_batch(driver, all_lines)
    pos = 0
    for case, out in zip(cases, outs):
        n = len(case.lines())
        mout = model[pos : pos + n]
        pos += n
        d = first_diff(out, mout)
        if d is None:
            ctx.traces_validated += 1
            continue
        if ctx.is_known(case.desc):
            ctx.count("divergences_covered_by_known_finding")
            continue
        ctx.count("divergences")
        if reported >= max_reports:
            continue
        reported += 1
        detail = {
            "cfg": case.cfg,
            "ops_prefix": case.ops[: max(0, d)],
            "line_index": d,
            "input_line": case.lines()[d] if d < n else None,
            "impl": out[d] if d < len(out) else None,
            "model": mout[d] if d < len(mout) else None,
        }

        def search(case=case):
            if monitor is None or more_cases is None:
                return None
            rng = ctx.rng("search")
            extra = list(more_cases(case, rng))
            eouts = run_impl(impl, extra, procs)
            for c, o in zip(extra, eouts):
                ctx.count("search_cases")
                if o and o[0].startswith(EXC):
                    continue
                f = monitor(c, o)
                if f and not ctx.is_known(c.desc):
                    small = _shrink(c, impl, monitor)
                    f = monitor(small, impl(small)) or f
                    return f, {"cfg": small.cfg, "ops": small.ops, "desc": small.desc, "impl_observations": impl(small)}
            return None

        ctx.divergence(f"corr:{corr}", detail, search)


def _shrink(case: Case, impl, monitor) -> Case:
    def fails(ops):
        c = case.with_ops(list(ops))
        try:
            return bool(monitor(c, impl(c)))
        except Exception:  # noqa: BLE001
            return False

    if len(case.ops) <= 1:
        return case
    try:
        ops = ddmin(list(case.ops), fails, max_tests=120)
    except Exception:  # noqa: BLE001
        ops = case.ops
    return case.with_ops(list(ops))


def replay_case(body: dict, impl, monitor, payload_of: Optional[Callable[[dict], Any]] = None) -> Optional[str]:
    """Re-run a replay file written by `lockstep` on the implementation; returns the failure or None."""
    case = Case(body["cfg"], list(body["ops"]), body.get("desc", {}), "replay")
    if payload_of is not None:
        case.payload = payload_of(body)
    return monitor(case, impl(case))
