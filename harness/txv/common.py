"""Shared machinery of the Transactron verification harness.

One `Check` object per invocation of `./check Cxx`.  It owns: tier/seed handling, the
Lean proof stage (build + axiom audit + forbidden-token grep), the Lean driver
subprocess (line protocol), known-findings handling, replay files, the evidence file and
the final verdict / exit code.

Exit codes: 0 = property held on everything explored; 1 = VIOLATION line printed;
2 = infrastructure problem (Lean build broken, harness exception) - never a VIOLATION.
"""

from __future__ import annotations

import hashlib
import json
import os
import random
import re
import subprocess
import sys
import time
from pathlib import Path
from typing import Any, Callable, Iterable, Optional, Sequence

VERIF = Path(__file__).resolve().parents[2]
LEAN = VERIF / "lean"
# seeded-mutant runs redirect these so that they never overwrite the evidence of the real tree
EVIDENCE = Path(os.environ.get("VERIF_EVIDENCE_DIR") or (VERIF / "evidence"))
REPLAYS = Path(os.environ.get("VERIF_REPLAYS_DIR") or (VERIF / "replays"))
CORPUS = VERIF / "corpus"
KNOWN_FINDINGS = VERIF / "known_findings.txt"

ALLOWED_AXIOMS = {"propext", "Classical.choice", "Quot.sound"}
FORBIDDEN = re.compile(
    r"\b(sorry|admit|native_decide|bv_decide|implemented_by)\b|\bunsafe\s|^\s*axiom\s|maxHeartbeats\s+0\b", re.M
)

TRUSTED_BASE = [
    "Lean 4.33.0 kernel; per-theorem axioms as printed by #print axioms, audited to be a subset of {propext, Classical.choice, Quot.sound}",
    "hand-written Lean model of the anchored code (see DESIGN.md section of this property)",
    "correspondence check: Python harness driving the real transactron code (pysim / direct calls) and the Lean model interpreter (lean --run) on the same stimulus",
    "Amaranth HDL language semantics and its pysim simulator as executor of the implementation",
]


class InfraError(Exception):
    """Something is wrong with the machinery itself (exit 2)."""


def _strip_lean_comments(src: str) -> str:
    # block comments (nested not handled precisely; good enough for the audit), then line comments
    out = []
    depth = 0
    i = 0
    n = len(src)
    while i < n:
        if src.startswith("/-", i):
            depth += 1
            i += 2
        elif depth and src.startswith("-/", i):
            depth -= 1
            i += 2
        elif depth:
            i += 1
        elif src.startswith("--", i):
            j = src.find("\n", i)
            i = n if j < 0 else j
        else:
            out.append(src[i])
            i += 1
    return "".join(out)


def lean_imports(module: str, seen: Optional[dict[str, Path]] = None) -> dict[str, Path]:
    """Transitive closure of `import TxV.…` starting at `module` (dotted name)."""
    if seen is None:
        seen = {}
    if module in seen:
        return seen
    path = LEAN / (module.replace(".", "/") + ".lean")
    if not path.exists():
        raise InfraError(f"missing Lean module {module}")
    seen[module] = path
    for m in re.finditer(r"^import\s+(TxV\.[A-Za-z0-9_.]+)", path.read_text(), re.M):
        lean_imports(m.group(1), seen)
    return seen


def run_cmd(cmd: Sequence[str], cwd: Path, timeout: float = 3600, input: Optional[str] = None):
    return subprocess.run(cmd, cwd=cwd, capture_output=True, text=True, timeout=timeout, input=input)


class Check:
    def __init__(self, pid: str, tier: Optional[str] = None, seed: Optional[int] = None):
        self.pid = pid
        self.tier = tier or os.environ.get("VERIF_TIER") or "quick"
        if self.tier not in ("quick", "thorough"):
            self.tier = "quick"
        self.seed = int(seed if seed is not None else os.environ.get("VERIF_SEED", "0") or 0)
        self.t0 = time.time()
        self.evaluations = 0
        self.distinct: set[str] = set()
        self.traces_validated = 0
        self.samples: list[Any] = []
        self.max_samples = 6
        self.counters: dict[str, int] = {}
        self.rule = ""
        self.assumptions: list[str] = []
        self.notes: list[str] = []
        self.violations: list[dict] = []
        self.known_hits: list[str] = []
        self.obligations: list[dict] = []
        self.proof_info: dict[str, Any] = {}
        self.exhaustive = False
        self.extra_coverage: dict[str, Any] = {}
        self.corr_names: list[str] = []

    # ------------------------------------------------------------------ basics
    @property
    def quick(self) -> bool:
        return self.tier == "quick"

    @property
    def thorough(self) -> bool:
        return self.tier == "thorough"

    def pick(self, quick, thorough):
        return quick if self.quick else thorough

    def rng(self, name: str = "") -> random.Random:
        h = hashlib.sha256(f"{self.pid}/{name}/{self.seed}".encode()).digest()
        return random.Random(int.from_bytes(h[:8], "big"))

    def count(self, key: str, n: int = 1):
        self.counters[key] = self.counters.get(key, 0) + n

    def case(self, key: Any, nontrivial: bool = True, n: int = 1):
        """Register `n` evaluations; `key` identifies the case canonically (for distinct counting)."""
        self.evaluations += n
        if nontrivial:
            k = key if isinstance(key, str) else json.dumps(key, sort_keys=True, default=str)
            self.distinct.add(hashlib.sha1(k.encode()).hexdigest())

    def sample(self, obj: Any):
        if len(self.samples) < self.max_samples:
            self.samples.append(obj)

    def note(self, s: str):
        self.notes.append(s)

    def elapsed(self) -> float:
        return time.time() - self.t0

    # ------------------------------------------------------------- proof stage
    def proof_stage(self, module: Optional[str] = None, extra_modules: Sequence[str] = ()):
        """Build the property's theorems, audit axioms and forbidden tokens.

        Obligations are the `-- OBLIGATION <name> : <text>` lines of the Props module(s);
        each must be followed by a compiled theorem of that (namespace-qualified) name whose
        `#print axioms` output only lists allowed axioms.
        """
        modules = [module or f"TxV.Props.{self.pid}", *extra_modules]
        t = time.time()
        res = run_cmd(["lake", "build", *modules], LEAN, timeout=3000)
        log = res.stdout + res.stderr
        if res.returncode != 0:
            raise InfraError("Lean build failed (can only be caused by an edit under /verif):\n" + log[-4000:])
        axioms: dict[str, list[str]] = {}
        for m in re.finditer(r"'([^']+)' depends on axioms: \[([^\]]*)\]", log):
            axioms[m.group(1)] = [a.strip() for a in m.group(2).replace("\n", " ").split(",") if a.strip()]
        for m in re.finditer(r"'([^']+)' does not depend on any axioms", log):
            axioms[m.group(1)] = []
        srcs: dict[str, Path] = {}
        for mod in modules:
            lean_imports(mod, srcs)
        bad_tokens = []
        for mod, path in srcs.items():
            code = _strip_lean_comments(path.read_text())
            for mm in FORBIDDEN.finditer(code):
                bad_tokens.append(f"{mod}: {mm.group(0).strip()}")
        obligations = []
        for mod in modules:
            text = (LEAN / (mod.replace(".", "/") + ".lean")).read_text()
            for m in re.finditer(r"^--\s*OBLIGATION\s+(\S+)\s*:\s*(.*)$", text, re.M):
                name, desc = m.group(1), m.group(2).strip()
                full = [k for k in axioms if k == name or k.endswith("." + name)]
                ok = bool(full) and all(set(axioms[k]) <= ALLOWED_AXIOMS for k in full)
                obligations.append(
                    {
                        "theorem": full[0] if full else name,
                        "covers": desc,
                        "axioms": axioms[full[0]] if full else None,
                        "discharged": ok and not bad_tokens,
                    }
                )
        self.obligations = obligations
        self.proof_info = {
            "modules": sorted(srcs),
            "build_s": round(time.time() - t, 2),
            "forbidden_tokens": bad_tokens,
        }
        if bad_tokens:
            raise InfraError("forbidden tokens in Lean sources: " + "; ".join(bad_tokens))
        missing = [o["theorem"] for o in obligations if not o["discharged"]]
        if missing or not obligations:
            raise InfraError(f"obligations not discharged / not audited: {missing or 'none declared'}")
        if self.thorough and os.environ.get("VERIF_LEANCHECKER", "1") != "0":
            t = time.time()
            r = run_cmd(["lake", "env", "leanchecker", *sorted(srcs)], LEAN, timeout=3000)
            self.proof_info["leanchecker"] = {"rc": r.returncode, "s": round(time.time() - t, 1)}
            if r.returncode != 0:
                raise InfraError("leanchecker rejected compiled modules:\n" + (r.stdout + r.stderr)[-3000:])

    # ------------------------------------------------------------- Lean driver
    def lean_batch(self, driver: str, lines: Sequence[str], timeout: float = 3000) -> list[str]:
        """Feed `lines` to `lean --run Driver/<driver>.lean`; exactly one output line per input line."""
        if not lines:
            return []
        text = "\n".join(lines) + "\n"
        res = run_cmd(["lake", "env", "lean", "--run", f"Driver/{driver}.lean"], LEAN, timeout=timeout, input=text)
        if res.returncode != 0:
            raise InfraError(f"Lean driver {driver} failed:\n{(res.stdout + res.stderr)[-3000:]}")
        out = res.stdout.split("\n")
        if out and out[-1] == "":
            out.pop()
        if len(out) != len(lines):
            raise InfraError(f"Lean driver {driver}: {len(lines)} lines in, {len(out)} lines out\n{res.stderr[-2000:]}")
        return out

    # ---------------------------------------------------------- known findings
    def findings(self) -> list[dict]:
        out = []
        if not KNOWN_FINDINGS.exists():
            return out
        for line in KNOWN_FINDINGS.read_text().splitlines():
            line = line.strip()
            if not line or line.startswith("#"):
                continue
            m = re.match(r"^(finding|fixed):\s+property=(\S+)\s+(.*?)(?:\s+::\s+(\{.*\}))?$", line)
            if not m or m.group(2) != self.pid:
                continue
            meta = json.loads(m.group(4)) if m.group(4) else {}
            out.append({"kind": m.group(1), "text": m.group(3), **meta})
        return out

    def replay_findings(self, replay: Callable[[dict], Optional[str]]):
        """`replay(witness)` runs the witness on the implementation and returns a description of the
        failure, or None if the property holds on it.  Open findings that still fail print a
        KNOWN-FINDING line; fixed ones that fail again are violations."""
        for f in self.findings():
            if "witness" not in f:
                continue
            try:
                failure = replay(f["witness"])
            except Exception as e:  # noqa: BLE001 - an exception at the witness is a failure of it
                failure = f"{type(e).__name__}: {e}"
            self.count("finding_witnesses_replayed")
            if f["kind"] == "finding":
                if failure:
                    line = f"KNOWN-FINDING: property={self.pid} {f['text']}"
                    print(line, flush=True)
                    self.known_hits.append(f["text"])
            else:
                if failure:
                    self.violation(
                        f"regression of repaired defect: {f['text']}: {failure}", {"witness": f["witness"]}
                    )

    def is_known(self, descriptor: dict) -> bool:
        """Does an open finding's `match` (subset of key/values; list = any of) cover this failing case?"""
        for f in self.findings():
            if f["kind"] != "finding" or "match" not in f:
                continue
            ok = True
            for k, v in f["match"].items():
                dv = descriptor.get(k)
                if isinstance(v, list):
                    ok = ok and dv in v
                else:
                    ok = ok and dv == v
            if ok:
                return True
        return False

    # ---------------------------------------------------------------- verdicts
    def violation(self, what: str, replay: dict, no_failing_input: bool = False, name: Optional[str] = None):
        REPLAYS.mkdir(exist_ok=True)
        idx = len(self.violations)
        path = REPLAYS / f"{self.pid}-{self.tier}-{self.seed}-{idx}.json"
        body = {
            "property": self.pid,
            "tier": self.tier,
            "seed": self.seed,
            "what": what,
            "no_failing_input_found": no_failing_input,
            **({"broken_correspondence_or_theorem": name} if name else {}),
            "replay": replay,
        }
        path.write_text(json.dumps(body, indent=1, default=str))
        self.violations.append({"what": what, "path": str(path), "no_input": no_failing_input})
        tail = " no-failing-input-found" if no_failing_input else ""
        print(f"VIOLATION property={self.pid} replay={path}{tail}", flush=True)
        print(f"  {what}"[:600], flush=True)

    def divergence(
        self,
        corr: str,
        detail: dict,
        search: Optional[Callable[[], Optional[tuple[str, dict]]]] = None,
    ):
        """Model and implementation disagree (correspondence `corr` no longer checks).
        `search()` looks for a concrete failing input of the property itself on the implementation."""
        found = None
        if search is not None:
            try:
                found = search()
            except Exception as e:  # noqa: BLE001
                self.note(f"failing-input search raised {type(e).__name__}: {e}")
        if found:
            what, replay = found
            self.violation(what, {"correspondence": corr, "divergence": detail, **replay})
        else:
            self.violation(
                f"correspondence {corr} between Lean model and implementation no longer checks",
                {"correspondence": corr, "divergence": detail},
                no_failing_input=True,
                name=corr,
            )

    def finish(self) -> int:
        EVIDENCE.mkdir(exist_ok=True)
        nob = len(self.obligations)
        ndis = sum(1 for o in self.obligations if o["discharged"])
        cov: dict[str, Any] = {
            "obligations": nob,
            "discharged": ndis,
            "checker_cmd": f"cd lean && lake build TxV.Props.{self.pid}  # kernel-checks every theorem; #print axioms audited by harness/txv/common.py",
            "trusted_base": TRUSTED_BASE + self.assumptions,
            "theorems": self.obligations,
            "proof_info": self.proof_info,
            "evaluations": self.evaluations,
            "distinct_nontrivial": len(self.distinct),
            "rule": self.rule,
            "traces_validated_against_impl": self.traces_validated,
            "samples": self.samples,
            "distribution": self.counters,
            "exhaustive": self.exhaustive,
            "known_findings_reported": self.known_hits,
            "notes": self.notes,
            **self.extra_coverage,
        }
        ev = {
            "property_id": self.pid,
            "tier": self.tier,
            "seed": self.seed,
            "level": "proof",
            "coverage": cov,
            "assumptions": self.assumptions,
            "wall_s": round(self.elapsed(), 2),
            "violations": len(self.violations),
        }
        (EVIDENCE / f"{self.pid}.json").write_text(json.dumps(ev, indent=1, default=str))
        print(
            f"[{self.pid}] tier={self.tier} seed={self.seed} theorems={ndis}/{nob} evaluations={self.evaluations} "
            f"distinct_nontrivial={len(self.distinct)} traces={self.traces_validated} "
            f"violations={len(self.violations)} wall={self.elapsed():.1f}s",
            flush=True,
        )
        return 1 if self.violations else 0


# ------------------------------------------------------------------- utilities
def first_diff(a: Sequence[str], b: Sequence[str]) -> Optional[int]:
    for i, (x, y) in enumerate(zip(a, b)):
        if x != y:
            return i
    if len(a) != len(b):
        return min(len(a), len(b))
    return None


def ddmin(items: list, fails: Callable[[list], bool], max_tests: int = 200) -> list:
    """Delta debugging: a smaller sub-list of `items` on which `fails` still holds."""
    n = 2
    tests = 0
    cur = list(items)
    while len(cur) >= 2 and tests < max_tests:
        chunk = max(1, len(cur) // n)
        reduced = False
        for i in range(0, len(cur), chunk):
            cand = cur[:i] + cur[i + chunk :]
            tests += 1
            if cand and fails(cand):
                cur = cand
                n = max(n - 1, 2)
                reduced = True
                break
            if tests >= max_tests:
                break
        if not reduced:
            if chunk == 1:
                break
            n = min(len(cur), n * 2)
    return cur


def shrink_prefix(items: list, fails: Callable[[list], bool]) -> list:
    """Shortest failing prefix (binary search assuming monotonicity), then ddmin."""
    lo, hi = 1, len(items)
    while lo < hi:
        mid = (lo + hi) // 2
        if fails(items[:mid]):
            hi = mid
        else:
            lo = mid + 1
    return items[:hi]
