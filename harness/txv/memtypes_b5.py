"""memory_type values for MemoryBank / AsyncMemoryBank configurations (C21, C22), by name.

"Memory" is the default (`amaranth.lib.memory.Memory`, nothing is passed); "partial", "subclass" and "wrapper" are
other constructors of the very same Amaranth memory (functools.partial with attrs, a subclass, a plain function) -
behaviour must not depend on the identity of the constructor; any other name is a class of
`transactron.utils.amaranth_ext.memory`."""

from __future__ import annotations

import functools

ALIASES = ("partial", "subclass", "wrapper")


def memory_kwargs(name: str) -> dict:
    import amaranth.lib.memory as memory

    if name == "Memory":
        return {}
    if name == "partial":
        return {"memory_type": functools.partial(memory.Memory, attrs={"ram_style": "block"})}
    if name == "subclass":

        class MyMemory(memory.Memory):
            pass

        return {"memory_type": MyMemory}
    if name == "wrapper":

        def make_memory(*, shape, depth, init, **kw):
            return memory.Memory(shape=shape, depth=depth, init=init, **kw)

        return {"memory_type": make_memory}
    import transactron.utils.amaranth_ext.memory as tmem

    return {"memory_type": getattr(tmem, name)}
