"""C29 — stream adapters obey the ready/valid protocol (transactron/lib/stream.py)."""

from __future__ import annotations

import itertools

from ..common import Check
from ..lockstep import Case, lockstep, replay_case
from ..simrun import CompSim

META = {
    "id": "C29",
    "design_ref": "DESIGN.md §7 C29",
    "technique": "Lean 4 theorems over hand-written step models of StreamSource, StreamSink and of StreamModuleWrapper "
    "around an arbitrary (universally quantified) stream module (one-cycle accounting lemma + induction over the "
    "history; composition lemma for any relation between input- and output-transfer sequences); lock-step "
    "correspondence with the real components in pysim, ready/valid/payload driven and sampled as plain wires",
    "level_text": "c29_stable, c29_once_in_order, c29_write_ready (StreamSource), c29_sink_read, c29_sink_peek, "
    "c29_sink_history (StreamSink), c29_wrapper_ports, c29_wrapper_preserves (StreamModuleWrapper, any module, any "
    "stream specification) are proved for every history of method attempts and handshake wires; the models are tied "
    "to the code by cycle-exact comparison of valid/payload/ready wires, method ready/done bits and returned data for "
    "several payload shapes, random and adversarial (toggling, stalling, state-dependent) consumers/producers and "
    "four wrapped modules (combinational pass-through, register stage, half-throughput buffer, duplicator)",
    "level_note": "trusted: Lean kernel, axioms propext/Quot.sound; Amaranth semantics, wiring.connect and pysim; the "
    "harness glue. The wrapped module is arbitrary in the theorems; in the correspondence it is one of four small "
    "Amaranth modules defined in the harness (with Lean counterparts). Payload is the flattened value.",
}

# ------------------------------------------------------------------ payload shapes


def _shape(name: str):
    from amaranth.lib.data import StructLayout

    return {"u1": 1, "u4": 4, "u8": 8, "s35": StructLayout({"a": 3, "b": 5})}[name]


WIDTH = {"u1": 1, "u4": 4, "u8": 8, "s35": 8}


def _v(x):
    from amaranth.lib.data import View

    return x.as_value() if isinstance(x, View) else x


# ------------------------------------------------------------------ wrapped stream modules (harness-defined)


def _make_mod(kind: str, w: int, k: int):
    from amaranth import Module, Signal
    from amaranth.lib import stream, wiring
    from amaranth.lib.wiring import In, Out

    class Base(wiring.Component):
        def __init__(self):
            super().__init__({"i": In(stream.Signature(w)), "o": Out(stream.Signature(w))})

    class Pass(Base):  # Lean: passMod w k
        def elaborate(self, platform):
            m = Module()
            m.d.comb += [self.o.valid.eq(self.i.valid), self.o.payload.eq(self.i.payload + k), self.i.ready.eq(self.o.ready)]
            return m

    class Reg(Base):  # Lean: regMod w k
        def elaborate(self, platform):
            m = Module()
            m.d.comb += self.i.ready.eq(~self.o.valid | self.o.ready)
            with m.If(self.i.valid & self.i.ready):
                m.d.sync += [self.o.valid.eq(1), self.o.payload.eq(self.i.payload + k)]
            with m.Elif(self.o.ready):
                m.d.sync += self.o.valid.eq(0)
            return m

    class Stutter(Base):  # Lean: stutterMod
        def elaborate(self, platform):
            m = Module()
            phase = Signal()
            m.d.sync += phase.eq(~phase)
            m.d.comb += self.i.ready.eq(~self.o.valid & phase)
            with m.If(self.i.valid & self.i.ready):
                m.d.sync += [self.o.valid.eq(1), self.o.payload.eq(self.i.payload)]
            with m.Elif(self.o.ready):
                m.d.sync += self.o.valid.eq(0)
            return m

    class Dup(Base):  # Lean: dupMod
        def elaborate(self, platform):
            m = Module()
            cnt = Signal(2)
            m.d.comb += [self.o.valid.eq(cnt != 0), self.i.ready.eq(cnt == 0)]
            with m.If(cnt == 0):
                with m.If(self.i.valid):
                    m.d.sync += [cnt.eq(2), self.o.payload.eq(self.i.payload)]
            with m.Elif(self.o.ready):
                m.d.sync += cnt.eq(cnt - 1)
            return m

    return {"pass": Pass, "reg": Reg, "stutter": Stutter, "dup": Dup}[kind]()


# ------------------------------------------------------------------ implementation runners

_sims: dict[tuple, CompSim] = {}


def _sim(key: tuple) -> CompSim:
    if key not in _sims:
        from transactron.lib.stream import StreamModuleWrapper, StreamSink, StreamSource

        if key[0] == "source":
            _sims[key] = CompSim(lambda: StreamSource(_shape(key[1])))
        elif key[0] == "sink":
            _sims[key] = CompSim(lambda: StreamSink(_shape(key[1])))
        else:
            _, kind, w, k = key
            _sims[key] = CompSim(lambda: StreamModuleWrapper(_make_mod(kind, w, k)))
    return _sims[key]


def _parse(op: str) -> dict:
    return dict(x.split("=") for x in op.split()[1:])


def _opt(v):
    return None if v == "-" else int(v)


def impl(case: Case) -> list[str]:
    d = case.desc
    ins = [_parse(o) for o in case.ops]
    out = ["ok"]
    if d["comp"] == "source":
        sim = _sim(("source", d["shape"]))
        dut = sim.dut

        def pre(ctx, k):
            ctx.set(dut.o.ready, int(ins[k]["rdy"]))

        tr = sim.run(
            [{"write": _opt(i["w"])} for i in ins],
            extra=lambda x: [x.o.valid, _v(x.o.payload), x.write.ready],
            pre_cycle=pre,
        )
        for r in tr:
            e = r["_extra"]
            out.append(f"valid={e[0]} payload={e[1]} wrdy={e[2]} w={0 if r[('write',)] is None else 1}")
    elif d["comp"] == "sink":
        sim = _sim(("sink", d["shape"]))
        dut = sim.dut

        def pre(ctx, k):
            ctx.set(dut.i.valid, int(ins[k]["v"]))
            ctx.set(_v(dut.i.payload), int(ins[k]["p"]))

        tr = sim.run(
            [{"read": 0 if i["r"] == "1" else None, "peek": 0 if i["k"] == "1" else None} for i in ins],
            extra=lambda x: [x.i.ready],
            pre_cycle=pre,
        )
        f = lambda v: "-" if v is None else str(v)  # noqa: E731
        for r in tr:
            out.append(f"rdy={r['_extra'][0]} r={f(r[('read',)])} k={f(r[('peek',)])}")
    else:
        sim = _sim(("wrap", d["mod"], d["w"], d["k"]))
        tr = sim.run(
            [{"write": _opt(i["w"]), "read": 0 if i["r"] == "1" else None} for i in ins],
            extra=lambda x: [
                x.write.ready,
                x.module.i.valid,
                x.module.i.payload,
                x.module.i.ready,
                x.module.o.valid,
                x.module.o.payload,
                x.module.o.ready,
            ],
        )
        for r in tr:
            e = r["_extra"]
            rd = r[("read",)]
            out.append(
                f"wrdy={e[0]} w={0 if r[('write',)] is None else 1} r={'-' if rd is None else rd} "
                f"iv={e[1]} ip={e[2]} ir={e[3]} ov={e[4]} op={e[5]} or={e[6]}"
            )
    return out


# ------------------------------------------------------------------ property monitor (implementation observations only)


def monitor(case: Case, out: list[str]):
    d = case.desc
    ins = [_parse(o) for o in case.ops]
    obs = [dict(x.split("=") for x in o.split()) for o in out[1:]]
    if d["comp"] == "source":
        queue: list[int] = []  # written, not yet emitted
        prev = None
        for t, (i, o) in enumerate(zip(ins, obs)):
            valid, payload, ready = int(o["valid"]), int(o["payload"]), int(i["rdy"])
            if prev is not None and prev[0] and not prev[2]:
                if not valid or payload != prev[1]:
                    return f"cycle {t}: previous cycle had valid=1 payload={prev[1]} ready=0, now valid={valid} payload={payload} (not held stable)"
            if o["w"] == "1" and i["w"] == "-":
                return f"cycle {t}: write executed without being attempted"
            if valid:  # what is offered must be the oldest written item not yet emitted
                if not queue:
                    return f"cycle {t}: valid=1 payload={payload} but no written item outstanding (duplicate/spurious emission)"
                if queue[0] != payload:
                    return f"cycle {t}: offers {payload}, oldest written item is {queue[0]} (order/loss)"
                if ready:  # a transfer
                    queue.pop(0)
            if o["w"] == "1":
                queue.append(int(i["w"]))
            if len(queue) > 1:
                return f"cycle {t}: {len(queue)} written items outstanding {queue}: one of them can never be emitted in order (loss)"
            prev = (valid, payload, ready)
        return None
    if d["comp"] == "sink":
        for t, (i, o) in enumerate(zip(ins, obs)):
            v, p = int(i["v"]), int(i["p"])
            rex = o["r"] != "-"
            if rex != (i["r"] == "1" and v == 1):
                return f"cycle {t}: read attempted={i['r']} valid={v} executed={int(rex)} (read must be ready iff valid)"
            if rex and int(o["r"]) != p:
                return f"cycle {t}: read returned {o['r']}, payload on the stream is {p}"
            if int(o["rdy"]) != int(rex):
                return f"cycle {t}: i.ready={o['rdy']} but read executed={int(rex)} (peek={i['k']}): consumption without read / read without consumption"
            kex = o["k"] != "-"
            if kex != (i["k"] == "1" and v == 1):
                return f"cycle {t}: peek attempted={i['k']} valid={v} executed={int(kex)}"
            if kex and int(o["k"]) != p:
                return f"cycle {t}: peek returned {o['k']}, payload on the stream is {p}"
        return None
    # wrapper
    w, k, mod = d["w"], d["k"], d["mod"]
    queue = []
    accepted: list[int] = []
    reads: list[int] = []
    prev = None
    for t, (i, o) in enumerate(zip(ins, obs)):
        iv, ip, ir, ov, op, ordy = (int(o[x]) for x in ("iv", "ip", "ir", "ov", "op", "or"))
        if prev is not None and prev[0] and not prev[2] and (not iv or ip != prev[1]):
            return f"cycle {t}: module.i had valid=1 payload={prev[1]} ready=0, now valid={iv} payload={ip} (producer rule broken)"
        if iv and ir:
            if not queue or queue[0] != ip:
                return f"cycle {t}: module.i transfer of {ip}, outstanding written items {queue}"
            accepted.append(queue.pop(0))
        rex = o["r"] != "-"
        if rex != bool(ov and ordy):
            return f"cycle {t}: read executed={int(rex)} but module.o transfer={int(bool(ov and ordy))}"
        if rex != (i["r"] == "1" and ov == 1):
            return f"cycle {t}: read attempted={i['r']} module.o.valid={ov} executed={int(rex)}"
        if rex:
            if int(o["r"]) != op:
                return f"cycle {t}: read returned {o['r']}, module.o.payload={op}"
            reads.append(op)
        if o["w"] == "1":
            if i["w"] == "-":
                return f"cycle {t}: write executed without being attempted"
            queue.append(int(i["w"]))
        if len(queue) > 1:
            return f"cycle {t}: {len(queue)} written items outstanding before the module"
        prev = (iv, ip, ir)
        # the wrapped module's own stream semantics, seen through the methods
        if mod in ("pass", "reg"):
            exp = [(x + k) % (1 << w) for x in accepted]
        elif mod == "stutter":
            exp = list(accepted)
        else:
            exp = [x for x in accepted for _ in (0, 1)]
        if reads != exp[: len(reads)]:
            return f"cycle {t}: values read {reads} are not a prefix of the module's semantics applied to accepted writes {exp}"
    return None


# ------------------------------------------------------------------ generators


def _ready_pattern(rng, kind: str, n: int, valid_pred):
    """consumer ready per cycle; `valid_pred(t)` is a prediction of valid (only used to shape stimulus)."""
    if kind == "one":
        return lambda t: 1
    if kind == "zero_then":
        return lambda t: int(t > n // 2)
    if kind == "toggle":
        return lambda t: t & 1
    if kind == "rare":
        return lambda t: int(rng.random() < 0.12)
    if kind == "rand":
        return lambda t: int(rng.random() < 0.5)
    if kind == "when_valid":
        return lambda t: int(valid_pred(t))
    if kind == "when_not_valid":  # never lets a transfer happen: valid must stay up for ever
        return lambda t: int(not valid_pred(t))
    if kind == "after_valid":  # withdraws ready as soon as valid shows, grants it two cycles later
        return lambda t: int(valid_pred(t) and valid_pred(t - 1) and valid_pred(t - 2))
    raise ValueError(kind)


READY_KINDS = ["one", "zero_then", "toggle", "rare", "rand", "when_valid", "when_not_valid", "after_valid"]


def _mk_source(rng, shape: str, kind: str, n: int, pw: float, tag="random") -> Case:
    w = WIDTH[shape]
    hist: list[int] = []  # predicted valid per cycle (stimulus shaping only)
    valid = 0
    rd = _ready_pattern(rng, kind, n, lambda t: hist[t] if 0 <= t < len(hist) else 0)
    ops = []
    for t in range(n):
        hist.append(valid)
        r = rd(t)
        wr = rng.randrange(1 << w) if rng.random() < pw else None
        ops.append(f"cyc w={'-' if wr is None else wr} rdy={r}")
        if wr is not None and (not valid or r):
            valid = 1
        elif r:
            valid = 0
    return Case("cfg comp=source", ops, {"component": "StreamSource", "comp": "source", "shape": shape, "consumer": kind}, tag)


def _mk_sink(rng, shape: str, n: int, pv: float, pr: float, pk: float, hold: bool, tag="random") -> Case:
    w = WIDTH[shape]
    ops = []
    v, p = 0, 0
    for _ in range(n):
        if not hold or not v:
            v, p = int(rng.random() < pv), rng.randrange(1 << w)
        r, k = int(rng.random() < pr), int(rng.random() < pk)
        ops.append(f"cyc v={v} p={p} r={r} k={k}")
        if hold and v and r:
            v = 0  # a protocol-respecting producer holds the item until it is read
    return Case("cfg comp=sink", ops, {"component": "StreamSink", "comp": "sink", "shape": shape, "hold": hold}, tag)


def _mk_wrap(rng, mod: str, w: int, k: int, n: int, pw: float, pr, tag="random") -> Case:
    ops = []
    for t in range(n):
        wr = rng.randrange(1 << w) if rng.random() < pw else None
        r = pr(t) if callable(pr) else int(rng.random() < pr)
        ops.append(f"cyc w={'-' if wr is None else wr} r={r}")
    return Case(
        f"cfg comp=wrap mod={mod} w={w} k={k}", ops, {"component": "StreamModuleWrapper", "comp": "wrap", "mod": mod, "w": w, "k": k}, tag
    )


def gen_cases(ctx: Check) -> list[Case]:
    rng = ctx.rng("gen")
    cases: list[Case] = []
    n = ctx.pick(120, 500)
    shapes = ctx.pick(["u1", "u8", "s35"], ["u1", "u4", "u8", "s35"])
    for shape in shapes:
        for kind in READY_KINDS:
            for pw in (1.0, 0.5, 0.15):
                cases.append(_mk_source(rng, shape, kind, n, pw, "directed" if kind not in ("rand", "rare") else "random"))
        for pv, pr, pk, hold in [(0.5, 0.5, 0.5, False), (0.9, 0.2, 0.8, True), (0.3, 0.9, 0.3, True), (1.0, 1.0, 1.0, False), (0.6, 0.0, 1.0, True), (0.5, 0.6, 0.0, False)]:
            cases.append(_mk_sink(rng, shape, n, pv, pr, pk, hold))
    for mod in ("pass", "reg", "stutter", "dup"):
        for w, k in ctx.pick([(4, 1), (8, 3)], [(1, 1), (4, 1), (8, 3), (8, 0)]):
            for pw, pr in [(1.0, 1.0), (0.5, 0.5), (0.9, 0.2), (0.2, 0.9), (1.0, lambda t: t & 1), (0.7, lambda t: int(t % 7 > 4))]:
                cases.append(_mk_wrap(rng, mod, w, k, n, pw, pr))
    if ctx.thorough:
        # every (write?, ready) history of length <= 6 for the source; every (valid, read, peek) history of length <= 3
        for L in range(1, 7):
            for seq in itertools.product(range(4), repeat=L):
                ops = [f"cyc w={(t + 1) if x & 2 else '-'} rdy={x & 1}" for t, x in enumerate(seq)]
                cases.append(Case("cfg comp=source", ops, {"component": "StreamSource", "comp": "source", "shape": "u4", "consumer": "exh"}, "exhaustive"))
        for L in range(1, 4):
            for seq in itertools.product(range(8), repeat=L):
                ops = [f"cyc v={x >> 2 & 1} p={t + 3} r={x >> 1 & 1} k={x & 1}" for t, x in enumerate(seq)]
                cases.append(Case("cfg comp=sink", ops, {"component": "StreamSink", "comp": "sink", "shape": "u4", "hold": False}, "exhaustive"))
        for mod in ("pass", "reg", "stutter", "dup"):
            for L in range(1, 6):
                for seq in itertools.product(range(4), repeat=L):
                    ops = [f"cyc w={(t + 1) if x & 2 else '-'} r={x & 1}" for t, x in enumerate(seq)]
                    cases.append(
                        Case(f"cfg comp=wrap mod={mod} w=4 k=1", ops, {"component": "StreamModuleWrapper", "comp": "wrap", "mod": mod, "w": 4, "k": 1}, "exhaustive")
                    )
    return cases


def more_cases(case: Case, rng):
    d = case.desc
    for j in range(30):
        if d["comp"] == "source":
            yield _mk_source(rng, d["shape"], READY_KINDS[j % len(READY_KINDS)], 80, rng.choice([1.0, 0.5]), "search")
        elif d["comp"] == "sink":
            yield _mk_sink(rng, d["shape"], 60, 0.6, 0.5, 0.5, bool(j & 1), "search")
        else:
            yield _mk_wrap(rng, d["mod"], d["w"], d["k"], 80, rng.choice([1.0, 0.5]), rng.choice([1.0, 0.5, 0.2]), "search")


def nontrivial(case: Case, out: list[str]) -> bool:
    d = case.desc
    ins = [_parse(o) for o in case.ops]
    obs = [dict(x.split("=") for x in o.split()) for o in out[1:]]
    if d["comp"] == "source":
        stall = any(o["valid"] == "1" and i["rdy"] == "0" for i, o in zip(ins, obs))
        b2b = any(o["valid"] == "1" and i["rdy"] == "1" and o["w"] == "1" for i, o in zip(ins, obs))
        return stall and b2b
    if d["comp"] == "sink":
        both = any(o["r"] != "-" and o["k"] != "-" for o in obs)
        peek_only = any(o["r"] == "-" and o["k"] != "-" for o in obs)
        return both and peek_only
    return sum(o["r"] != "-" for o in obs) >= 3 and any(o["iv"] == "1" and o["ir"] == "0" for o in obs)


def run(ctx: Check):
    ctx.rule = (
        "cases = (component, payload shape / wrapped module, history of method attempts and handshake wires); "
        "non-trivial = source: a stalled cycle (valid, not ready) and a back-to-back write during a transfer; "
        "sink: read+peek in one cycle and a peek without read; wrapper: >=3 items read and a stall on module.i"
    )
    ctx.proof_stage()
    cases = gen_cases(ctx)
    for comp in ("source", "sink", "wrap"):
        ctx.count(f"cases_{comp}", sum(1 for c in cases if c.desc["comp"] == comp))
    ctx.count("cycles", sum(len(c.ops) for c in cases))
    if ctx.thorough:
        ctx.note("exhaustive part: all (write?, ready) histories up to length 6 (source), all (valid, read, peek) histories up to "
                 "length 3 (sink), all (write?, read) histories up to length 5 for each wrapped module")
    lockstep(ctx, "stream", "C29", cases, impl, monitor, more_cases, nontrivial, procs=1 if ctx.quick else None)


def replay(ctx: Check, body: dict):
    return replay_case(body, impl, monitor)
