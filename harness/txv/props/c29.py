"""C29 — stream adapters obey the ready/valid protocol (transactron/lib/stream.py)."""

from __future__ import annotations

import itertools

from ..common import Check
from ..lockstep import Case, lockstep, replay_case
from ..simrun import CompSim

META = {
    "id": "C29",
    "design_ref": "DESIGN.md §7 C29",
    "technique": "Lean 4 theorems over hand-written step models of StreamSource, StreamSink and of StreamModuleWrapper "
    "around an arbitrary (universally quantified) stream module (one-cycle accounting lemma + induction over the "
    "history; composition lemma for any relation between input- and output-transfer sequences); lock-step "
    "correspondence with the real components in pysim, ready/valid/payload driven and sampled as plain wires",
    "level_text": "c29_stable, c29_once_in_order, c29_write_ready (StreamSource), c29_sink_read, c29_sink_peek, "
    "c29_sink_history, c29_sink_two_callers (StreamSink), c29_one_writer, c29_wrapper_ports, c29_wrapper_preserves (StreamModuleWrapper, any module, any "
    "stream specification) are proved for every history of method attempts and handshake wires; the models are tied "
    "to the code by cycle-exact comparison of valid/payload/ready wires, method ready/done bits and returned data for "
    "several payload shapes, random and adversarial (toggling, stalling, state-dependent) consumers/producers and "
    "four wrapped modules (combinational pass-through, register stage, half-throughput buffer, duplicator), also with "
    "input and output payload shapes that differ (unsigned/signed, struct/flat of equal width); every exclusive method "
    "(write, read) is driven by TWO independent callers and peek by two, through the real TransactionManager",
    "level_note": "trusted: Lean kernel, axioms propext/Quot.sound; Amaranth semantics, wiring.connect and pysim; the "
    "harness glue. The wrapped module is arbitrary in the theorems; in the correspondence it is one of four small "
    "Amaranth modules defined in the harness (with Lean counterparts). Payload is the flattened value.",
}

# ------------------------------------------------------------------ payload shapes


def _shape(name: str):
    from amaranth.lib.data import StructLayout

    return {"u1": 1, "u4": 4, "u8": 8, "s35": StructLayout({"a": 3, "b": 5})}[name]


WIDTH = {"u1": 1, "u4": 4, "u8": 8, "s35": 8}


def _v(x):
    from amaranth.lib.data import View

    return x.as_value() if isinstance(x, View) else x


# ------------------------------------------------------------------ wrapped stream modules (harness-defined)

SHAPE_W = {"u1": 1, "u4": 4, "u8": 8, "s8": 8, "s4": 4, "st35": 8}


def _mshape(name: str):
    from amaranth import signed, unsigned
    from amaranth.lib.data import StructLayout

    if name == "st35":
        return StructLayout({"a": 3, "b": 5})
    return (signed if name[0] == "s" else unsigned)(int(name[1:]))


def shape_name(sh) -> str:
    """canonical name of an Amaranth shape (what a Method layout field / stream payload declares)"""
    from amaranth import Shape
    from amaranth.lib.data import StructLayout

    if isinstance(sh, StructLayout):
        return "st" + "".join(str(Shape.cast(v).width) for v in sh.members.values())
    c = Shape.cast(sh)
    return ("s" if c.signed else "u") + str(c.width)


def _make_mod(kind: str, w: int, k: int, ish: str, osh: str):
    from amaranth import Module, Signal
    from amaranth.lib import stream, wiring
    from amaranth.lib.wiring import In, Out

    class Base(wiring.Component):
        def __init__(self):
            super().__init__({"i": In(stream.Signature(_mshape(ish))), "o": Out(stream.Signature(_mshape(osh)))})

        @property
        def ip(self):
            return _v(self.i.payload)

        @property
        def op(self):
            return _v(self.o.payload)

    class Pass(Base):  # Lean: passMod w k
        def elaborate(self, platform):
            m = Module()
            m.d.comb += [self.o.valid.eq(self.i.valid), self.op.eq(self.ip + k), self.i.ready.eq(self.o.ready)]
            return m

    class Reg(Base):  # Lean: regMod w k
        def elaborate(self, platform):
            m = Module()
            m.d.comb += self.i.ready.eq(~self.o.valid | self.o.ready)
            with m.If(self.i.valid & self.i.ready):
                m.d.sync += [self.o.valid.eq(1), self.op.eq(self.ip + k)]
            with m.Elif(self.o.ready):
                m.d.sync += self.o.valid.eq(0)
            return m

    class Stutter(Base):  # Lean: stutterMod
        def elaborate(self, platform):
            m = Module()
            phase = Signal()
            m.d.sync += phase.eq(~phase)
            m.d.comb += self.i.ready.eq(~self.o.valid & phase)
            with m.If(self.i.valid & self.i.ready):
                m.d.sync += [self.o.valid.eq(1), self.op.eq(self.ip)]
            with m.Elif(self.o.ready):
                m.d.sync += self.o.valid.eq(0)
            return m

    class Dup(Base):  # Lean: dupMod
        def elaborate(self, platform):
            m = Module()
            cnt = Signal(2)
            m.d.comb += [self.o.valid.eq(cnt != 0), self.i.ready.eq(cnt == 0)]
            with m.If(cnt == 0):
                with m.If(self.i.valid):
                    m.d.sync += [cnt.eq(2), self.op.eq(self.ip)]
            with m.Elif(self.o.ready):
                m.d.sync += cnt.eq(cnt - 1)
            return m

    return {"pass": Pass, "reg": Reg, "stutter": Stutter, "dup": Dup}[kind]()


def _dual(inner, names):
    """two independent callers (method aliases, one AdapterTrans each) for every method in `names`"""
    from amaranth import Elaboratable
    from transactron import Method, TModule

    class Dual(Elaboratable):
        def __init__(self):
            self.inner = inner
            for nm in names:
                for j in (0, 1):
                    mm = Method.like(getattr(inner, nm), name=f"{nm}{j}")
                    mm.provide(getattr(inner, nm))
                    setattr(self, f"{nm}{j}", mm)

        def elaborate(self, platform):
            m = TModule()
            m.submodules.inner = self.inner
            return m

    return Dual()


def _inner(make_comp, names, mode="foreign"):
    """callers are small user modules INSIDE the design, each a separate Elaboratable with its own TModule, calling the
    component's methods from their own Transactions; enables/arguments/results are plain signals.

    mode "foreign": one caller per method; the component is CONSTRUCTED under one DependencyContext and elaborated under
                    another (the simulator's).
    mode "ifelse" : two callers per method; caller 0's transaction sits in the `If` branch of an If/Else of its module,
                    caller 1's in the `Else` branch of an If/Else of ITS module (conditions `cond` driven independently).
    mode "switch" : two callers per method; caller 0's transaction in `Case(0)`, caller 1's in `Case(1)` of a Switch of
                    their own modules (selectors driven independently).
    Control paths of different modules say nothing about each other: the two callers of an exclusive method conflict."""
    from amaranth import Elaboratable, Signal
    from transactron import TModule, Transaction
    from transactron.utils.dependencies import DependencyContext, DependencyManager

    if mode == "foreign":
        with DependencyContext(DependencyManager()):  # not the manager the design is elaborated under
            comp = make_comp()
    else:
        comp = make_comp()
    ncall = 1 if mode == "foreign" else 2

    class Caller(Elaboratable):
        def __init__(self, nm, j):
            self.nm, self.j = nm, j
            meth = getattr(comp, nm)
            self.en = Signal(name=f"{nm}{j}_en")
            self.cond = Signal(2, name=f"{nm}{j}_cond")  # If condition / Switch selector
            self.done = Signal(name=f"{nm}{j}_done")
            self.arg = Signal(meth.layout_in.members["data"], name=f"{nm}{j}_arg") if meth.layout_in.members else None
            self.res = Signal(meth.layout_out.members["data"], name=f"{nm}{j}_res") if meth.layout_out.members else None  # declared shape

        def active_cond(self):  # value of `cond` that puts the control flow on the transaction's branch
            return {"foreign": 0, "ifelse": 1 - self.j, "switch": self.j}[mode]

        def trans(self, m):
            meth = getattr(comp, self.nm)
            with Transaction(name=f"user_{self.nm}{self.j}").body(m, ready=self.en):
                res = meth(m, data=self.arg) if self.arg is not None else meth(m)
                m.d.comb += self.done.eq(1)
                if self.res is not None:
                    m.d.comb += _v(self.res).eq(_v(res.data))

        def elaborate(self, platform):
            m = TModule()
            if mode == "foreign":
                self.trans(m)
            elif mode == "ifelse":
                if self.j == 0:
                    with m.If(self.cond[0]):
                        self.trans(m)
                    with m.Else():
                        pass
                else:
                    with m.If(self.cond[0]):
                        pass
                    with m.Else():
                        self.trans(m)
            else:
                with m.Switch(self.cond):
                    if self.j == 0:
                        with m.Case(0):
                            self.trans(m)
                        with m.Case(1):
                            pass
                    else:
                        with m.Case(0):
                            pass
                        with m.Case(1):
                            self.trans(m)
            return m

    class User(Elaboratable):
        def __init__(self):
            self.inner = comp
            self.ncall = ncall
            self.callers = {nm: [Caller(nm, j) for j in range(ncall)] for nm in names}

        def elaborate(self, platform):
            m = TModule()
            m.submodules.inner = self.inner
            for nm in names:
                for c in self.callers[nm]:
                    m.submodules[f"caller_{nm}{c.j}"] = c
            return m

    return User()


# ------------------------------------------------------------------ implementation runners

INNER_MODES = ("foreign", "ifelse", "switch")
_sims: dict[tuple, CompSim] = {}
_prio: dict[tuple, dict] = {}


def _sim(key: tuple) -> CompSim:
    if key not in _sims:
        from transactron.lib.stream import StreamModuleWrapper, StreamSink, StreamSource

        if key[-1] in INNER_MODES:
            mode = key[-1]
            if key[0] == "source":
                _sims[key] = CompSim(lambda: _inner(lambda: StreamSource(_shape(key[1])), ["write"], mode))
            elif key[0] == "sink":
                _sims[key] = CompSim(lambda: _inner(lambda: StreamSink(_shape(key[1])), ["read", "peek"], mode))
            else:
                _, kind, w, k, ish, osh, _ = key
                _sims[key] = CompSim(lambda: _inner(lambda: StreamModuleWrapper(_make_mod(kind, w, k, ish, osh)), ["write", "read"], mode))
        elif key[0] == "source":
            _sims[key] = CompSim(lambda: _dual(StreamSource(_shape(key[1])), ["write"]))
        elif key[0] == "sink":
            _sims[key] = CompSim(lambda: _dual(StreamSink(_shape(key[1])), ["read", "peek"]))
        else:
            _, kind, w, k, ish, osh = key
            _sims[key] = CompSim(lambda: _dual(StreamModuleWrapper(_make_mod(kind, w, k, ish, osh)), ["write", "read"]))
    return _sims[key]


def _first_single(tr, a, b):
    for r in tr:
        x, y = r[(a,)] is not None, r[(b,)] is not None
        if x != y:
            return int(y)
    return 0


def prio(key: tuple) -> dict:
    """which of the two callers the real TransactionManager prefers when both attempt (fixed per elaborated circuit;
    an artefact of the manager's ordering, so it is probed, not predicted)"""
    if key[-1] == "foreign":
        return {"wp": 0, "rp": 0}  # one caller per method
    if key[-1] in INNER_MODES:
        if key not in _prio:
            sim = _sim(key)
            n = 10
            both = {"w0": "0", "w1": "0", "r0": "1", "r1": "1", "k0": "0", "k1": "0", "rdy": "0", "v": "1", "p": "0"}
            lines = _run_inner(key[0], sim, [both] * n)
            obs = [dict(x.split("=") for x in ln.split()) for ln in lines]

            def first(a, b, is_done):
                for o in obs:
                    x, y = is_done(o[a]), is_done(o[b])
                    if x != y:
                        return int(y)
                return 0

            _prio[key] = {"wp": first("w0", "w1", lambda v: v == "1") if key[0] != "sink" else 0,
                          "rp": first("r0", "r1", lambda v: v != "-") if key[0] != "source" else 0}
        return _prio[key]
    if key not in _prio:
        sim = _sim(key)
        d = sim.dut.inner
        if key[0] == "source":
            tr = sim.run([{"write0": 0, "write1": 0}] * 3)
            _prio[key] = {"wp": _first_single(tr, "write0", "write1")}
        elif key[0] == "sink":
            tr = sim.run([{"read0": 0, "read1": 0}] * 3, pre_cycle=lambda ctx, k: ctx.set(d.i.valid, 1))
            _prio[key] = {"rp": _first_single(tr, "read0", "read1")}
        else:
            tr = sim.run([{"write0": 0, "write1": 0, "read0": 0, "read1": 0}] * 10)
            _prio[key] = {"wp": _first_single(tr, "write0", "write1"), "rp": _first_single(tr, "read0", "read1")}
    return _prio[key]


def _parse(op: str) -> dict:
    return dict(x.split("=") for x in op.split()[1:])


def _opt(v):
    return None if v == "-" else int(v)


def _key(d: dict) -> tuple:
    k = ("wrap", d["mod"], d["w"], d["k"], d["ish"], d["osh"]) if d["comp"] == "wrap" else (d["comp"], d["shape"])
    mode = d.get("inner")
    if mode is True:
        mode = "foreign"
    return k + (mode,) if mode else k


def _run_inner(comp_kind: str, sim: CompSim, ins: list[dict]) -> list[str]:
    """drive the in-design callers through their plain signals; same observation lines as the adapter runner.
    A caller that does not attempt has either its transaction's `ready` low or its control flow on the other branch."""
    user = sim.dut
    comp = user.inner
    two = user.ncall == 2
    f = lambda done, v: str(v) if done else "-"  # noqa: E731

    def drive(ctx, k, nm, tok_prefix, is_arg):
        for c in user.callers[nm]:
            v = ins[k].get(f"{tok_prefix}{c.j}", "-" if is_arg else "0")
            att = (v != "-") if is_arg else (v == "1")
            lower_cond = two and (k + c.j) % 2 == 1  # how a non-attempt is expressed (control structures exist only with two callers)
            ctx.set(c.en, int(att or lower_cond))
            ctx.set(c.cond, c.active_cond() if (att or not lower_cond) else 1 - c.active_cond())
            if is_arg and c.arg is not None:
                ctx.set(_v(c.arg), int(v) if att else 0)

    def sigs(nm):
        out = []
        for c in user.callers[nm]:
            out += [c.done] + ([_v(c.res)] if c.res is not None else [])
        return out

    lines = []
    if comp_kind == "source":

        def pre(ctx, k):
            ctx.set(comp.o.ready, int(ins[k]["rdy"]))
            drive(ctx, k, "write", "w", True)

        tr = sim.run([{}] * len(ins), extra=lambda x: [comp.o.valid, _v(comp.o.payload), comp.write.ready, *sigs("write")], pre_cycle=pre)
        for r in tr:
            e = r["_extra"]
            lines.append(f"valid={e[0]} payload={e[1]} wrdy={e[2]} w0={e[3]} w1={e[4] if two else 0}")
    elif comp_kind == "sink":

        def pre(ctx, k):
            ctx.set(comp.i.valid, int(ins[k]["v"]))
            ctx.set(_v(comp.i.payload), int(ins[k]["p"]))
            drive(ctx, k, "read", "r", False)
            drive(ctx, k, "peek", "k", False)

        tr = sim.run([{}] * len(ins), extra=lambda x: [comp.i.ready, *sigs("read"), *sigs("peek")], pre_cycle=pre)
        for r in tr:
            e = r["_extra"]
            if two:
                lines.append(f"rdy={e[0]} r0={f(e[1], e[2])} r1={f(e[3], e[4])} k0={f(e[5], e[6])} k1={f(e[7], e[8])}")
            else:
                lines.append(f"rdy={e[0]} r0={f(e[1], e[2])} r1=- k0={f(e[3], e[4])} k1=-")
    else:
        mod = comp.module

        def pre(ctx, k):
            drive(ctx, k, "write", "w", True)
            drive(ctx, k, "read", "r", False)

        tr = sim.run(
            [{}] * len(ins),
            extra=lambda x: [comp.write.ready, mod.i.valid, mod.ip.as_unsigned(), mod.i.ready, mod.o.valid, mod.op, mod.o.ready,
                             *sigs("write"), *sigs("read")],
            pre_cycle=pre,
        )
        for r in tr:
            e = r["_extra"]
            if two:
                lines.append(f"wrdy={e[0]} w0={e[7]} w1={e[8]} r0={f(e[9], e[10])} r1={f(e[11], e[12])} "
                             f"iv={e[1]} ip={e[2]} ir={e[3]} ov={e[4]} op={e[5]} or={e[6]}")
            else:
                lines.append(f"wrdy={e[0]} w0={e[7]} w1=0 r0={f(e[8], e[9])} r1=- iv={e[1]} ip={e[2]} ir={e[3]} ov={e[4]} op={e[5]} or={e[6]}")
    return lines


def _impl_inner(case: Case, sim: CompSim, ins: list[dict]) -> list[str]:
    comp = sim.dut.inner
    lines = _run_inner(case.desc["comp"], sim, ins)
    out = ["ok"]
    it = iter(lines)
    for o in case.ops:
        if o.startswith("shape"):
            out.append(
                f"shape w={shape_name(comp.write.layout_in.members['data'])} r={shape_name(comp.read.layout_out.members['data'])} "
                f"mi={shape_name(comp.module.i.payload.shape())} mo={shape_name(comp.module.o.payload.shape())}"
            )
        else:
            out.append(next(it))
    return out


def impl(case: Case) -> list[str]:
    d = case.desc
    sim = _sim(_key(d))
    cyc = [o for o in case.ops if o.startswith("cyc")]
    ins = [_parse(o) for o in cyc]
    if d.get("inner"):
        return _impl_inner(case, sim, ins)
    dut = sim.dut.inner
    f = lambda v: "-" if v is None else str(v)  # noqa: E731
    b = lambda v: 0 if v is None else 1  # noqa: E731
    lines = []
    if d["comp"] == "source":

        def pre(ctx, k):
            ctx.set(dut.o.ready, int(ins[k]["rdy"]))

        tr = sim.run(
            [{"write0": _opt(i["w0"]), "write1": _opt(i["w1"])} for i in ins],
            extra=lambda x: [x.inner.o.valid, _v(x.inner.o.payload), x.inner.write.ready],
            pre_cycle=pre,
        )
        for r in tr:
            e = r["_extra"]
            lines.append(f"valid={e[0]} payload={e[1]} wrdy={e[2]} w0={b(r[('write0',)])} w1={b(r[('write1',)])}")
    elif d["comp"] == "sink":

        def pre(ctx, k):
            ctx.set(dut.i.valid, int(ins[k]["v"]))
            ctx.set(_v(dut.i.payload), int(ins[k]["p"]))

        tr = sim.run(
            [{f"{m}{j}": 0 if i[f"{m[0] if m == 'read' else 'k'}{j}"] == "1" else None for m in ("read", "peek") for j in (0, 1)} for i in ins],
            extra=lambda x: [x.inner.i.ready],
            pre_cycle=pre,
        )
        for r in tr:
            lines.append(f"rdy={r['_extra'][0]} r0={f(r[('read0',)])} r1={f(r[('read1',)])} k0={f(r[('peek0',)])} k1={f(r[('peek1',)])}")
    else:
        mod = dut.module
        rd = [sim.tbs[(f"read{j}",)].adapter.data_out.data for j in (0, 1)]  # sampled in the shape the method declares
        rd = [_v(x) for x in rd]
        tr = sim.run(
            [{"write0": _opt(i["w0"]), "write1": _opt(i["w1"]), "read0": 0 if i["r0"] == "1" else None, "read1": 0 if i["r1"] == "1" else None} for i in ins],
            extra=lambda x: [x.inner.write.ready, mod.i.valid, mod.ip.as_unsigned(), mod.i.ready, mod.o.valid, mod.op, mod.o.ready, *rd],
        )
        for r in tr:
            e = r["_extra"]
            r0 = "-" if r[("read0",)] is None else e[7]
            r1 = "-" if r[("read1",)] is None else e[8]
            lines.append(
                f"wrdy={e[0]} w0={b(r[('write0',)])} w1={b(r[('write1',)])} r0={r0} r1={r1} "
                f"iv={e[1]} ip={e[2]} ir={e[3]} ov={e[4]} op={e[5]} or={e[6]}"
            )
    out = ["ok"]
    it = iter(lines)
    for o in case.ops:
        if o.startswith("shape"):
            wr, rdm = sim.dut.inner.write, sim.dut.inner.read
            out.append(
                f"shape w={shape_name(wr.layout_in.members['data'])} r={shape_name(rdm.layout_out.members['data'])} "
                f"mi={shape_name(mod.i.payload.shape())} mo={shape_name(mod.o.payload.shape())}"
            )
        else:
            out.append(next(it))
    return out


# ------------------------------------------------------------------ property monitor (implementation observations only)


def monitor(case: Case, out: list[str]):
    d = case.desc
    pairs = [(op, o) for op, o in zip(case.ops, out[1:])]
    for op, o in pairs:
        if op.startswith("shape"):
            t = dict(x.split("=") for x in o.split()[1:])
            if t["w"] != t["mi"] or t["r"] != t["mo"]:
                return f"wrapper method layouts (write {t['w']}, read {t['r']}) differ from the module's payload shapes (i {t['mi']}, o {t['mo']})"
    ins = [_parse(op) for op, _ in pairs if op.startswith("cyc")]
    obs = [dict(x.split("=") for x in o.split()) for op, o in pairs if op.startswith("cyc")]
    if d["comp"] == "source":
        queue: list[int] = []  # written, not yet emitted
        prev = None
        for t, (i, o) in enumerate(zip(ins, obs)):
            valid, payload, ready = int(o["valid"]), int(o["payload"]), int(i["rdy"])
            if prev is not None and prev[0] and not prev[2]:
                if not valid or payload != prev[1]:
                    return f"cycle {t}: previous cycle had valid=1 payload={prev[1]} ready=0, now valid={valid} payload={payload} (not held stable)"
            for j in "01":
                if o["w" + j] == "1" and i["w" + j] == "-":
                    return f"cycle {t}: write by caller {j} executed without being attempted"
            if o["w0"] == "1" and o["w1"] == "1":
                return f"cycle {t}: both callers' writes ({i['w0']}, {i['w1']}) executed in one cycle; the register holds one item"
            if valid:  # what is offered must be the oldest written item not yet emitted
                if not queue:
                    return f"cycle {t}: valid=1 payload={payload} but no written item outstanding (duplicate/spurious emission)"
                if queue[0] != payload:
                    return f"cycle {t}: offers {payload}, oldest written item is {queue[0]} (order/loss)"
                if ready:  # a transfer
                    queue.pop(0)
            for j in "01":
                if o["w" + j] == "1":
                    queue.append(int(i["w" + j]))
            if len(queue) > 1:
                return f"cycle {t}: {len(queue)} written items outstanding {queue}: one of them can never be emitted in order (loss)"
            prev = (valid, payload, ready)
        return None
    if d["comp"] == "sink":
        for t, (i, o) in enumerate(zip(ins, obs)):
            v, p = int(i["v"]), int(i["p"])
            got = [j for j in "01" if o["r" + j] != "-"]
            for j in got:
                if i["r" + j] != "1":
                    return f"cycle {t}: read by caller {j} executed without being attempted"
                if int(o["r" + j]) != p:
                    return f"cycle {t}: read returned {o['r' + j]} to caller {j}, payload on the stream is {p}"
            want = int(v == 1 and (i["r0"] == "1" or i["r1"] == "1"))
            if len(got) != want:
                return (
                    f"cycle {t}: valid={v}, read attempted by callers {[j for j in '01' if i['r' + j] == '1']}, "
                    f"payload delivered to {len(got)} caller(s) {got}: every transferred payload must be delivered exactly once "
                    f"(read ready iff valid)"
                )
            if int(o["rdy"]) != len(got):
                return f"cycle {t}: i.ready={o['rdy']} (handshakes) but {len(got)} payload(s) delivered to readers (peek attempts {i['k0']}{i['k1']})"
            for j in "01":
                kex = o["k" + j] != "-"
                if kex != (i["k" + j] == "1" and v == 1):
                    return f"cycle {t}: peek by caller {j} attempted={i['k' + j]} valid={v} executed={int(kex)}"
                if kex and int(o["k" + j]) != p:
                    return f"cycle {t}: peek returned {o['k' + j]}, payload on the stream is {p}"
        return None
    # wrapper
    w, k, mod = d["w"], d["k"], d["mod"]
    osigned = d["osh"][0] == "s" and not d["osh"].startswith("st")
    queue = []
    accepted: list[int] = []
    reads: list[int] = []
    prev = None
    for t, (i, o) in enumerate(zip(ins, obs)):
        iv, ip, ir, ov, op, ordy = (int(o[x]) for x in ("iv", "ip", "ir", "ov", "op", "or"))
        if prev is not None and prev[0] and not prev[2] and (not iv or ip != prev[1]):
            return f"cycle {t}: module.i had valid=1 payload={prev[1]} ready=0, now valid={iv} payload={ip} (producer rule broken)"
        if iv and ir:
            if not queue or queue[0] != ip:
                return f"cycle {t}: module.i transfer of {ip}, outstanding written items {queue}"
            accepted.append(queue.pop(0))
        got = [j for j in "01" if o["r" + j] != "-"]
        if len(got) != int(bool(ov and ordy)):
            return f"cycle {t}: {len(got)} read caller(s) {got} received a payload but module.o transfers={int(bool(ov and ordy))} (each transferred payload exactly once)"
        if len(got) != int(ov == 1 and (i["r0"] == "1" or i["r1"] == "1")):
            return f"cycle {t}: read attempted {i['r0']}{i['r1']} module.o.valid={ov}, delivered to {got}"
        for j in got:
            if int(o["r" + j]) != op:
                return f"cycle {t}: read returned {o['r' + j]} to caller {j}, module.o.payload={op} (as the module's output shape {d['osh']})"
            reads.append(op)
        ws = [j for j in "01" if o["w" + j] == "1"]
        if len(ws) > 1:
            return f"cycle {t}: both callers' writes executed in one cycle"
        for j in ws:
            if i["w" + j] == "-":
                return f"cycle {t}: write executed without being attempted"
            queue.append(int(i["w" + j]))
        if len(queue) > 1:
            return f"cycle {t}: {len(queue)} written items outstanding before the module"
        prev = (iv, ip, ir)
        # the wrapped module's own stream semantics, seen through the methods

        def sg(x):
            x %= 1 << w
            return x - (1 << w) if osigned and x >= (1 << (w - 1)) else x

        if mod in ("pass", "reg"):
            exp = [sg(x + k) for x in accepted]
        elif mod == "stutter":
            exp = [sg(x) for x in accepted]
        else:
            exp = [sg(x) for x in accepted for _ in (0, 1)]
        if reads != exp[: len(reads)]:
            return f"cycle {t}: values read {reads} are not a prefix of the module's semantics applied to accepted writes {exp}"
    return None


# ------------------------------------------------------------------ generators


def _ready_pattern(rng, kind: str, n: int, valid_pred):
    """consumer ready per cycle; `valid_pred(t)` is a prediction of valid (only used to shape stimulus)."""
    if kind == "one":
        return lambda t: 1
    if kind == "zero_then":
        return lambda t: int(t > n // 2)
    if kind == "toggle":
        return lambda t: t & 1
    if kind == "rare":
        return lambda t: int(rng.random() < 0.12)
    if kind == "rand":
        return lambda t: int(rng.random() < 0.5)
    if kind == "when_valid":
        return lambda t: int(valid_pred(t))
    if kind == "when_not_valid":  # never lets a transfer happen: valid must stay up for ever
        return lambda t: int(not valid_pred(t))
    if kind == "after_valid":  # withdraws ready as soon as valid shows, grants it two cycles later
        return lambda t: int(valid_pred(t) and valid_pred(t - 1) and valid_pred(t - 2))
    raise ValueError(kind)


READY_KINDS = ["one", "zero_then", "toggle", "rare", "rand", "when_valid", "when_not_valid", "after_valid"]


def _two(rng, p_any: float, p_both: float):
    """attempt pattern of the two callers: (caller0, caller1)"""
    if rng.random() >= p_any:
        return 0, 0
    if rng.random() < p_both:
        return 1, 1
    return (1, 0) if rng.random() < 0.5 else (0, 1)


def _mk_source(rng, shape: str, kind: str, n: int, pw: float, tag="random", inner=False) -> Case:
    w = WIDTH[shape]
    hist: list[int] = []  # predicted valid per cycle (stimulus shaping only)
    valid = 0
    rd = _ready_pattern(rng, kind, n, lambda t: hist[t] if 0 <= t < len(hist) else 0)
    ops = []
    for t in range(n):
        hist.append(valid)
        r = rd(t)
        a0, a1 = _two(rng, pw, 0.4)
        if inner in (True, "foreign"):
            a0, a1 = int(rng.random() < pw), 0
        ops.append(f"cyc w0={rng.randrange(1 << w) if a0 else '-'} w1={rng.randrange(1 << w) if a1 else '-'} rdy={r}")
        if (a0 or a1) and (not valid or r):
            valid = 1
        elif r:
            valid = 0
    key = ("source", shape) + ((("foreign" if inner is True else inner),) if inner else ())
    return Case(f"cfg comp=source wp={prio(key)['wp']}", ops, {"component": "StreamSource", "comp": "source", "shape": shape, "consumer": kind, "inner": inner}, tag)


def _mk_sink(rng, shape: str, n: int, pv: float, pr: float, pk: float, hold: bool, tag="random", inner=False) -> Case:
    w = WIDTH[shape]
    ops = []
    v, p = 0, 0
    for _ in range(n):
        if not hold or not v:
            v, p = int(rng.random() < pv), rng.randrange(1 << w)
        r0, r1 = _two(rng, pr, 0.5)
        k0, k1 = _two(rng, pk, 0.5)
        if inner in (True, "foreign"):
            r0, r1, k0, k1 = int(rng.random() < pr), 0, int(rng.random() < pk), 0
        ops.append(f"cyc v={v} p={p} r0={r0} r1={r1} k0={k0} k1={k1}")
        if hold and v and (r0 or r1):
            v = 0  # a protocol-respecting producer holds the item until it is read
    key = ("sink", shape) + ((("foreign" if inner is True else inner),) if inner else ())
    return Case(f"cfg comp=sink rp={prio(key)['rp']}", ops, {"component": "StreamSink", "comp": "sink", "shape": shape, "hold": hold, "inner": inner}, tag)


def _mk_wrap(rng, mod: str, w: int, k: int, ish: str, osh: str, n: int, pw: float, pr, tag="random", inner=False) -> Case:
    ops = ["shape"]
    for t in range(n):
        a0, a1 = _two(rng, pw, 0.4)
        if callable(pr):
            r0 = r1 = pr(t)
            if r0 and rng.random() < 0.5:
                r0, r1 = ((1, 0), (0, 1))[rng.randrange(2)]
        else:
            r0, r1 = _two(rng, pr, 0.5)
        if inner in (True, "foreign"):
            a0, a1, r0, r1 = int(a0 or a1), 0, int(r0 or r1), 0
        ops.append(f"cyc w0={rng.randrange(1 << w) if a0 else '-'} w1={rng.randrange(1 << w) if a1 else '-'} r0={r0} r1={r1}")
    key = ("wrap", mod, w, k, ish, osh) + ((("foreign" if inner is True else inner),) if inner else ())
    pr_ = prio(key)
    return Case(
        f"cfg comp=wrap mod={mod} w={w} k={k} ish={ish} osh={osh} wp={pr_['wp']} rp={pr_['rp']}",
        ops,
        {"component": "StreamModuleWrapper", "comp": "wrap", "mod": mod, "w": w, "k": k, "ish": ish, "osh": osh, "inner": inner},
        tag,
    )


# (width, k, i shape, o shape): equal shapes, and differing shapes of equal width (unsigned/signed, struct/flat)
WRAP_CFGS_Q = [(4, 1, "u4", "u4"), (8, 3, "u8", "s8"), (8, 200, "st35", "u8")]
WRAP_CFGS_T = WRAP_CFGS_Q + [(1, 1, "u1", "u1"), (8, 0, "s8", "u8"), (4, 9, "u4", "s4"), (8, 77, "u8", "st35")]


def gen_cases(ctx: Check) -> list[Case]:
    rng = ctx.rng("gen")
    cases: list[Case] = []
    n = ctx.pick(80, 400)
    shapes = ctx.pick(["u1", "u8", "s35"], ["u1", "u4", "u8", "s35"])
    for shape in shapes:
        for kind in READY_KINDS:
            for pw in ctx.pick((1.0, 0.5), (1.0, 0.5, 0.15)):
                cases.append(_mk_source(rng, shape, kind, n, pw, "directed" if kind not in ("rand", "rare") else "random"))
        for pv, pr, pk, hold in [(0.5, 0.5, 0.5, False), (0.9, 0.2, 0.8, True), (0.3, 0.9, 0.3, True), (1.0, 1.0, 1.0, False), (0.6, 0.0, 1.0, True), (0.5, 0.6, 0.0, False)]:
            cases.append(_mk_sink(rng, shape, n, pv, pr, pk, hold))
    for mod in ("pass", "reg", "stutter", "dup"):
        for w, k, ish, osh in ctx.pick(WRAP_CFGS_Q, WRAP_CFGS_T):
            for pw, pr in [(1.0, 1.0), (0.5, 0.5), (0.9, 0.2), (0.2, 0.9), (1.0, lambda t: t & 1), (0.7, lambda t: int(t % 7 > 4))]:
                cases.append(_mk_wrap(rng, mod, w, k, ish, osh, n, pw, pr))
    # constructed under one DependencyContext, elaborated under another, methods called by transactions inside the design
    for mod in ("pass", "reg", "stutter", "dup"):
        for w, k, ish, osh in ctx.pick(WRAP_CFGS_Q[:2], WRAP_CFGS_T[:4]):
            for pw, pr in [(1.0, 1.0), (0.6, 0.5), (0.9, lambda t: int(t % 5 > 2))]:
                cases.append(_mk_wrap(rng, mod, w, k, ish, osh, n, pw, pr, "directed", inner=True))
    for shape in shapes[:2]:
        for kind in ("rand", "toggle", "after_valid"):
            cases.append(_mk_source(rng, shape, kind, n, 0.8, "directed", inner=True))
        cases.append(_mk_sink(rng, shape, n, 0.6, 0.5, 0.5, False, "directed", inner=True))
        cases.append(_mk_sink(rng, shape, n, 0.8, 0.4, 0.7, True, "directed", inner=True))
    # two competing callers in SEPARATE modules (own TModule each), inside If/Else resp. Switch at different alternatives
    for mode in ("ifelse", "switch"):
        for shape in shapes[1:2]:
            for kind in ("rand", "one", "after_valid"):
                cases.append(_mk_source(rng, shape, kind, n, 0.9, "directed", inner=mode))
            cases.append(_mk_sink(rng, shape, n, 0.7, 0.8, 0.6, False, "directed", inner=mode))
            cases.append(_mk_sink(rng, shape, n, 0.9, 0.6, 0.5, True, "directed", inner=mode))
        for mod in ctx.pick(("reg", "dup"), ("pass", "reg", "stutter", "dup")):
            w, k, ish, osh = WRAP_CFGS_Q[1]
            cases.append(_mk_wrap(rng, mod, w, k, ish, osh, n, 0.9, 0.8, "directed", inner=mode))
    if ctx.thorough:
        # every (write?, write?, ready) history of length <= 4 for the source; every (valid, r0, r1, k0, k1) history of length <= 2
        for L in range(1, 5):
            for seq in itertools.product(range(8), repeat=L):
                ops = [f"cyc w0={(t + 1) if x & 4 else '-'} w1={(t + 9) if x & 2 else '-'} rdy={x & 1}" for t, x in enumerate(seq)]
                cases.append(Case(f"cfg comp=source wp={prio(('source', 'u4'))['wp']}", ops, {"component": "StreamSource", "comp": "source", "shape": "u4", "consumer": "exh"}, "exhaustive"))
        for L in range(1, 3):
            for seq in itertools.product(range(32), repeat=L):
                ops = [f"cyc v={x >> 4 & 1} p={t + 3} r0={x >> 3 & 1} r1={x >> 2 & 1} k0={x >> 1 & 1} k1={x & 1}" for t, x in enumerate(seq)]
                cases.append(Case(f"cfg comp=sink rp={prio(('sink', 'u4'))['rp']}", ops, {"component": "StreamSink", "comp": "sink", "shape": "u4", "hold": False}, "exhaustive"))
        for mod in ("pass", "reg", "stutter", "dup"):
            key = ("wrap", mod, 4, 1, "u4", "s4")
            pr_ = prio(key)
            for L in range(1, 4):
                for seq in itertools.product(range(16), repeat=L):
                    ops = ["shape"] + [f"cyc w0={(t + 1) if x & 8 else '-'} w1={(t + 7) if x & 4 else '-'} r0={x >> 1 & 1} r1={x & 1}" for t, x in enumerate(seq)]
                    cases.append(
                        Case(
                            f"cfg comp=wrap mod={mod} w=4 k=1 ish=u4 osh=s4 wp={pr_['wp']} rp={pr_['rp']}",
                            ops,
                            {"component": "StreamModuleWrapper", "comp": "wrap", "mod": mod, "w": 4, "k": 1, "ish": "u4", "osh": "s4"},
                            "exhaustive",
                        )
                    )
    return cases


def more_cases(case: Case, rng):
    d = case.desc
    for j in range(30):
        if d["comp"] == "source":
            yield _mk_source(rng, d["shape"], READY_KINDS[j % len(READY_KINDS)], 80, rng.choice([1.0, 0.5]), "search", inner=bool(d.get("inner")))
        elif d["comp"] == "sink":
            yield _mk_sink(rng, d["shape"], 60, 0.6, 0.5, 0.5, bool(j & 1), "search", inner=bool(d.get("inner")))
        else:
            yield _mk_wrap(rng, d["mod"], d["w"], d["k"], d["ish"], d["osh"], 80, rng.choice([1.0, 0.5]), rng.choice([1.0, 0.5, 0.2]), "search", inner=bool(d.get("inner")))


def nontrivial(case: Case, out: list[str]) -> bool:
    d = case.desc
    pairs = [(op, o) for op, o in zip(case.ops, out[1:]) if op.startswith("cyc")]
    ins = [_parse(op) for op, _ in pairs]
    obs = [dict(x.split("=") for x in o.split()) for _, o in pairs]
    if d.get("inner") in (True, "foreign"):
        if d["comp"] == "source":
            return any(o["valid"] == "1" and i["rdy"] == "0" for i, o in zip(ins, obs)) and sum(o["w0"] == "1" for o in obs) >= 3
        return sum(o["r0"] != "-" for o in obs) >= 3
    if d["comp"] == "source":
        stall = any(o["valid"] == "1" and i["rdy"] == "0" for i, o in zip(ins, obs))
        b2b = any(o["valid"] == "1" and i["rdy"] == "1" and "1" in (o["w0"], o["w1"]) for i, o in zip(ins, obs))
        both = any(i["w0"] != "-" and i["w1"] != "-" and "1" in (o["w0"], o["w1"]) for i, o in zip(ins, obs))
        return stall and b2b and both
    if d["comp"] == "sink":
        both = any(i["r0"] == "1" and i["r1"] == "1" and i["v"] == "1" for i in ins)
        peek_only = any(o["r0"] == "-" and o["r1"] == "-" and (o["k0"] != "-" or o["k1"] != "-") for o in obs)
        return both and peek_only
    contested = any(i["r0"] == "1" and i["r1"] == "1" and (o["r0"] != "-" or o["r1"] != "-") for i, o in zip(ins, obs))
    return sum((o["r0"] != "-") + (o["r1"] != "-") for o in obs) >= 3 and contested


def run(ctx: Check):
    ctx.rule = (
        "cases = (component, payload shape / wrapped module with its i/o shapes, history of attempts of TWO callers per method "
        "and of the handshake wires); non-trivial = source: a stalled cycle, a back-to-back write during a transfer and a cycle "
        "with both writers attempting; sink: both readers attempting on a valid stream and a peek without read; wrapper: >=3 "
        "items read and a cycle in which both readers attempt and one is served"
    )
    ctx.proof_stage()
    cases = gen_cases(ctx)
    for comp in ("source", "sink", "wrap"):
        ctx.count(f"cases_{comp}", sum(1 for c in cases if c.desc["comp"] == comp))
    ctx.count("cycles", sum(len(c.ops) for c in cases))
    ctx.count("cases_constructed_in_foreign_dependency_context", sum(1 for c in cases if c.desc.get("inner") in (True, "foreign")))
    ctx.count("cases_two_callers_in_separate_modules_in_control_structures", sum(1 for c in cases if c.desc.get("inner") in ("ifelse", "switch")))
    ctx.note("which of two simultaneously attempting callers is granted is probed on the real circuit (cfg wp=/rp=); the monitor "
             "accepts either winner")
    if ctx.thorough:
        ctx.note("exhaustive part: all (write0?, write1?, ready) histories up to length 4 (source), all (valid, r0, r1, k0, k1) "
                 "histories up to length 2 (sink), all (write0?, write1?, r0, r1) histories up to length 3 for each wrapped module")
    lockstep(ctx, "stream", "C29", cases, impl, monitor, more_cases, nontrivial, procs=1)


def replay(ctx: Check, body: dict):
    return replay_case(body, impl, monitor)
