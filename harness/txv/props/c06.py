"""C06 - body effects follow the run signal; av_comb / top_comb semantics
(transactron/core/tmodule.py:188-311, method.py:243-247, transaction.py:131-134).

A *program* is a random placement tree (If/Elif/Else, Switch/Case/Default, FSM/State, transaction
bodies, method bodies called by a separate transaction, raw AvoidedIf) with a fresh witness signal
assigned at every placement in one of the four domains.  It is interpreted with the REAL
TModule / Transaction / Method API, elaborated with the real TransactionManager and simulated in
pysim under (all | random) valuations of the condition / selector / ready inputs.  The run signals
are sampled from the real `Transaction.run` / `Method.run`, handed to the Lean model as inputs,
and every witness (and FSM state register) is compared cycle by cycle with the model.  The monitor
is an independent transcription of the three property sentences.
"""

from __future__ import annotations

import multiprocessing as mp
import os
import random
import warnings
from typing import Any, Optional

from ..common import Check
from ..lockstep import Case, lockstep

warnings.filterwarnings("ignore")

META = {
    "id": "C06",
    "design_ref": "DESIGN.md §6 C06",
    "technique": "Lean 4 theorems by structural induction over a model of TModule's lowering of a statement tree into "
    "the main/avoiding/top Amaranth modules plus Amaranth's first-match statement semantics; lock-step "
    "correspondence of the model with witness signals of the real TModule/Transaction/Method API in pysim",
    "level_text": "c06_main/c06_av/c06_top (and c06_av_regardless, c06_body, c06_witness, c06_frozen_reg, c06_frozen_fsm) are "
    "proved for every statement tree, every valuation of conditions/selectors/run signals and every FSM/register "
    "state; the model is tied to the code by comparing every witness of random placement trees (nested transaction "
    "and method bodies, raw AvoidedIf, If/Elif/Else on 1-3 bit conditions, Switch, FSM incl. m.next) under all valuations of <= 10 input "
    "bits (random valuations above), each assignment written as m.d.<dom> or m.d[\"<dom>\"] at random, with the run signals sampled from the real Transaction.run/Method.run",
    "level_note": "trusted: Lean kernel, axioms propext/Quot.sound/Classical.choice; Amaranth's If/Switch/FSM semantics "
    "(modelled as first-match chains) and pysim; the harness glue (tree -> real API calls). Hypothesis t.wf (distinct "
    "State names per FSM) is enforced by Amaranth (NameError, replayed as a directed case). Not covered: an "
    "Elif/Else written directly after a raw AvoidedIf block (not expressible with bodies; see report).",
}

DOMS = "csat"  # comb, sync, av_comb, top_comb

# --------------------------------------------------------------------------- program text <-> tree
# tree items: ("w", dom, id) | ("n", f, st) | ("I", [(cond|None, blk)...]) | ("S", sel, [(pats|None, blk)...])
#             | ("F", f, init, [(st, blk)...]) | ("B", r, blk)


def ser_blk(blk) -> list[str]:
    out: list[str] = []
    for it in blk:
        k = it[0]
        if k == "w":
            out.append(f"{it[1]}{it[2]}")
        elif k == "n":
            out.append(f"n{it[1]}:{it[2]}")
        elif k == "I":
            out.append("I")
            for c, b in it[1]:
                out.append("e" if c is None else f"?{c}")
                out += ser_blk(b)
            out.append(".")
        elif k == "S":
            out.append(f"S{it[1]}")
            for p, b in it[2]:
                out.append("e" if p is None else "p" + "|".join(map(str, p)))
                out += ser_blk(b)
            out.append(".")
        elif k == "F":
            out.append(f"F{it[1]}:{it[2]}")
            for st, b in it[3]:
                out.append(f"q{st}")
                out += ser_blk(b)
            out.append(".")
        elif k == "B":
            out.append(f"B{it[1]}")
            out += ser_blk(it[2])
        else:
            raise ValueError(it)
    out.append(".")
    return out


def ser(tree) -> str:
    return ",".join(ser_blk(tree))


def parse(text: str):
    toks = text.split(",")
    pos = 0

    def blk():
        nonlocal pos
        items = []
        while True:
            t = toks[pos]
            pos += 1
            if t == ".":
                return items
            k, a = t[0], t[1:]
            if k in DOMS:
                items.append(("w", k, int(a)))
            elif k == "n":
                f, st = a.split(":")
                items.append(("n", int(f), int(st)))
            elif k == "I":
                alts = []
                while toks[pos] != ".":
                    g = toks[pos]
                    pos += 1
                    alts.append((None if g == "e" else int(g[1:]), blk()))
                pos += 1
                items.append(("I", alts))
            elif k == "S":
                alts = []
                while toks[pos] != ".":
                    g = toks[pos]
                    pos += 1
                    pats = None if g == "e" else [int(x) for x in g[1:].split("|") if x != ""]
                    alts.append((pats, blk()))
                pos += 1
                items.append(("S", int(a), alts))
            elif k == "F":
                f, ini = a.split(":")
                sts = []
                while toks[pos] != ".":
                    g = toks[pos]
                    pos += 1
                    sts.append((int(g[1:]), blk()))
                pos += 1
                items.append(("F", int(f), int(ini), sts))
            elif k == "B":
                items.append(("B", int(a), blk()))
            else:
                raise ValueError(t)

    tree = blk()
    if pos != len(toks):
        raise ValueError("trailing tokens")
    return tree


def placements(tree):
    """[(leaf, encl)] in program order; leaf = ("w", dom, id) | ("n", f, st); encl outermost first:
    ("if", earlier_conds, cond|None) | ("sw", sel, earlier_pats, pats|None) | ("st", f, st) | ("body", r)"""
    out = []

    def walk(blk, encl):
        for it in blk:
            k = it[0]
            if k in ("w", "n"):
                out.append((it, list(encl)))
            elif k == "I":
                earlier = []
                for c, b in it[1]:
                    walk(b, encl + [("if", list(earlier), c)])
                    earlier.append(c)
            elif k == "S":
                earlier = []
                for p, b in it[2]:
                    walk(b, encl + [("sw", it[1], list(earlier), p)])
                    earlier.append(p)
            elif k == "F":
                for st, b in it[3]:
                    walk(b, encl + [("st", it[1], st)])
            elif k == "B":
                walk(it[2], encl + [("body", it[1])])

    walk(tree, [])
    return out


def fsm_list(tree) -> list[tuple[int, int, list[int]]]:
    """(f, init, states) in definition (pre-)order"""
    out = []

    def walk(blk):
        for it in blk:
            k = it[0]
            if k == "I":
                for _, b in it[1]:
                    walk(b)
            elif k == "S":
                for _, b in it[2]:
                    walk(b)
            elif k == "F":
                out.append((it[1], it[2], [st for st, _ in it[3]]))
                for _, b in it[3]:
                    walk(b)
            elif k == "B":
                walk(it[2])

    walk(tree)
    return out


# --------------------------------------------------------------------------- the real circuit
def _cfg_tokens(cfg: str) -> dict:
    return dict(x.split("=", 1) for x in cfg.split()[1:])


class _Built:
    """One elaborated program: real TModule circuit + pysim simulator."""

    def __init__(self, cfg: str):
        from amaranth import Elaboratable, Signal
        from amaranth.sim import Simulator
        from transactron import Method, TModule, Transaction
        from transactron.core.context import TransactronContextElaboratable
        from transactron.utils.dependencies import DependencyContext, DependencyManager

        tk = _cfg_tokens(cfg)
        self.tree = parse(tk["t"])
        self.kinds = [] if tk.get("k", "-") == "-" else list(tk["k"])
        self.selw = [] if tk.get("sw", "-") == "-" else [int(x) for x in tk["sw"].split(",")]
        self.places = placements(self.tree)
        self.fsm_info = fsm_list(self.tree)
        nconds = 0
        for _, encl in self.places:
            for e in encl:
                if e[0] == "if":
                    for c in e[1] + [e[2]]:
                        if c is not None:
                            nconds = max(nconds, c + 1)
        nconds = max(nconds, int(tk.get("nc", "0")))
        lst = lambda key: [] if tk.get(key, "-") == "-" else [int(x) for x in tk[key].split(",")]  # noqa: E731
        cw = lst("cw") + [1] * nconds  # widths of the condition inputs (default 1)
        nqs = sum({"T": 1, "M": 2, "A": 1}[k] for k in self.kinds)
        qw = lst("qw") + [1] * nqs  # widths of the ready / request / raw run inputs
        # per witness id: 1 = item syntax `m.d["av_comb"] += …`, 0 = attribute syntax `m.d.av_comb += …`
        ix = tk.get("ix", "-")
        self.item_syntax = [] if ix == "-" else [ch == "1" for ch in ix]
        built = self

        class Dut(Elaboratable):
            def __init__(self):
                self.c = [Signal(cw[i], name=f"c{i}") for i in range(nconds)]
                self.s = [Signal(w, name=f"s{j}") for j, w in enumerate(built.selw)]
                self.q = []  # plain inputs for bodies, in order of run id: T: ready; M: ready, request; A: run
                self.qof = {}
                for r, kind in enumerate(built.kinds):
                    n = {"T": 1, "M": 2, "A": 1}[kind]
                    sigs = [Signal(qw[len(self.q) + j], name=f"q{r}_{j}") for j in range(n)]
                    self.qof[r] = sigs
                    self.q += sigs
                self.w = {}
                for leaf, _ in built.places:
                    if leaf[0] == "w":
                        self.w[leaf[2]] = Signal(name=f"w{leaf[2]}")
                self.runs: list[Any] = [None] * len(built.kinds)
                self.fsms: dict[int, Any] = {}
                self.dummy = Signal()

            def blk(self, m, items):
                for it in items:
                    k = it[0]
                    if k == "w":
                        sig = self.w[it[2]]
                        item = it[2] < len(built.item_syntax) and built.item_syntax[it[2]]
                        if it[1] == "c":
                            if item:
                                m.d["comb"] += sig.eq(1)
                            else:
                                m.d.comb += sig.eq(1)
                        elif it[1] == "s":
                            if item:
                                m.d["sync"] += sig.eq(~sig)
                            else:
                                m.d.sync += sig.eq(~sig)
                        elif it[1] == "a":
                            if item:
                                m.d["av_comb"] += sig.eq(1)
                            else:
                                m.d.av_comb += sig.eq(1)
                        else:
                            if item:
                                m.d["top_comb"] += sig.eq(1)
                            else:
                                m.d.top_comb += sig.eq(1)
                    elif k == "n":
                        m.next = f"S{it[2]}"
                    elif k == "I":
                        for j, (c, b) in enumerate(it[1]):
                            cm = m.If(self.c[c]) if j == 0 else (m.Else() if c is None else m.Elif(self.c[c]))
                            with cm:
                                self.blk(m, b)
                    elif k == "S":
                        with m.Switch(self.s[it[1]]):
                            for p, b in it[2]:
                                with m.Default() if p is None else m.Case(*p):
                                    self.blk(m, b)
                    elif k == "F":
                        f, ini, sts = it[1], it[2], it[3]
                        first = sts[0][0] if sts else None
                        init = None if (ini == first and f % 2 == 0) else f"S{ini}"
                        with m.FSM(init=init, name=f"fsm{f}") as fsm:
                            for st, b in sts:
                                with m.State(f"S{st}"):
                                    self.blk(m, b)
                        self.fsms[f] = fsm
                    elif k == "B":
                        r = it[1]
                        kind = built.kinds[r]
                        if kind == "T":
                            t = Transaction(name=f"tr{r}")
                            with t.body(m, ready=self.qof[r][0]):
                                self.blk(m, it[2])
                            self.runs[r] = t.run
                        elif kind == "M":
                            me = Method(name=f"me{r}")
                            with me.body(m, ready=self.qof[r][0]):
                                self.blk(m, it[2])
                            self.runs[r] = me.run
                            self.methods.append((r, me))
                        else:
                            with m.AvoidedIf(self.qof[r][0]):
                                self.blk(m, it[2])
                            self.runs[r] = self.qof[r][0].bool()

            def elaborate(self, platform):
                m = TModule()
                m.d.sync += self.dummy.eq(1)
                self.methods = []
                self.blk(m, built.tree)
                for r, me in self.methods:
                    with Transaction(name=f"caller{r}").body(m, ready=self.qof[r][1]):
                        me(m)
                return m

        self.dm = DependencyManager()
        with DependencyContext(self.dm):
            self.dut = Dut()
            self.top = TransactronContextElaboratable(self.dut, dependency_manager=self.dm)
            self.sim = Simulator(self.top)
        self.sim.add_clock(1e-6)
        self._first = True
        self.witness_ids = [leaf[2] for leaf, _ in self.places if leaf[0] == "w"]

    # one stimulus line -> (cbits, svals, qbits, forces)
    @staticmethod
    def parse_op(line: str):
        tk = dict(x.split("=", 1) for x in line.split()[1:])
        dash = lambda s: "" if s == "-" else s  # noqa: E731
        ints = lambda t: [int(x) for x in dash(t).split(",")] if dash(t) else []  # noqa: E731
        # `cv` = raw values of the (1-3 bit) condition inputs; `c` = their truth values (value != 0), which
        # is what the Lean model and the monitor are given
        c = ints(tk["cv"]) if "cv" in tk else [int(ch) for ch in dash(tk["c"])]
        s = ints(tk["s"])
        q = ints(tk["q"])
        forces = []
        if "fst" in tk:
            forces = [tuple(int(y) for y in x.split(":")) for x in tk["fst"].split(",")]
        return c, s, q, forces

    def run(self, ops: list[str]) -> list[str]:
        self._ops = ops
        self._out: list[str] = []
        if self._first:
            self.sim.add_testbench(self._tb)
            self._first = False
        else:
            self.sim.reset()
        self.sim.run()
        return self._out

    async def _tb(self, ctx):
        d = self.dut
        fsms = [d.fsms[f] for f, _, _ in self.fsm_info]
        samples = [*d.runs, *[d.w[i] for i in self.witness_ids], *[f.state for f in fsms]]
        nr, nw = len(d.runs), len(self.witness_ids)
        out = self._out
        for line in self._ops:
            c, s, q, forces = self.parse_op(line)
            for sig, v in zip(d.c, c):
                ctx.set(sig, v)
            for sig, v in zip(d.s, s):
                ctx.set(sig, v)
            for sig, v in zip(d.q, q):
                ctx.set(sig, v)
            for f, st in forces:
                fsm = d.fsms[f]
                ctx.set(fsm.state, fsm.encoding[f"S{st}"])
            vals = [int(x) for x in (await ctx.tick().sample(*samples))[2:]]
            rs = "".join(map(str, vals[:nr])) or "-"
            ws = "".join(map(str, vals[nr : nr + nw])) or "-"
            sts = []
            for fsm, v in zip(fsms, vals[nr + nw :]):
                name = fsm.decoding.get(v)
                sts.append(str(int(name[1:])) if name is not None else str(1000 + v))
            out.append(f"r={rs} w={ws} st={','.join(sts) or '-'}")


_built: dict[str, Any] = {}
_memo: dict[str, list[str]] = {}


def _get_built(cfg: str):
    b = _built.get(cfg)
    if b is None:
        if len(_built) > 64:
            _built.clear()
        try:
            b = _Built(cfg)
        except Exception as e:  # noqa: BLE001 - an exception of the real code is an observation
            b = f"raise {type(e).__name__}"
        _built[cfg] = b
    return b


def impl(case: Case) -> list[str]:
    key = case.key()
    if key in _memo:
        return _memo[key]
    b = _get_built(case.cfg)
    if isinstance(b, str):
        return [b] + ["bad-op"] * len(case.ops)
    nf = len(b.fsm_info)
    try:
        out = b.run(case.ops)
    except Exception as e:  # noqa: BLE001
        return [f"raise {type(e).__name__}"] + ["bad-op"] * len(case.ops)
    return [f"ok nw={len(b.witness_ids)} nf={nf}", *out]


# --------------------------------------------------------------------------- monitor (property sentences)
def _encl_holds(e, c, s, r, st) -> bool:
    if e[0] == "if":
        return all(not c[j] for j in e[1] if j is not None) and (True if e[2] is None else bool(c[e[2]])) and (
            None not in e[1]
        )
    if e[0] == "sw":
        v = s[e[1]]
        m = lambda p: True if p is None else (v in p)  # noqa: E731
        return all(not m(p) for p in e[2]) and m(e[3])
    if e[0] == "st":
        return st[e[1]] == e[2]
    if e[0] == "body":
        return bool(r[e[1]])
    raise ValueError(e)


def monitor(case: Case, out: list[str]) -> Optional[str]:
    """Transcription of the property: for every placement, from (sampled run signals of the enclosing
    bodies, condition/selector inputs, sampled FSM states) to the expected witness value.
      ordinary domain: in effect iff the body runs (all enclosing bodies) and the enclosing conditions hold
      av_comb:         in effect iff the enclosing ordinary conditions hold, whatever run is
      top_comb:        always in effect
    comb/av/top witnesses are `w.eq(1)`: sampled value = in effect; sync witnesses are `w.eq(~w)`: the
    register changes at the edge iff in effect; `m.next` is an ordinary-domain assignment to the FSM register."""
    if not out or not out[0].startswith("ok"):
        return None
    tk = _cfg_tokens(case.cfg)
    tree = parse(tk["t"])
    pl = placements(tree)
    fsms = fsm_list(tree)
    fidx = {f: k for k, (f, _, _) in enumerate(fsms)}
    wit = [(leaf, encl) for leaf, encl in pl if leaf[0] == "w"]
    nexts = [(leaf, encl) for leaf, encl in pl if leaf[0] == "n"]
    prev = None
    for k, (op, o) in enumerate(zip(case.ops, out[1:])):
        c, s, _q, forces = _Built.parse_op(op)
        f = dict(x.split("=", 1) for x in o.split())
        r = [] if f["r"] == "-" else [int(ch) for ch in f["r"]]
        w = [] if f["w"] == "-" else [int(ch) for ch in f["w"]]
        stl = [] if f["st"] == "-" else [int(x) for x in f["st"].split(",")]
        st = {fid: stl[i] for fid, i in fidx.items()}
        forced = {ff for ff, _ in forces}
        if k == 0:
            for fid, ini, _ in fsms:
                if fid not in forced and st[fid] != ini:
                    return f"cycle 0: FSM {fid} is in state {st[fid]} after reset, init state is {ini}"
        cur = {"w": w, "st": st, "exp_sync": {}, "exp_st": {}}
        for (leaf, encl), val in zip(wit, w):
            dom, wid = leaf[1], leaf[2]
            if dom in "cs":
                eff = all(_encl_holds(e, c, s, r, st) for e in encl)
                why = "body runs and enclosing conditions hold" if eff else "a body does not run or a condition fails"
            elif dom == "a":
                eff = all(_encl_holds(e, c, s, r, st) for e in encl if e[0] != "body")
                why = "enclosing ordinary conditions hold" if eff else "an enclosing ordinary condition fails"
            else:
                eff = True
                why = "top_comb"
            if dom == "s":
                cur["exp_sync"][wid] = val ^ int(eff)
                if prev is not None and prev["exp_sync"][wid] != val:
                    return (
                        f"cycle {k - 1}->{k}: sync witness w{wid} is {val} but should be {prev['exp_sync'][wid]} "
                        f"(placement {encl}; inputs of cycle {k - 1}: {case.ops[k - 1]}; observed {out[k]})"
                    )
                if prev is None and val != 0:
                    return f"cycle 0: sync witness w{wid} is {val} after reset"
            elif val != int(eff):
                name = {"c": "comb", "a": "av_comb", "t": "top_comb"}[dom]
                return (
                    f"cycle {k}: {name} witness w{wid} is {val} but {why} "
                    f"(placement {encl}; c={c} s={s} run={r} fsm={st})"
                )
        # FSM registers: last active m.next wins, else hold
        for fid, _, _ in fsms:
            nxt = st[fid]
            for leaf, encl in nexts:
                if leaf[1] == fid and all(_encl_holds(e, c, s, r, st) for e in encl):
                    nxt = leaf[2]
            cur["exp_st"][fid] = nxt
            if prev is not None and fid not in forced and prev["exp_st"][fid] != st[fid]:
                return (
                    f"cycle {k - 1}->{k}: FSM {fid} is in state {st[fid]} but should be {prev['exp_st'][fid]} "
                    f"(inputs of cycle {k - 1}: {case.ops[k - 1]}; observed {out[k]})"
                )
        prev = cur
    return None


# --------------------------------------------------------------------------- generators
class _Gen:
    def __init__(self, rng: random.Random, max_bits: int, size: int):
        self.rng = rng
        self.max_bits = max_bits
        self.size = size
        self.nc = 0
        self.cw: list[int] = []
        self.qw: list[int] = []
        self.selw: list[int] = []
        self.kinds: list[str] = []
        self.nw = 0
        self.nf = 0
        self.bits = 0
        self.nodes = 0

    def leafs(self, fsm: Optional[tuple[int, list[int]]], n: int) -> list:
        rng = self.rng
        out = []
        for _ in range(n):
            if fsm is not None and rng.random() < 0.25:
                out.append(("n", fsm[0], rng.choice(fsm[1])))
            else:
                out.append(("w", rng.choice(DOMS), self.nw))
                self.nw += 1
        return out

    def blk(self, depth: int, fsm, in_body: bool) -> list:
        rng = self.rng
        items: list = []
        items += self.leafs(fsm, rng.choice([0, 1, 1, 2]))
        n_struct = rng.choice([0, 1, 1, 2]) if depth > 0 else 0
        for _ in range(n_struct):
            if self.nodes >= self.size:
                break
            self.nodes += 1
            kind = rng.choices(["I", "S", "F", "B"], weights=[4, 2, 2, 5 if not in_body else 3])[0]
            if kind == "I" and self.bits < self.max_bits:
                nalt = rng.choice([1, 1, 2, 2, 3])
                alts = []
                for j in range(nalt):
                    if self.bits >= self.max_bits:
                        break
                    cid = self.nc
                    self.nc += 1
                    w = min(rng.choice([1, 1, 2, 2, 3]), self.max_bits - self.bits)
                    self.cw.append(w)
                    self.bits += w
                    alts.append((cid, self.blk(depth - 1, fsm, in_body)))
                if alts and rng.random() < 0.5:
                    alts.append((None, self.blk(depth - 1, fsm, in_body)))
                if alts:
                    items.append(("I", alts))
            elif kind == "S" and self.bits + 2 <= self.max_bits:
                sel = len(self.selw)
                self.selw.append(2)
                self.bits += 2
                alts = []
                for j in range(rng.choice([1, 2, 3])):
                    # overlapping patterns on purpose (first match wins); `Case()` never matches
                    pats = [] if rng.random() < 0.08 else sorted(rng.sample(range(4), rng.choice([1, 1, 2])))
                    alts.append((pats, self.blk(depth - 1, fsm, in_body)))
                if rng.random() < 0.4:  # Default last: pysim cannot compile a Case after Default
                    alts.append((None, self.blk(depth - 1, fsm, in_body)))
                items.append(("S", sel, alts))
            elif kind == "F":
                f = self.nf
                self.nf += 1
                names = list(range(rng.choice([1, 2, 2, 3])))
                rng.shuffle(names)
                init = rng.choice(names)
                sts = [(st, self.blk(depth - 1, (f, names), in_body)) for st in names]
                items.append(("F", f, init, sts))
            elif kind == "B":
                bk = rng.choices(["T", "M", "A"], weights=[4, 3, 2])[0]
                ws = [1, 1] if bk == "M" else [1]
                if bk == "A" and rng.random() < 0.6:
                    ws = [rng.choice([2, 3])]  # raw AvoidedIf on a multi-bit value (holds iff non-zero)
                elif bk == "T" and rng.random() < 0.15:
                    ws = [2]  # multi-bit `ready=` (the run is sampled from the real circuit anyway)
                need = sum(ws)
                if self.bits + need <= self.max_bits:
                    r = len(self.kinds)
                    self.kinds.append(bk)
                    self.qw += ws
                    self.bits += need
                    head = []
                    for dom in rng.sample(["a", rng.choice("cs"), "t", "c"], rng.choice([1, 2, 2, 3])):
                        head.append(("w", dom, self.nw))
                        self.nw += 1
                    items.append(("B", r, head + self.blk(depth - 1, fsm, True)))
            items += self.leafs(fsm, rng.choice([0, 0, 1]))
        return items


def cfg_of(tree, kinds, selw, nc, cw, qw, ix="-") -> str:
    j = lambda l: ",".join(map(str, l)) or "-"  # noqa: E731
    return f"cfg t={ser(tree)} k={''.join(kinds) or '-'} sw={j(selw)} nc={nc} cw={j(cw)} qw={j(qw)} ix={ix}"


def stimulus(rng: random.Random, cw: list[int], selw: list[int], qw: list[int], fsms, max_cycles: int, force_p: float):
    """input lines without the run bits: all valuations (shuffled) when they fit, else random ones"""
    bits = sum(cw) + sum(selw) + sum(qw)
    if (1 << bits) <= max_cycles:
        vals = list(range(1 << bits))
        rng.shuffle(vals)
        full = True
    else:
        vals = [rng.getrandbits(bits) for _ in range(max_cycles)]
        full = False
    lines = []
    for v in vals:
        c, s, q = [], [], []
        for dst, ws in ((c, cw), (s, selw), (q, qw)):
            for w in ws:
                dst.append(v & ((1 << w) - 1))
                v >>= w
        j = lambda l: ",".join(map(str, l)) or "-"  # noqa: E731
        line = f"cyc c={''.join(str(int(x != 0)) for x in c) or '-'} cv={j(c)} s={j(s)} q={j(q)}"
        if fsms and rng.random() < force_p:
            fs = [(f, rng.choice(sts)) for f, _, sts in fsms if sts and rng.random() < 0.7]
            if fs:
                line += " fst=" + ",".join(f"{f}:{st}" for f, st in fs)
        lines.append(line)
    return lines, full


def finish_case(cfg: str, lines: list[str], tag: str, desc: dict) -> Case:
    """simulate the real circuit once, put the sampled run bits into the op lines, memoise the observation"""
    b = _get_built(cfg)
    if isinstance(b, str):
        case = Case(cfg, [], {**desc, "raises": b}, tag)
        _memo[case.key()] = [b]
        return case
    out = b.run(lines)
    ops = []
    for line, o in zip(lines, out):
        r = o.split()[0]  # "r=…"
        ops.append(f"{line} {r}")
    case = Case(cfg, ops, desc, tag)
    _memo[case.key()] = [f"ok nw={len(b.witness_ids)} nf={len(b.fsm_info)}", *out]
    _built.pop(cfg, None)
    return case


def tree_case(tree, kinds, selw, nc, rng, max_cycles, tag, force_p=0.3, cw=None, qw=None, ix=None) -> Case:
    nq = sum({"T": 1, "M": 2, "A": 1}[k] for k in kinds)
    cw = list(cw) if cw is not None else [1] * nc
    qw = list(qw) if qw is not None else [1] * nq
    if ix is None:  # attribute vs item syntax of `m.d`, at random per witness
        nwit = 1 + max([leaf[2] for leaf, _ in placements(tree) if leaf[0] == "w"], default=-1)
        ix = "".join(rng.choice("01") for _ in range(nwit)) or "-"
    cfg = cfg_of(tree, kinds, selw, nc, cw, qw, ix)
    fsms = fsm_list(tree)
    lines, full = stimulus(rng, cw, selw, qw, fsms, max_cycles, force_p)
    pl = placements(tree)
    desc = {
        "bits": sum(cw) + sum(selw) + sum(qw),
        "wide_conds": sum(1 for w in cw if w > 1) + sum(1 for k, w in zip("".join("MM" if k == "M" else k for k in kinds), qw) if w > 1),
        "all_valuations": full,
        "bodies": "".join(kinds),
        "fsms": len(fsms),
        "placements": len(pl),
        "max_depth": max([len(e) for _, e in pl], default=0),
    }
    return finish_case(cfg, lines, tag, desc)


def random_case(seed: int, max_bits: int, size: int, depth: int, max_cycles: int, tag: str = "random") -> Case:
    rng = random.Random(seed)
    want = max_bits - 2 if max_bits <= 10 else 11
    for _ in range(300):
        g = _Gen(rng, max_bits, size)
        tree = g.blk(depth, None, False)
        if g.nw >= 4 and g.kinds and g.bits >= want:
            break
    return tree_case(tree, g.kinds, g.selw, g.nc, rng, max_cycles, tag, cw=g.cw, qw=g.qw)


def _w(dom, i):
    return ("w", dom, i)


def directed(rng, max_cycles) -> list[Case]:
    cases = []
    # 1. the four domains directly inside a transaction body under If / Elif / Else
    four = lambda k: [_w("c", k), _w("s", k + 1), _w("a", k + 2), _w("t", k + 3)]  # noqa: E731
    t1 = [("I", [(0, [("B", 0, four(0))]), (1, four(4)), (None, [("B", 1, four(8))])])]
    cases.append(tree_case(t1, ["T", "M"], [], 2, rng, max_cycles, "directed", cw=[2, 3], ix="1" * 12))
    cases.append(tree_case(t1, ["T", "M"], [], 2, rng, max_cycles, "directed", ix="0" * 12))
    # 2. bodies nested three deep (transaction > method > raw AvoidedIf), conditions between them
    t2 = [("B", 0, four(0) + [("I", [(0, [("B", 1, four(4) + [("I", [(1, [("B", 2, four(8))])])])])])])]
    cases.append(tree_case(t2, ["T", "M", "A"], [], 2, rng, max_cycles, "directed", cw=[2, 1], qw=[1, 1, 1, 2]))
    # 3. FSM inside a body; transitions only inside the body; av_comb in states; Switch with overlapping cases and Default
    t3 = [
        ("B", 0, [
            ("F", 0, 1, [
                (0, [("n", 0, 1), _w("a", 0), _w("c", 1)]),
                (1, [_w("a", 2), ("I", [(0, [("n", 0, 2), _w("s", 3)])])]),
                (2, [("n", 0, 0), _w("t", 4), ("n", 0, 1)]),
            ]),
            ("S", 0, [([1], [_w("a", 5)]), ([2, 1], [_w("a", 7)]), (None, [_w("c", 6)])]),
        ]),
        _w("t", 8),
    ]
    cases.append(tree_case(t3, ["T"], [2], 1, rng, max_cycles, "directed"))
    # 4. bodies defined inside FSM states and Switch cases (ready is av_comb under these conditions)
    t4 = [
        ("F", 0, 0, [
            (0, [("B", 0, four(0) + [("n", 0, 1)])]),
            (1, [("B", 1, four(4)), ("n", 0, 0)]),
        ]),
        ("S", 0, [([0, 3], [("B", 2, four(8))]), ([], [_w("a", 12), _w("t", 13)]), ([3, 1], [_w("a", 14)])]),
    ]
    cases.append(tree_case(t4, ["M", "T", "A"], [2], 0, rng, max_cycles, "directed"))
    # 5. nested FSMs, m.next of the inner one, body between them
    t5 = [
        ("F", 0, 0, [
            (0, [("B", 0, [("F", 1, 1, [(1, [("n", 1, 0), _w("a", 0)]), (0, [_w("c", 1), ("n", 1, 1)])]), ("n", 0, 1)])]),
            (1, [_w("s", 2), ("I", [(0, [("n", 0, 0)])])]),
        ]),
    ]
    cases.append(tree_case(t5, ["T"], [], 1, rng, max_cycles, "directed"))
    # 6. excluded by t.wf: two states of the same name -> the real code must refuse (NameError)
    t6 = [("F", 0, 0, [(0, [_w("c", 0)]), (0, [_w("a", 1)])])]
    cases.append(tree_case(t6, [], [], 0, rng, 4, "directed"))
    return cases


def _mk_random(args):
    c = random_case(*args)
    return c, _memo.get(c.key())


def gen_cases(ctx: Check) -> list[Case]:
    rng = ctx.rng("gen")
    max_cycles = ctx.pick(1024, 1024)
    cases = directed(rng, max_cycles)
    n_small = ctx.pick(48, 800)
    n_big = ctx.pick(8, 150)
    specs = []
    for k in range(n_small):
        specs.append((rng.getrandbits(48), rng.choice([5, 6, 7, 8, 9, 9, 10, 10]), rng.choice([6, 8, 10]), rng.choice([3, 3, 4]), max_cycles))
    for k in range(n_big):
        specs.append((rng.getrandbits(48), rng.choice([12, 14, 18]), rng.choice([10, 14]), rng.choice([3, 4, 5]), ctx.pick(300, 1000)))
    procs = 1 if ctx.quick else min(16, os.cpu_count() or 1)
    if procs > 1:
        with mp.get_context("fork").Pool(procs) as pool:
            made = pool.map(_mk_random, specs, chunksize=8)
        for c, out in made:  # keep the workers' observations (one simulation per case)
            if out is not None:
                _memo[c.key()] = out
            cases.append(c)
    else:
        cases += [random_case(*s) for s in specs]
    return cases


def more_cases(case: Case, rng):
    tk = _cfg_tokens(case.cfg)
    try:
        tree = parse(tk["t"])
    except Exception:  # noqa: BLE001
        return
    kinds = [] if tk.get("k", "-") == "-" else list(tk["k"])
    selw = [] if tk.get("sw", "-") == "-" else [int(x) for x in tk["sw"].split(",")]
    for _ in range(3):
        ints = lambda key: None if tk.get(key, "-") == "-" else [int(x) for x in tk[key].split(",")]  # noqa: E731
        yield tree_case(tree, kinds, selw, int(tk.get("nc", "0")), rng, 1024, "search", cw=ints("cw"), qw=ints("qw"),
                        ix=tk.get("ix"))
    for _ in range(40):
        yield random_case(rng.getrandbits(48), 8, 6, 3, 256, "search")


def nontrivial(case: Case, out: list[str]) -> bool:
    """some av_comb witness inside a body is in effect in a cycle where that body does not run, and some
    ordinary-domain witness inside a body is seen both in effect and not in effect"""
    if not out or not out[0].startswith("ok"):
        return False
    tree = parse(_cfg_tokens(case.cfg)["t"])
    wit = [(leaf, encl) for leaf, encl in placements(tree) if leaf[0] == "w"]
    av_in = [(i, [e[1] for e in encl if e[0] == "body"]) for i, (leaf, encl) in enumerate(wit) if leaf[1] == "a"]
    av_in = [(i, b) for i, b in av_in if b]
    comb_in = [i for i, (leaf, encl) in enumerate(wit) if leaf[1] == "c" and any(e[0] == "body" for e in encl)]
    seen_av = False
    seen = {i: set() for i in comb_in}
    for o in out[1:]:
        f = dict(x.split("=", 1) for x in o.split())
        if f["w"] == "-" or f["r"] == "-":
            continue
        for i, bodies in av_in:
            if f["w"][i] == "1" and any(f["r"][b] == "0" for b in bodies):
                seen_av = True
        for i in comb_in:
            seen[i].add(f["w"][i])
    return seen_av and any(len(v) == 2 for v in seen.values())


def run(ctx: Check):
    ctx.rule = (
        "case = (placement tree, sequence of valuations); trees are random nestings of If/Elif/Else, Switch, FSM, "
        "transaction/method bodies and raw AvoidedIf with one witness per placement and domain; valuations are ALL "
        "assignments of the (1-3 bit wide: a condition holds iff its value is non-zero) condition/selector/ready inputs when <= 10 bits (shuffled; FSM registers additionally "
        "overwritten at random), random ones otherwise; non-trivial = an av_comb witness inside a body is in effect while "
        "that body does not run AND an ordinary-domain witness inside a body is seen both in effect and not"
    )
    ctx.proof_stage()
    cases = gen_cases(ctx)
    for c in cases:
        d = c.desc
        ctx.count("trees")
        if d.get("raises"):
            ctx.count("trees_rejected_by_real_code")
            continue
        ctx.count("trees_all_valuations" if d["all_valuations"] else "trees_random_valuations")
        ctx.count(f"bits_{min(d['bits'], 11)}{'+' if d['bits'] >= 11 else ''}")
        ctx.count(f"encl_depth_{min(d['max_depth'], 6)}")
        ctx.count("placements", d["placements"])
        ctx.count("trees_with_fsm", 1 if d["fsms"] else 0)
        ctx.count("trees_with_multibit_conditions", 1 if d.get("wide_conds") else 0)
        ctx.count("trees_nested_bodies", 1 if d["max_depth"] and _nested(c) else 0)
        for k in d["bodies"]:
            ctx.count(f"bodies_{k}")
    lockstep(ctx, "tmodule-witnesses", "C06", cases, impl, monitor, more_cases, nontrivial,
             procs=1 if ctx.quick else None)


def _nested(case: Case) -> bool:
    tree = parse(_cfg_tokens(case.cfg)["t"])
    return any(sum(1 for e in encl if e[0] == "body") >= 2 for _, encl in placements(tree))


def replay(ctx: Check, body: dict):
    from ..lockstep import replay_case

    return replay_case(body, impl, monitor)
