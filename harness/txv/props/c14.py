"""C14 — FIFO and BasicFifo behave as bounded queues
(transactron/lib/fifo.py:19-147, transactron/lib/connectors.py:24-84, transactron/lib/allocators.py:286-332)."""

from __future__ import annotations

from collections import deque

from ..bufcases import (REGIMES, directed_ops, exhaustive_ops, fields, fmt, load_corpus, make_multi, multi_nontrivial, multi_obs,
                        multi_sim_op, optv, parse, probe_orders, random_multi_ops, random_ops, reduce_multi)
from ..common import Check
from ..lockstep import Case, lockstep, replay_case
from ..simrun import CompSim, fmt_opt

META = {
    "id": "C14",
    "design_ref": "DESIGN.md §7 C14, Appendix C",
    "technique": "Lean 4: hand-written step model of BasicFifo (CircularAllocator(depth,1,1) pointers/level, memory, transparent "
    "synchronous read port) proved to refine a bounded queue for every depth >= 1 and every call history (invariant + "
    "simulation), history theorems (delivered ++ stored = written since the last clear) proved on the queue and transferred; "
    "lock-step correspondence of the model with the real BasicFifo and of the queue with the real connectors.FIFO in pysim",
    "level_text": "c14_refines, c14_order, c14_read_value, c14_peek, c14_ready, c14_clear (and the c14_fifo_* counterparts for the "
    "SyncFIFO wrapper, stated on the ideal queue) hold for every depth, every data value and every history of simultaneous "
    "write/read/peek/clear attempts; the model is tied to the code by cycle-exact comparison of done bits, returned data, "
    "peek.ready, level, both pointers and the head register over depths 1..9 (thorough 1..17), several layouts, directed "
    "wrap-around/full/empty/clear sequences, random regimes and (thorough) all histories up to length 3 (BasicFifo, depths 1-2; length 2 at depth 3) / 4 (FIFO, depths 1-3)"
    " Multi-caller scenarios: a wrapper owning the real component with two AdapterTrans on each of write/read/peek; per cycle each caller attempts independently, the model grants exclusive methods to the first attempting caller in the priority order probed from the real scheduler (c14_callers theorem: at most one caller executes and it sees the single-port outcome), the monitor accepts either winner and checks at-most-one executing caller per exclusive method and exactly-once in-order delivery over the union of all callers."
    " FIFO(fifo_type=SyncFIFOBuffered) is a third configuration class: its own Lean model (inner queue of depth-1 + output register, readiness = the wrapped w_rdy/r_rdy) is compared in lock-step for depths 0..5, 8 (thorough: all), c14_buffered_data/_order/_read_value prove the data clauses in full; of the readiness clause only c14_buffered_ready_partial (ready => possible, executes iff attempted and ready, at most one cycle late) holds - the iff fails on the unchanged code (finding F-c14-1, witness replayed, KNOWN-FINDING once listed); the monitor checks data strictly and the weakened readiness for this class.",
    "level_note": "trusted: Lean kernel with axioms propext/Classical.choice/Quot.sound; Amaranth semantics, amaranth.lib.memory "
    "(transparent sync read port) and pysim; amaranth.lib.fifo.SyncFIFO is *modelled* as the ideal queue with level-based "
    "readiness (no theorem about its source; checked in lock-step incl. depth 0); data layouts are flattened to one number "
    "(layout handling is C40/C41); the TransactionManager wiring of conflict-free methods is C01-C05.",
}

# ----------------------------------------------------------------------------- real code
_sims: dict[tuple, CompSim] = {}


def _layout(widths):
    return [(f"f{i}", w) for i, w in enumerate(widths)]


def _sim(cls: str, depth: int, widths: tuple, callers: int = 0) -> CompSim:
    key = (cls, depth, widths, callers)
    if key not in _sims:
        if cls == "basic":
            from transactron.lib.fifo import BasicFifo

            mk = lambda: BasicFifo(_layout(widths), depth)  # noqa: E731
        elif cls == "fifobuf":
            import amaranth.lib.fifo
            from transactron.lib.connectors import FIFO

            mk = lambda: FIFO(_layout(widths), depth, fifo_type=amaranth.lib.fifo.SyncFIFOBuffered)  # noqa: E731
        else:
            from transactron.lib.connectors import FIFO

            mk = lambda: FIFO(_layout(widths), depth)  # noqa: E731
        _sims[key] = CompSim((lambda: make_multi(mk(), callers)) if callers else mk)
    return _sims[key]


def impl(case: Case) -> list[str]:
    try:
        return _impl(case)
    except Exception as e:  # noqa: BLE001 - an exception of the real code is an observation
        return [f"raise {type(e).__name__}"] + ["-"] * len(case.ops)


def _impl(case: Case) -> list[str]:
    d = case.desc
    cls = d["cls"]
    callers = d.get("callers", 0)
    sim = _sim(cls, d["depth"], tuple(d["layout"]), callers)
    out = ["ok"]
    root = (lambda dut: dut.inner) if callers else (lambda dut: dut)
    if cls == "basic":
        extra = lambda dut: [root(dut).peek.ready, root(dut).level, root(dut).read_idx, root(dut).write_idx, root(dut).head]  # noqa: E731
        tail = lambda e: f"rdy={e[0]} lvl={e[1]} ri={e[2]} wi={e[3]} head={e[4]}"  # noqa: E731
    else:
        extra = lambda dut: [root(dut).read.ready, root(dut).write.ready]  # noqa: E731
        tail = lambda e: f"rdy={e[0]}{e[1]}"  # noqa: E731
    if callers:
        tr = sim.run([multi_sim_op(line, cls == "basic") for line in case.ops], extra=extra)
        for r in tr:
            out.append(f"{multi_obs(r, callers, cls == 'basic')} {tail(r['_extra'])}")
        return out
    cycs = [parse(line) for line in case.ops]
    if cls == "basic":
        ops = [{"write": w, "read": 0 if r else None, "peek": 0 if p else None, "clear": 0 if c else None} for w, r, p, c in cycs]
        for r in sim.run(ops, extra=extra):
            out.append(
                f"w={0 if r[('write',)] is None else 1} r={fmt_opt(r[('read',)])} p={fmt_opt(r[('peek',)])} "
                f"c={0 if r[('clear',)] is None else 1} {tail(r['_extra'])}"
            )
    else:
        ops = [{"write": w, "read": 0 if r else None} for w, r, _, _ in cycs]
        for r in sim.run(ops, extra=extra):
            out.append(f"w={0 if r[('write',)] is None else 1} r={fmt_opt(r[('read',)])} {tail(r['_extra'])}")
    return out


# ----------------------------------------------------------------------------- property monitor
def monitor(case: Case, out: list[str]):
    """The property sentence on the implementation's observations: a reference queue of the values whose
    write executed; read/peek must return its front, readiness/execution must follow emptiness/fullness,
    clear empties it even when a write executes in the same cycle."""
    depth = case.desc["depth"]
    basic = case.desc["cls"] == "basic"
    if out[0] != "ok":
        if basic and depth == 0:
            return None  # BasicFifo(depth=0) is rejected at elaboration (mod_add asserts mod > 0): outside the property
        return f"the component does not elaborate/simulate: {out[0]}"
    if case.desc.get("callers"):
        # several transactions call the same method: exclusivity first, then the property on the union of all callers
        fail, case, out = reduce_multi(case, out)
        if fail:
            return f"{case.desc['component']}: {fail}"
    # FIFO(fifo_type=SyncFIFOBuffered): the data clauses are checked in full; of the readiness clause only what the
    # unchanged code meets: ready => possible, executes iff attempted and ready, and "at most one cycle late".  The
    # full "iff" is the known finding F-c14-1 (replayed through its witness, desc clause=readiness-iff => strict).
    relaxed = case.desc["cls"] == "fifobuf" and case.desc.get("clause") != "readiness-iff"
    owe_r = owe_w = False
    q: deque = deque()
    for k, (line, obs) in enumerate(zip(case.ops, out[1:])):
        w, r, p, c = parse(line)
        f = fields(obs)
        wdone, rret = f["w"] == "1", optv(f["r"])
        pret = optv(f["p"]) if basic else None
        cdone = basic and f["c"] == "1"
        nonempty, nonfull = len(q) > 0, len(q) < depth
        if relaxed:
            rr, wr_ = f["rdy"][0] == "1", f["rdy"][1] == "1"
            if rr and not nonempty:
                return f"cycle {k}: read.ready=1 with no stored element"
            if wr_ and not nonfull:
                return f"cycle {k}: write.ready=1 with {len(q)}/{depth} stored elements"
            if (rret is not None) != (bool(r) and rr):
                return f"cycle {k}: read attempted={r} ready={int(rr)} executed={rret is not None}"
            if wdone != (w is not None and wr_):
                return f"cycle {k}: write attempted={w is not None} ready={int(wr_)} executed={wdone}"
            if owe_r and not rr:
                return f"cycle {k}: read not ready for the second cycle in a row with {len(q)} stored elements"
            if owe_w and not wr_:
                return f"cycle {k}: write not ready for the second cycle in a row with {len(q)}/{depth} stored elements"
            owe_r, owe_w = nonempty and not rr, nonfull and not wr_
            nonempty, nonfull = rr, wr_  # the strict checks below then only concern data
        if (rret is not None) != (bool(r) and nonempty):
            return f"cycle {k}: read attempted={r} executed={rret is not None} with {len(q)} stored elements"
        if wdone != (w is not None and nonfull):
            return f"cycle {k}: write attempted={w is not None} executed={wdone} with {len(q)}/{depth} stored elements"
        if basic:
            if (pret is not None) != (bool(p) and nonempty):
                return f"cycle {k}: peek attempted={p} executed={pret is not None} with {len(q)} stored elements"
            if cdone != bool(c):
                return f"cycle {k}: clear attempted={c} executed={cdone}"
            if f["rdy"] != str(int(nonempty)):
                return f"cycle {k}: peek.ready={f['rdy']} with {len(q)} stored elements"
            if int(f["lvl"]) != len(q):
                return f"cycle {k}: level={f['lvl']} but {len(q)} elements written and not yet read since the last clear"
        elif not relaxed:
            if f["rdy"] != f"{int(nonempty)}{int(nonfull)}":
                return f"cycle {k}: read.ready,write.ready={f['rdy']} with {len(q)}/{depth} stored elements"
        if rret is not None and rret != q[0]:
            return f"cycle {k}: read returned {rret}, oldest written element not yet read is {q[0]} (queue {list(q)})"
        if pret is not None and pret != q[0]:
            return f"cycle {k}: peek returned {pret}, oldest written element not yet read is {q[0]} (queue {list(q)})"
        if rret is not None:
            q.popleft()
        if wdone:
            q.append(w)
        if cdone:
            q.clear()
    return None


def nontrivial(case: Case, out: list[str]) -> bool:
    """full and empty both reached after traffic, or read and write executed in one cycle, or clear with a write"""
    depth = case.desc["depth"]
    if out[0] != "ok":
        return False
    if case.desc.get("callers"):
        return multi_nontrivial(case, out)
    seen_full = seen_empty_after = simul = clr_w = False
    n = 0
    for obs in out[1:]:
        f = fields(obs)
        wd, rd = f["w"] == "1", f["r"] != "-"
        cd = f.get("c") == "1"
        simul |= wd and rd
        clr_w |= cd and wd
        n = 0 if cd else n + wd - rd
        if n == depth and depth > 0:
            seen_full = True
        if seen_full and n == 0:
            seen_empty_after = True
    return seen_empty_after or simul or clr_w


# ----------------------------------------------------------------------------- cases
def _desc(cls: str, depth: int, widths) -> dict:
    d = {"component": "BasicFifo" if cls == "basic" else "FIFO", "cls": cls, "depth": depth, "layout": list(widths)}
    if cls != "basic":
        d["fifo_type"] = "SyncFIFOBuffered" if cls == "fifobuf" else "SyncFIFO"
    return d


def _mk(cls: str, depth: int, widths: tuple, cycs, tag: str) -> Case:
    width = sum(widths)
    short = cls != "basic"
    return Case(
        f"cfg cls={cls} depth={depth} w={width}",
        [fmt(c, short) for c in cycs],
        _desc(cls, depth, widths),
        tag,
    )


def _mk_multi(cls: str, depth: int, widths: tuple, lines: list[str], tag: str, callers: int = 2) -> Case:
    pw, pr = probe_orders(_sim(cls, depth, widths, callers), callers)
    return Case(
        f"cfg cls={cls} depth={depth} w={sum(widths)} callers={callers} pw={','.join(map(str, pw))} pr={','.join(map(str, pr))}",
        lines,
        {**_desc(cls, depth, widths), "callers": callers},
        tag,
    )


def gen_multi(ctx: Check, cls: str) -> list[Case]:
    """two independent transactions on each of write / read (/ peek) of the same component"""
    rng = ctx.rng("multi-" + cls)
    short = cls != "basic"
    cases = []
    for depth, lay in ctx.pick([(1, (4,)), (2, (8,)), (3, (4,))], [(1, (4,)), (2, (8,)), (3, (4,)), (4, (2,)), (5, (3, 5)), (8, (8,))]):
        width = sum(lay)
        cases.append(_mk_multi(cls, depth, lay, random_multi_ops(rng, ctx.pick(40, 300), width, 1.0, 1.0, 1.0, 0.05, short=short), "directed"))
        for reg in REGIMES[: ctx.pick(4, 7)]:
            cases.append(_mk_multi(cls, depth, lay, random_multi_ops(rng, ctx.pick(80, 800), width, *reg, short=short), "random"))
    return cases


def _configs(ctx: Check):
    rng = ctx.rng("cfg")
    layouts = [(1,), (2,), (4,), (8,), (3, 5), (1, 1, 2), (33,)]
    depths = ctx.pick(list(range(1, 10)), list(range(1, 18)) + [31, 32, 33])
    cfgs = []
    for d in depths:
        ls = [layouts[(d + k) % len(layouts)] for k in range(ctx.pick(1, 2))] + [rng.choice(layouts)]
        for lay in dict.fromkeys(ls):
            cfgs.append((d, lay))
    return cfgs


def gen_cases(ctx: Check, cls: str) -> list[Case]:
    rng = ctx.rng("gen-" + cls)
    cases = [c for c in load_corpus("C14") if c.desc.get("cls") == cls]
    cfgs = _configs(ctx)
    if cls == "fifo":
        cfgs = [(0, (4,))] + cfgs  # SyncFIFO accepts depth 0: nothing is ever ready
    elif cls == "fifobuf":
        # depth 0 (never ready), 1 (single register), >= 2 (inner memory + output register)
        cfgs = [(0, (4,))] + [c for c in cfgs if ctx.thorough or c[0] in (1, 2, 3, 4, 5, 8)]
    else:
        # excluded point of the theorems' hypothesis 0 < depth: the real code refuses to elaborate (model: same)
        cases.append(_mk(cls, 0, (4,), [(1, 1, 1, 0), (None, 0, 0, 1)], "directed"))
    strip = (lambda cyc: (cyc[0], cyc[1], 0, 0)) if cls != "basic" else (lambda cyc: cyc)
    for depth, lay in cfgs:
        width = sum(lay)
        if depth <= ctx.pick(9, 17):
            for seq in directed_ops(depth, width, rng, dense=ctx.thorough or depth <= 4):
                cases.append(_mk(cls, depth, lay, [strip(c) for c in seq], "directed"))
        n = ctx.pick(80, 400)
        for reg in REGIMES[: ctx.pick(4, 7)]:
            cases.append(_mk(cls, depth, lay, [strip(c) for c in random_ops(rng, n, width, *reg)], "random"))
    if ctx.thorough:
        for depth in (1, 2, 3):
            for L in range(1, (4 if depth <= 2 else 3) if cls == "basic" else 5):
                for seq in exhaustive_ops(L, (1, 2), with_pc=cls == "basic"):
                    # prefix: half-fill so that full and empty are both within reach
                    pre = [(3, 0, 0, 0)] * (depth // 2)
                    cases.append(_mk(cls, depth, (2,), pre + seq, "exhaustive"))
    return cases


def more_cases(case: Case, rng):
    d = case.desc
    cls, depth, lay = d["cls"], d["depth"], tuple(d["layout"])
    if d.get("callers"):
        for k in range(40):
            yield _mk_multi(cls, depth, lay, random_multi_ops(rng, 100, sum(lay), *REGIMES[k % len(REGIMES)], short=cls != "basic"), "search")
        return
    strip = (lambda cyc: (cyc[0], cyc[1], 0, 0)) if cls != "basic" else (lambda cyc: cyc)
    for k in range(40):
        reg = REGIMES[k % len(REGIMES)]
        yield _mk(cls, depth, lay, [strip(c) for c in random_ops(rng, 200, sum(lay), *reg)], "search")


def run(ctx: Check):
    ctx.rule = (
        "case = (class BasicFifo|FIFO, depth, layout, history of attempted write(data)/read/peek/clear per cycle); "
        "non-trivial = the history reaches full and then empty again, or executes read and write in one cycle, "
        "or executes clear together with a write; multi-caller cases (two transactions per method): non-trivial = two "
        "callers compete for a ready exclusive method"
    )
    ctx.proof_stage()
    ctx.replay_findings(replay_witness)
    procs = ctx.pick(1, 8)
    # one Lean driver process serves both classes (the cfg line of a case selects the model)
    cases = []
    for cls in ("basic", "fifo", "fifobuf"):
        cs = gen_cases(ctx, cls) + gen_multi(ctx, cls)
        ctx.count(f"configs_{cls}", len({c.cfg for c in cs}))
        cases += cs
    ctx.count("cases_multi_caller", sum(1 for c in cases if c.desc.get("callers")))
    lockstep(ctx, "basicfifo+fifo-syncfifo+fifo-syncfifobuffered", "C14", cases, impl, monitor, more_cases, nontrivial, procs=procs)
    ctx.note("BasicFifo.read/.write have constant ready=1 in the source; their effective readiness (through the allocator's "
             "alloc/free) is observed as done-when-attempted; peek.ready = allocator.free.ready is compared every cycle")


def replay_witness(w: dict):
    """witness of a known finding / repaired defect: a case (cfg, ops, desc) evaluated by the property monitor"""
    case = Case(w["cfg"], list(w["ops"]), w.get("desc", {}), "witness")
    return monitor(case, impl(case))


def replay(ctx: Check, body: dict):
    return replay_case(body, impl, monitor)
