"""C24 — ContentAddressableMemory behaves as a dictionary (transactron/lib/storage.py:211-310)."""

from __future__ import annotations

import itertools

import json

from ..common import CORPUS, Check
from ..lockstep import Case, lockstep
from ..simrun import CompSim

META = {
    "id": "C24",
    "design_ref": "DESIGN.md §7 C24",
    "technique": "Lean 4 refinement proof: hand-written slot-array model of ContentAddressableMemory (first-set-bit "
    "encoders) simulates a bounded dictionary (association list with capacity) under the invariant 'valid keys "
    "pairwise distinct'; lock-step correspondence of the model with the real component in pysim",
    "level_text": "c24_refines (every history that never pushes a present key: all results of read/write/remove/push "
    "equal those of the bounded dictionary), c24_read/c24_write_remove_push/c24_remove_wins/c24_push_ready (one-cycle "
    "laws incl. simultaneous calls, remove wins over write), c24_keys_distinct (invariant) are proved for every entry "
    "count; the model is tied to the code by cycle-exact comparison of done bits, results and push readiness for "
    "entry counts 1..9 (thorough: ..17) with all four methods attempted simultaneously; pushes of present keys "
    "(outside the hypothesis) are compared model-vs-implementation only",
    "level_note": "trusted: Lean kernel, axioms propext/Quot.sound/Classical.choice; Amaranth semantics and pysim; the "
    "harness glue. MultiPriorityEncoder(n,1) is modelled by its spec 'lowest set index' (its tree is C38's subject); "
    "keys and data are flattened to unsigned integers.",
}

_sims: dict[tuple, CompSim] = {}


METHODS = ["read", "remove", "push", "write"]


def _sim(d: dict) -> CompSim:
    two = d.get("callers") == 2
    key = (d["n"], d["kw"], d["dw"], two)
    if key not in _sims:
        from transactron.lib.storage import ContentAddressableMemory

        mk = lambda: ContentAddressableMemory([("a", d["kw"])], [("d", d["dw"])], d["n"])  # noqa: E731
        if not two:
            _sims[key] = CompSim(mk)
        else:
            from ..twocall_b5 import probe, wrap

            sim = CompSim(lambda: wrap(mk(), METHODS))
            both = {f"{m}_{c}[0]": (1 if c == "a" else 0) for m in METHODS for c in "ab"}
            sim.prio = probe(sim, [both, both], [(m, 0) for m in METHODS])
            _sims[key] = sim
    return _sims[key]


def parse_op(line: str) -> dict:
    t = dict(x.split("=") for x in line.split()[1:])
    out = {}
    for k in ("r", "x"):
        out[k] = None if t[k] == "-" else int(t[k])
    for k in ("w", "p"):
        out[k] = None if t[k] == "-" else tuple(int(y) for y in t[k].split(":"))
    return out


def fmt_op(r=None, w=None, x=None, p=None) -> str:
    f1 = lambda v: "-" if v is None else str(v)  # noqa: E731
    f2 = lambda v: "-" if v is None else f"{v[0]}:{v[1]}"  # noqa: E731
    return f"cyc r={f1(r)} w={f2(w)} x={f1(x)} p={f2(p)}"


def parse_two(line: str) -> dict:
    """tokens `ra= rb= wa= wb= xa= xb= pa= pb=` of a two-caller line"""
    t = dict(x.split("=") for x in line.split()[1:])
    out = {}
    for k in ("ra", "rb", "xa", "xb"):
        out[k] = None if t[k] == "-" else int(t[k])
    for k in ("wa", "wb", "pa", "pb"):
        out[k] = None if t[k] == "-" else tuple(int(y) for y in t[k].split(":"))
    return out


def impl2(case: Case) -> list[str]:
    """two callers per method on the real component; observations merged into the single-caller format, an
    `anomaly=` token is added when a method served both callers (or the one without priority) in one cycle"""
    from ..twocall_b5 import merge

    d = case.desc
    kw, dw = d["kw"], d["dw"]
    sim = _sim(d)
    ops, atts = [], []
    names = {"r": "read", "x": "remove", "w": "write", "p": "push"}
    for line in case.ops:
        o = parse_two(line)
        op = {}
        for k, m in names.items():
            for c in "ab":
                v = o[k + c]
                op[f"{m}_{c}[0]"] = None if v is None else (v if k in "rx" else v[0] | (v[1] << kw))
        ops.append(op)
        atts.append(o)
    tr = sim.run(ops, extra=lambda dut: [dut.inner.push.ready])
    out = ["ok"]
    for res, o in zip(tr, atts):
        got, anomalies = {}, []
        for k, m in names.items():
            got[k], an = merge(res, m, 0, o[k + "a"] is not None, o[k + "b"] is not None, sim.prio[(m, 0)])
            if an:
                anomalies.append(an)
        r = got["r"]
        rs = "-" if r is None else f"{r & ((1 << dw) - 1)}:{r >> dw}"
        ws = "-" if got["w"] is None else str(got["w"])
        xs = "-" if got["x"] is None else "1"
        ps = "-" if got["p"] is None else "1"
        line = f"r={rs} w={ws} x={xs} p={ps} rdy={res['_extra'][0]}"
        out.append(line + (f" anomaly={'+'.join(anomalies)}" if anomalies else ""))
    return out


def two_line(rng, line: str, d: dict, prio: dict) -> str:
    """distribute the attempted calls of an effective single-caller line over two callers (twocall_b5.split)"""
    from ..twocall_b5 import split

    o = parse_op(line)
    kmax, dmax = (1 << d["kw"]) - 1, (1 << d["dw"]) - 1
    junk = {
        "r": rng.randint(0, kmax),
        "x": rng.randint(0, kmax),
        "w": (rng.randint(0, kmax), rng.randint(0, dmax)),
        "p": (rng.randint(0, kmax), rng.randint(0, dmax)),
    }
    names = {"r": "read", "x": "remove", "w": "write", "p": "push"}
    f1 = lambda v: "-" if v is None else str(v)  # noqa: E731
    f2 = lambda v: "-" if v is None else f"{v[0]}:{v[1]}"  # noqa: E731
    toks = []
    for k, m in names.items():
        a, b = split(rng, o[k], junk[k], prio[(m, 0)])
        f = f1 if k in "rx" else f2
        toks.append(f"{k}a={f(a)} {k}b={f(b)}")
    return line + " " + " ".join(toks)


def impl(case: Case) -> list[str]:
    d = case.desc
    if d.get("callers") == 2:
        return impl2(case)
    kw, dw = d["kw"], d["dw"]
    sim = _sim(d)
    ops = []
    for line in case.ops:
        o = parse_op(line)
        ops.append(
            {
                "read": o["r"],
                "remove": o["x"],
                "write": None if o["w"] is None else o["w"][0] | (o["w"][1] << kw),
                "push": None if o["p"] is None else o["p"][0] | (o["p"][1] << kw),
            }
        )
    tr = sim.run(ops, extra=lambda dut: [dut.push.ready])
    out = ["ok"]
    for res in tr:
        r = res[("read",)]
        rs = "-" if r is None else f"{r & ((1 << dw) - 1)}:{r >> dw}"
        w = res[("write",)]
        ws = "-" if w is None else str(w)
        xs = "-" if res[("remove",)] is None else "1"
        ps = "-" if res[("push",)] is None else "1"
        out.append(f"r={rs} w={ws} x={xs} p={ps} rdy={res['_extra'][0]}")
    return out


def monitor(case: Case, out: list[str]):
    """The property sentence with a Python dict as the dictionary, on the implementation's observations only."""
    n = case.desc["n"]
    D: dict[int, int] = {}
    for c, (line, o) in enumerate(zip(case.ops, out[1:])):
        i = parse_op(line)
        f = dict(x.split("=") for x in o.split())
        if "anomaly" in f:
            return f"cycle {c}: {f['anomaly']} (two callers of one exclusive method served in one cycle)"
        free = len(D) < n
        if f["rdy"] != str(int(free)):
            return f"cycle {c}: push ready={f['rdy']} with {len(D)} of {n} entries used"
        if i["p"] is not None and free and i["p"][0] in D:
            return None  # pushes a present key: outside the property's hypothesis from here on
        if i["r"] is None:
            if f["r"] != "-":
                return f"cycle {c}: read executed without being called"
        else:
            if f["r"] == "-":
                return f"cycle {c}: read did not execute (always ready)"
            data, nf = (int(v) for v in f["r"].split(":"))
            k = i["r"]
            if nf != int(k not in D):
                return f"cycle {c}: read key={k} not_found={nf}, dictionary has it: {k in D}"
            if k in D and data != D[k]:
                return f"cycle {c}: read key={k} returned {data}, stored {D[k]}"
        if i["w"] is None:
            if f["w"] != "-":
                return f"cycle {c}: write executed without being called"
        else:
            if f["w"] == "-":
                return f"cycle {c}: write did not execute (always ready)"
            if int(f["w"]) != int(i["w"][0] not in D):
                return f"cycle {c}: write key={i['w'][0]} not_found={f['w']}, dictionary has it: {i['w'][0] in D}"
        if (f["x"] == "1") != (i["x"] is not None):
            return f"cycle {c}: remove attempted={i['x'] is not None} executed={f['x']}"
        if (f["p"] == "1") != (i["p"] is not None and free):
            return f"cycle {c}: push attempted={i['p'] is not None} executed={f['p']} with {len(D)} of {n} entries used"
        # all four observed the pre-state; remove wins over write on the same key
        if i["w"] is not None and i["w"][0] in D:
            D[i["w"][0]] = i["w"][1]
        if i["x"] is not None:
            D.pop(i["x"], None)
        if i["p"] is not None and free:
            D[i["p"][0]] = i["p"][1]
    return None


def _monitor(case: Case, out: list[str]):
    return None if case.tag == "malformed" else monitor(case, out)


def _desc(n, kw, dw) -> dict:
    return {"component": "ContentAddressableMemory", "n": n, "kw": kw, "dw": dw}


def gen_ops(rng, d: dict, cycles: int, pr: dict, wellformed: bool = True) -> list[str]:
    n, kw, dw = d["n"], d["kw"], d["dw"]
    nkeys = min(1 << kw, max(2, n + rng.choice([0, 1, 2, 3])))
    keys = rng.sample(range(1 << kw), nkeys)
    D: dict[int, int] = {}
    ops = []
    for _ in range(cycles):
        present = list(D)

        def pick_key(p_present=0.7):
            if present and rng.random() < p_present:
                return rng.choice(present)
            return rng.choice(keys)

        r = pick_key() if rng.random() < pr["r"] else None
        w = (pick_key(), rng.getrandbits(dw)) if rng.random() < pr["w"] else None
        x = pick_key() if rng.random() < pr["x"] else None
        if x is not None and w is not None and rng.random() < 0.3:
            x = w[0]  # remove and write on the same key
        p = None
        if rng.random() < pr["p"]:
            absent = [k for k in keys if k not in D]
            if wellformed:
                if absent:
                    p = (rng.choice(absent), rng.getrandbits(dw))
                    if x is None and rng.random() < 0.1:
                        x = p[0]  # remove of the (absent) key being pushed: no effect
            else:
                p = (rng.choice(keys), rng.getrandbits(dw))
        ops.append(fmt_op(r, w, x, p))
        free = len(D) < n
        if w is not None and w[0] in D:
            D[w[0]] = w[1]
        if x is not None:
            D.pop(x, None)
        if p is not None and free:
            D[p[0]] = p[1]
    return ops


REGIMES = [
    {"r": 0.8, "w": 0.5, "x": 0.2, "p": 0.8},  # fills up
    {"r": 0.8, "w": 0.5, "x": 0.6, "p": 0.3},  # drains
    {"r": 1.0, "w": 1.0, "x": 1.0, "p": 1.0},  # everything every cycle
    {"r": 0.5, "w": 0.3, "x": 0.4, "p": 0.5},
]


def gen_cases(ctx: Check):
    rng = ctx.rng("gen")
    good, malformed = [], []
    cyc = ctx.pick(120, 1500)
    ns = ctx.pick([1, 2, 3, 4, 5, 6, 7, 8, 9], list(range(1, 18)))
    for n in ns:
        shapes = {(max(1, n.bit_length()), 4), (rng.choice([2, 3, 4, 5]), rng.choice([1, 3, 8])), (8, 8)}
        for kw, dw in sorted(shapes):
            d = _desc(n, kw, dw)
            cfg = f"cfg n={n}"
            # directed: fill beyond capacity, read all, overwrite, remove+write same key, refill
            ks = list(range(min(1 << kw, n + 1)))
            ops = [fmt_op(r=k, p=(k, (k * 5 + 1) % (1 << dw))) for k in ks]
            ops += [fmt_op(r=k, w=(k, (k + 3) % (1 << dw))) for k in ks]
            ops += [fmt_op(r=k) for k in ks]
            ops += [fmt_op(r=k, w=(k, 1), x=k) for k in ks[: max(1, len(ks) // 2)]]
            ops += [fmt_op(r=k, x=k, p=(k, 2 % (1 << dw))) for k in ks[: max(1, len(ks) // 2)]]
            ops += [fmt_op(r=k) for k in ks]
            good.append(Case(cfg, ops, d, "directed"))
            for pr in REGIMES:
                good.append(Case(cfg, gen_ops(rng, d, cyc, pr), d, "random"))
            malformed.append(Case(cfg, gen_ops(rng, d, cyc // 2, REGIMES[0], wellformed=False), d, "malformed"))
    # two callers per method: an exclusive method serves at most one of them per cycle; the union of the executed
    # calls is the single-caller history the property (and the model) talks about
    for n in ctx.pick([1, 2, 3, 5], [1, 2, 3, 4, 5, 8]):
        d = dict(_desc(n, max(2, n.bit_length()), 4), callers=2)
        prio = _sim(d).prio
        for pr in (REGIMES[2], REGIMES[0], REGIMES[1]):
            eff = gen_ops(rng, d, cyc, pr)
            good.append(Case(f"cfg n={n}", [two_line(rng, ln, d, prio) for ln in eff], d, "two-callers"))
    if ctx.thorough:
        # all well-formed-or-not histories of length <= 3 over 2 keys, 1-bit data, n in {1,2}; the monitor
        # itself stops judging at the first push of a present key
        for n in (1, 2):
            d = _desc(n, 1, 1)
            one = [None, 0, 1]
            two = [None, (0, 0), (0, 1), (1, 0), (1, 1)]
            alpha = [fmt_op(r, w, x, p) for r in one for w in two for x in one for p in two]
            for L in (1, 2):
                for seq in itertools.product(alpha, repeat=L):
                    good.append(Case(f"cfg n={n}", list(seq), d, "exhaustive"))
            rr = ctx.rng("ex3")
            for _ in range(10000):
                good.append(Case(f"cfg n={n}", [rr.choice(alpha) for _ in range(3)], d, "exhaustive-sample"))
    return good, malformed


def _corpus() -> list[Case]:
    """directed cases and minimised past failures (mutation runs), run first on every invocation"""
    out = []
    for f in sorted((CORPUS / "C24").glob("*.json")):
        body = json.loads(f.read_text())
        out.append(Case(body["cfg"], list(body["ops"]), body["desc"], "corpus"))
    return out


def more_cases(case: Case, rng):
    d = case.desc
    for _ in range(40):
        ops = gen_ops(rng, d, 200, rng.choice(REGIMES))
        if d.get("callers") == 2:
            ops = [two_line(rng, ln, d, _sim(d).prio) for ln in ops]
        yield Case(case.cfg, ops, d, "search")


def nontrivial(case: Case, out: list[str]) -> bool:
    """push blocked by a full memory at least once, and remove+write on one present key in one cycle"""
    full = any(o.endswith("rdy=0") for o in out[1:])
    both = False
    for line, o in zip(case.ops, out[1:]):
        i = parse_op(line)
        if i["w"] is not None and i["x"] is not None and i["w"][0] == i["x"] and " w=0 " in o:
            both = True
    return full and both


def run(ctx: Check):
    ctx.rule = (
        "cases = (entry count, key width, data width; history of simultaneously attempted read/write/remove/push "
        "that never pushes a present key, keys drawn from a pool slightly larger than the capacity); non-trivial = "
        "push blocked by a full memory at least once and remove+write hit the same present key in one cycle"
    )
    ctx.proof_stage()
    good, malformed = gen_cases(ctx)
    good = _corpus() + good
    for c in good:
        ctx.count(f"entries_{c.desc['n']}")
    # one batch: histories pushing present keys (tag "malformed", outside the hypothesis) are compared
    # model-vs-implementation only, the monitor does not judge them
    lockstep(ctx, "cam", "C24", good + malformed, impl, _monitor, more_cases, nontrivial, procs=ctx.pick(1, None))
    ctx.note("pushes of keys already present (outside the property's hypothesis) are compared model-vs-implementation only")


def replay(ctx: Check, body: dict):
    from ..lockstep import replay_case

    return replay_case(body, impl, monitor)
