"""C09 — round-robin transaction scheduler (transactron/core/schedulers.py:47-77 on top of
OneHotRoundRobin, transactron/utils/amaranth_ext/elaboratables.py:139-192).

Real designs are generated (transactions and exclusive methods with fresh `ready` inputs, nested
method calls, explicit conflicts), elaborated with the REAL
`TransactionManager(cc_scheduler=trivial_roundrobin_cc_scheduler)`, and driven cycle by cycle in
pysim.  The conflict graph and the components are read from what the manager hands to the scheduler;
the arbiter index order of every component (iteration order of a Python set) is discovered by a
probing prefix from reset.  The Lean model gets the same partition and the same input histories.
"""

from __future__ import annotations

import json
import warnings

from ..common import Check
from ..lockstep import Case, lockstep

warnings.filterwarnings("ignore")

META = {
    "id": "C09",
    "design_ref": "DESIGN.md §6 C09, §9 C39, Appendix D",
    "technique": "Lean 4 theorems over a step model of one OneHotRoundRobin arbiter per conflict component "
    "(per-component projection of the system onto the C39 arbiter model, fairness by the strictly decreasing "
    "cyclic distance of C39, induction over the history); cycle-exact lock-step correspondence with real generated "
    "designs elaborated by the real TransactionManager(trivial_roundrobin_cc_scheduler) in pysim",
    "level_text": "c09_one/c09_one_count (at most one run per component), c09_sub (run implies ready and runnable), "
    "c09_some (an enabled member implies a running member), c09_fair (a transaction enabled for |cc| consecutive "
    "cycles runs in one of them), c09_no_conflict_joint_run (conflicting transactions never run together when "
    "conflict edges are intra-component), c09_reach (the quantified states are closed under steps and contain "
    "reset) are proved for every partition into components, every arbiter index order, every state with register "
    "index < component size and every request history; the model is tied to the code by comparing ready, runnable, "
    "run of every transaction and the index granted by every arbiter in every cycle, for generated designs with "
    "1..8 transactions, 0..5 methods (thorough: up to 10 / 6), components of size 1..8, random and adversarial "
    "input histories; the partition validity / edges-intra-component / connectivity checks are evaluated by the "
    "Lean driver on the real cgr and ccs of every design",
    "level_note": "trusted: Lean kernel, axioms propext/Quot.sound; Amaranth semantics and pysim; harness glue "
    "(design generator, extraction of cgr/ccs/methods_by_transaction from the scheduler's arguments, probing of "
    "the set iteration order). Modelled not verified: runnable = body ready and all called method bodies ready "
    "(manager.py:539-548 without ready dependencies and validators; that is C01/C02's subject, here it is compared "
    "every cycle). 'Fully enabled' is read as ready and runnable. Designs with ready dependencies inside a "
    "component are outside the property and not generated.",
}

MAX_REPORTED_REJECTS = 2

# --------------------------------------------------------------------------- design description
# design = {"n": int, "k": int, "tcalls": [[m,...] per transaction], "mcalls": [[m,...] per method],
#           "tconf": [[a,b],...], "mconf": [[m1,m2],...]}


def closure(design: dict) -> list[list[int]]:
    """Per transaction the sorted list of methods reached (independent re-computation used by the monitor)."""
    out = []
    for t in range(design["n"]):
        seen: list[int] = []
        stack = list(design["tcalls"][t])
        while stack:
            m = stack.pop()
            seen.append(m)
            stack.extend(design["mcalls"][m])
        out.append(seen)
    return out


def _paths_unique(design: dict) -> bool:
    """An exclusive method may be reached at most once from any root (transaction or method)."""

    def reach(calls):
        seen: list[int] = []
        stack = list(calls)
        while stack:
            m = stack.pop()
            seen.append(m)
            stack.extend(design["mcalls"][m])
        return len(seen) == len(set(seen))

    return all(reach(c) for c in design["tcalls"]) and all(reach(c) for c in design["mcalls"])


def conflict_components(design: dict) -> tuple[set, list[list[int]]]:
    """The monitor's own conflict graph and its connected components (plain union-find)."""
    clo = [set(c) for c in closure(design)]
    n = design["n"]
    edges = set()
    for a in range(n):
        for b in range(a + 1, n):
            if clo[a] & clo[b]:
                edges.add((a, b))
            for x, y in design["tconf"]:
                if {x, y} == {a, b}:
                    edges.add((a, b))
            for m1, m2 in design["mconf"]:
                if (m1 in clo[a] and m2 in clo[b]) or (m2 in clo[a] and m1 in clo[b]):
                    edges.add((a, b))
    parent = list(range(n))

    def find(x):
        while parent[x] != x:
            parent[x] = parent[parent[x]]
            x = parent[x]
        return x

    for a, b in edges:
        parent[find(a)] = find(b)
    comps: dict[int, list[int]] = {}
    for t in range(n):
        comps.setdefault(find(t), []).append(t)
    return edges, sorted(comps.values())


# --------------------------------------------------------------------------- the real design in pysim


class _Built:
    """One elaboration of a generated design with the real manager and the real round-robin scheduler."""

    def __init__(self, design: dict, pin: list[list[int]] | None = None):
        from amaranth import Cat, Elaboratable, Fragment, Module, Signal
        from amaranth.sim import Simulator
        from transactron import Method, TModule, Transaction, def_method
        from transactron.core import TransactionManager, TransactronContextElaboratable
        from transactron.core import schedulers
        from transactron.utils.amaranth_ext.elaboratables import OneHotRoundRobin
        from transactron.utils.dependencies import DependencyContext, DependencyManager

        n, k = design["n"], design["k"]
        self.design = design

        class Dut(Elaboratable):
            def __init__(d):
                d.tready = [Signal(name=f"tready{i}") for i in range(n)]
                d.mready = [Signal(name=f"mready{j}") for j in range(k)]

            def elaborate(d, platform):
                m = TModule()
                d.methods = [Method(name=f"m{j}") for j in range(k)]
                d.trans = [Transaction(name=f"t{i}") for i in range(n)]

                def define(j):
                    @def_method(m, d.methods[j], ready=d.mready[j])
                    def _():
                        for c in design["mcalls"][j]:
                            d.methods[c](m)

                for j in range(k):
                    define(j)

                for i, t in enumerate(d.trans):
                    with t.body(m, ready=d.tready[i]):
                        for c in design["tcalls"][i]:
                            d.methods[c](m)
                for a, b in design["tconf"]:
                    d.trans[a].add_conflict(d.trans[b])
                for a, b in design["mconf"]:
                    d.methods[a].add_conflict(d.methods[b])
                return m

        dut = Dut()
        rec: list = []
        tid: dict = {}
        mid: dict = {}

        def scheduler(method_map, gr, cc, porder):
            # the real scheduler on the real arguments; only recorded.  For replays (`pin`) the iteration
            # order of the set `cc` is fixed to the order stored in the replay file.
            if not tid:
                tid.update({id(t._body): i for i, t in enumerate(dut.trans)})
                mid.update({id(m._body): j for j, m in enumerate(dut.methods)})
            members = sorted(tid[id(b)] for b in cc)
            arg = cc
            if pin is not None:
                p = next((o for o in pin if sorted(o) == members), None)
                if p is not None:
                    by_id = {tid[id(b)]: b for b in cc}
                    arg = [by_id[i] for i in p]
            mod = schedulers.trivial_roundrobin_cc_scheduler(method_map, gr, arg, porder)
            rec.append({"mm": method_map, "gr": gr, "iter": [tid[id(b)] for b in arg], "mod": mod})
            return mod

        dm = DependencyManager()
        with DependencyContext(dm):
            top = TransactronContextElaboratable(dut, dependency_manager=dm, transaction_manager=TransactionManager(scheduler))
            frag = Fragment.get(top, None)
        bodies = [t._body for t in dut.trans]
        # what the manager computed and handed to the scheduler
        mm, gr = rec[0]["mm"], rec[0]["gr"]
        self.calls = [sorted(mid[id(b)] for b in mm.methods_by_transaction[bodies[i]]) for i in range(n)]
        self.edges = sorted({tuple(sorted((tid[id(a)], tid[id(b)]))) for a, bs in gr.items() for b in bs})
        self.iter_orders = [r["iter"] for r in rec]
        # the arbiters, if they can be found inside the modules the scheduler returned
        self.rrs = []
        for r in rec:
            subs = [s for s, _ in getattr(r["mod"], "_named_submodules", {}).values()]
            subs += [s for s, _ in getattr(r["mod"], "_anon_submodules", [])]
            found = [s for s in subs if isinstance(s, OneHotRoundRobin)]
            self.rrs.append(found[0] if len(found) == 1 else None)
        self.gobs = all(x is not None for x in self.rrs)
        m = Module()
        m.submodules.design = frag
        self.bus = Signal(max(n + k, 1), name="inbus")
        for i, s in enumerate(dut.tready + dut.mready):
            m.d.comb += s.eq(self.bus[i])
        sigs = [b.run for b in bodies] + [b.ready for b in bodies] + [b.runnable for b in bodies]
        self.gw = []
        if self.gobs:
            for rr in self.rrs:
                sigs += [rr.grant, rr.valid]
                self.gw.append(len(rr.grant))
        self.obs = Signal(sum(len(s) for s in sigs), name="obsbus")
        m.d.comb += self.obs.eq(Cat(*sigs))
        self.sim = Simulator(m)
        self.sim.add_clock(1e-6)
        self.first = True
        self.job = None
        self.n, self.k = n, k
        self.orders = self._probe()

    async def _tb(self, ctx):
        inputs, out = self.job
        for v in inputs:
            ctx.set(self.bus, v)
            _, _, o = await ctx.tick().sample(self.obs)
            out.append(int(o))

    def raw(self, inputs: list[int]) -> list[int]:
        out: list[int] = []
        self.job = (inputs, out)
        if self.first:
            self.sim.add_testbench(self._tb)
            self.first = False
        else:
            self.sim.reset()
        self.sim.run()
        return out

    def unpack(self, o: int):
        n = self.n
        bit = lambda x, i: (x >> i) & 1  # noqa: E731
        run = [bit(o, i) for i in range(n)]
        rdy = [bit(o, n + i) for i in range(n)]
        rbl = [bit(o, 2 * n + i) for i in range(n)]
        pos = 3 * n
        gs = []
        for w in self.gw:
            g = (o >> pos) & ((1 << w) - 1)
            v = bit(o, pos + w)
            pos += w + 1
            gs.append((g, v))
        return run, rdy, rbl, gs

    def _probe(self) -> list[list[int]]:
        """Arbiter index order of every component: from reset with everything enabled the arbiter grants
        index 1, 2, …, len-1, 0 (priority starts after the register, which resets to index 0)."""
        L = max(len(o) for o in self.iter_orders)
        obs = [self.unpack(o)[0] for o in self.raw([(1 << (self.n + self.k)) - 1] * L)]
        orders = []
        self.probe_failed = False
        for it in self.iter_orders:
            sz = len(it)
            seq = []
            for c in range(sz):
                running = [t for t in it if obs[c][t]]
                seq.append(running[0] if len(running) == 1 else None)
            order = [seq[(i - 1) % sz] for i in range(sz)]
            if None in order or sorted(order) != sorted(it):
                self.probe_failed = True  # the arbiter does not rotate: fall back to the iteration order
                order = list(it)
            orders.append(order)
        return orders

    def cfg(self) -> str:
        ls = lambda ll: ";".join(",".join(map(str, x)) if x else "-" for x in ll) if ll else "*"  # noqa: E731
        return (f"cfg n={self.n} k={self.k} calls={ls(self.calls)} edges={ls([list(e) for e in self.edges])} "
                f"ccs={ls(self.orders)} gobs={int(self.gobs)}")

    def run(self, inputs: list[int]) -> list[str]:
        out = []
        for o in self.raw(inputs):
            run, rdy, rbl, gs = self.unpack(o)
            s = lambda b: "".join(map(str, b))  # noqa: E731
            line = f"rdy={s(rdy)} rbl={s(rbl)} run={s(run)}"
            if self.gobs:
                idx = [str(g.bit_length() - 1) if g and not g & (g - 1) else f"x{g}" for g, _ in gs]
                line += " g=" + ";".join(idx)
            out.append(line)
        return out


_built: dict[str, _Built] = {}  # cfg line -> elaborated design (the cfg line carries the arbiter orders)


def _parse_cfg(cfg: str) -> dict:
    f = dict(x.split("=") for x in cfg.split()[1:])
    ll = lambda v: [] if v == "*" else [[] if x == "-" else [int(y) for y in x.split(",")] for x in v.split(";")]  # noqa: E731
    return {"n": int(f["n"]), "k": int(f["k"]), "ccs": ll(f["ccs"]), "edges": ll(f["edges"]), "calls": ll(f["calls"])}


def _get_built(case: Case) -> _Built:
    b = _built.get(case.cfg)
    if b is None:  # replay in a fresh process: re-elaborate with the recorded set iteration order
        b = _Built(case.desc["design"], pin=_parse_cfg(case.cfg)["ccs"])
        _built[case.cfg] = b
    return b


def _inputs(case: Case) -> list[int]:
    n = case.desc["design"]["n"]
    out = []
    for op in case.ops:
        f = dict(x.split("=") for x in op.split()[1:])
        out.append(int(f["tr"]) | (int(f["mr"]) << n))
    return out


def impl(case: Case) -> list[str]:
    try:
        b = _get_built(case)
        return ["ok", *b.run(_inputs(case))]
    except Exception as e:  # noqa: BLE001 - an exception of the real code is an observation
        return [f"raise {type(e).__name__}", *[f"raise {type(e).__name__}"] * len(case.ops)]


# --------------------------------------------------------------------------- property monitor


def monitor(case: Case, out: list[str]):
    """The property sentences on the implementation's observations; conflict components are recomputed
    from the design description, not taken from the manager."""
    design = case.desc["design"]
    if out[0] != "ok":
        return f"the real manager/scheduler could not build or simulate a well-formed design: {out[0]}"
    n = design["n"]
    _, comps = conflict_components(design)
    comp_of = {t: c for c in comps for t in c}
    streak = [0] * n  # consecutive cycles a transaction has been fully enabled without running
    for cyc, o in enumerate(out[1:]):
        f = dict(x.split("=") for x in o.split())
        run = [int(c) for c in f["run"]]
        en = [int(a) & int(b) for a, b in zip(f["rdy"], f["rbl"])]  # fully enabled = ready and runnable
        for c in comps:
            running = [t for t in c if run[t]]
            if len(running) > 1:
                return f"cycle {cyc}: transactions {running} of conflict component {c} run together"
            if any(en[t] for t in c) and not running:
                return (f"cycle {cyc}: transactions {[t for t in c if en[t]]} of component {c} are fully enabled "
                        f"but none of the component runs")
        for t in range(n):
            if run[t] and not en[t]:
                return f"cycle {cyc}: transaction {t} runs although it is not fully enabled (ready={f['rdy'][t]} runnable={f['rbl'][t]})"
            if en[t]:
                streak[t] = 0 if run[t] else streak[t] + 1
                if streak[t] >= len(comp_of[t]):
                    return (f"cycle {cyc}: transaction {t} has been fully enabled for {streak[t]} consecutive cycles "
                            f"without running; its component {comp_of[t]} has {len(comp_of[t])} transactions")
            else:
                streak[t] = 0
    return None


# --------------------------------------------------------------------------- generators


def gen_design(rng, nmax: int, kmax: int) -> dict:
    while True:
        n = rng.randint(1, nmax)
        k = rng.randint(0, kmax)
        style = rng.choice(["sparse", "sparse", "dense", "chain", "free"])
        pm = {"sparse": 0.25, "dense": 0.5, "chain": 0.0, "free": 0.1}[style]
        mcalls = [[c for c in range(j + 1, k) if rng.random() < 0.2] for j in range(k)]
        if style == "chain" and k:
            tcalls = [sorted({i % k, (i + 1) % k} if rng.random() < 0.7 else {i % k}) for i in range(n)]
            mcalls = [[] for _ in range(k)]
        else:
            tcalls = [[c for c in range(k) if rng.random() < pm] for _ in range(n)]
        tconf = []
        for _ in range(rng.choice([0, 0, 1, 2, 3])):
            if n >= 2:
                a, b = rng.sample(range(n), 2)
                if [a, b] not in tconf and [b, a] not in tconf:
                    tconf.append([a, b])
        d = {"n": n, "k": k, "tcalls": tcalls, "mcalls": mcalls, "tconf": tconf, "mconf": []}
        if not _paths_unique(d):
            continue
        clo = closure(d)
        for _ in range(rng.choice([0, 0, 1])):
            if k >= 2:
                a, b = rng.sample(range(k), 2)
                reach = lambda root: set(closure({**d, "n": 1, "tcalls": [[root]]})[0])  # noqa: E731
                # both sides reached from one root (transaction or method) would be rejected by the manager
                roots = clo + [sorted(reach(j)) for j in range(k)]
                if not any(a in c and b in c for c in roots):
                    d["mconf"].append([a, b])
        return d


def _mk(ctx: Check, design: dict, hist_of, tag: str):
    """Elaborate the design (once), then build the case; `hist_of(built, comps)` returns [(tr, mr)]."""
    key = json.dumps(design, sort_keys=True)
    try:
        b = _by_design.get(key)
        if b is None:
            b = _Built(design)
            _by_design[key] = b
            _built[b.cfg()] = b
    except Exception as e:  # noqa: BLE001
        _rejects.append((design, f"{type(e).__name__}: {e}"))
        return None
    hist = hist_of(b)
    desc = {"component": "trivial_roundrobin_cc_scheduler", "design": design,
            "sizes": sorted(len(o) for o in b.orders)}
    return Case(b.cfg(), [f"cyc tr={tr} mr={mr}" for tr, mr in hist], desc, tag)


_by_design: dict[str, _Built] = {}
_rejects: list = []


def history(rng, b: _Built, length: int, style: str) -> list[tuple[int, int]]:
    n, k = b.n, b.k
    tf, mf = (1 << n) - 1, (1 << k) - 1
    clo = b.calls

    def rbits(w, p):
        return sum(1 << i for i in range(w) if rng.random() < p)

    out: list[tuple[int, int]] = []
    if style == "all":  # pure rotation: the fairness bound is attained
        return [(tf, mf)] * length
    if style == "uniform":
        p, q = rng.choice([(0.5, 0.8), (0.8, 0.9), (0.95, 0.95), (0.3, 0.6)])
        return [(rbits(n, p), rbits(k, q)) for _ in range(length)]
    if style == "methods":  # transactions always ready, method readiness toggles
        return [(tf, rbits(k, 0.7)) for _ in range(length)]
    if style == "sparse":
        return [rng.choice([(0, mf), (tf, 0), (1 << rng.randrange(n), mf), (rbits(n, 0.5), mf), (0, 0)]) for _ in range(length)]
    if style == "victim":  # one transaction stays fully enabled for a window; the others come and go / all push
        while len(out) < length:
            v = rng.randrange(n)
            keep_t = 1 << v
            keep_m = sum(1 << j for j in clo[v])
            mode = rng.choice(["push", "rand", "dense"])
            for _ in range(rng.randrange(2, 2 * n + 3)):
                if mode == "push":
                    out.append((tf, mf))
                elif mode == "rand":
                    out.append((keep_t | rbits(n, 0.5), keep_m | rbits(k, 0.6)))
                else:
                    out.append((keep_t | (tf & ~rbits(n, 0.15)), keep_m | (mf & ~rbits(k, 0.1))))
            for _ in range(rng.randrange(0, 3)):
                out.append((rbits(n, 0.5) & ~keep_t, rbits(k, 0.7)))
        return out[:length]
    if style == "chase":  # adversary: besides the victim, only the arbiter input just after the last granted
        # position requests — walks the register around the component as slowly as the arbiter allows
        for comp in b.orders:
            if len(out) >= length:
                break
            for v in range(len(comp)):
                g = 0
                for _ in range(len(comp) + 1):
                    nxt = (g + 1) % len(comp)
                    ts = {comp[v], comp[nxt]}
                    out.append((sum(1 << t for t in ts), mf))
                    g = nxt
                out.append((0, 0))
        return out[: max(length, 1)] or [(0, 0)]
    raise ValueError(style)


STYLES = ["all", "uniform", "methods", "sparse", "victim", "chase"]


def directed_designs() -> list[dict]:
    ds = []
    # the circuit of test/core/test_transactions.py::TestTransactionConflict: two transactions, one method
    ds.append({"n": 2, "k": 1, "tcalls": [[0], [0]], "mcalls": [[]], "tconf": [], "mconf": []})
    # a single component of 6 through one method; a path component of 5 through explicit conflicts
    ds.append({"n": 6, "k": 1, "tcalls": [[0]] * 6, "mcalls": [[]], "tconf": [], "mconf": []})
    ds.append({"n": 5, "k": 0, "tcalls": [[]] * 5, "mcalls": [], "tconf": [[0, 1], [1, 2], [2, 3], [3, 4]], "mconf": []})
    # all conflict-free
    ds.append({"n": 4, "k": 2, "tcalls": [[0], [1], [], []], "mcalls": [[], []], "tconf": [], "mconf": []})
    # nested calls: t0 -> m0 -> m2, t1 -> m1 -> m2 (conflict through the shared callee), t2 free, t3/t4 by method conflict
    ds.append({"n": 5, "k": 5, "tcalls": [[0], [1], [], [3], [4]], "mcalls": [[2], [2], [], [], []], "tconf": [],
               "mconf": [[3, 4]]})
    # components of sizes 3, 2, 1, 1 with a star and a chain
    ds.append({"n": 7, "k": 3, "tcalls": [[0], [0], [0, 1], [2], [2], [], []], "mcalls": [[], [], []], "tconf": [], "mconf": []})
    ds.append({"n": 8, "k": 2, "tcalls": [[0], [0], [0], [0], [1], [1], [1], [1]], "mcalls": [[], []], "tconf": [[0, 4]], "mconf": []})
    return ds


def gen_cases(ctx: Check) -> list[Case]:
    rng = ctx.rng("gen")
    cases: list[Case] = []
    length = ctx.pick(100, 300)

    def add(design, tag, styles):
        for st in styles:
            c = _mk(ctx, design, lambda b, st=st: history(rng, b, length if st != "all" else 3 * design["n"] + 2, st), tag)
            if c is not None:
                cases.append(c)
                ctx.count(f"style_{st}")

    for d in directed_designs():
        add(d, "directed", STYLES)
    ndes = ctx.pick(32, 400)
    nmax, kmax = ctx.pick((8, 5), (10, 6))
    for _ in range(ndes):
        d = gen_design(rng, nmax, kmax)
        add(d, "random", ["all", "victim", rng.choice(["uniform", "methods", "sparse", "chase"])])
    if ctx.thorough:
        import itertools

        # exhaustive: every input history of length <= 3 (then two all-enabled cycles) for three tiny designs
        tiny = [
            {"n": 2, "k": 1, "tcalls": [[0], [0]], "mcalls": [[]], "tconf": [], "mconf": []},
            {"n": 3, "k": 0, "tcalls": [[], [], []], "mcalls": [], "tconf": [[0, 1], [1, 2]], "mconf": []},
            {"n": 3, "k": 1, "tcalls": [[0], [0], []], "mcalls": [[]], "tconf": [], "mconf": []},
        ]
        for d in tiny:
            bits = d["n"] + d["k"]
            for L in (1, 2, 3):
                for seq in itertools.product(range(1 << bits), repeat=L):
                    h = [(x & ((1 << d["n"]) - 1), x >> d["n"]) for x in seq] + [((1 << d["n"]) - 1, (1 << d["k"]) - 1)] * 2
                    c = _mk(ctx, d, lambda b, h=h: h, "exhaustive")
                    if c is not None:
                        cases.append(c)
    return cases


def more_cases(case: Case, rng):
    """Failing-input search: many more histories on the design of the diverging case."""
    design = case.desc["design"]
    for st in STYLES * 4:
        c = _mk(None, design, lambda b, st=st: history(rng, b, 200, st), "search")
        if c is not None:
            yield c


def nontrivial(case: Case, out: list[str]) -> bool:
    """Some component with >= 2 transactions had >= 2 of them fully enabled in one cycle (the arbiter had
    to choose), and some cycle had an enabled transaction that did not run."""
    if out[0] != "ok":
        return False
    comps = [c for c in _parse_cfg(case.cfg)["ccs"] if len(c) >= 2]
    contested = waited = False
    for o in out[1:]:
        f = dict(x.split("=") for x in o.split())
        en = [a == "1" and b == "1" for a, b in zip(f["rdy"], f["rbl"])]
        for c in comps:
            if sum(en[t] for t in c) >= 2:
                contested = True
        if any(e and r == "0" for e, r in zip(en, f["run"])):
            waited = True
    return contested and waited


def run(ctx: Check):
    ctx.rule = ("case = (generated design: transactions/methods/calls/conflicts, arbiter index orders as used by the "
                "real elaboration, history of transaction/method ready inputs from reset); non-trivial = some cycle "
                "in which >= 2 transactions of one component are fully enabled and some enabled transaction waits; "
                "distinct by (design, orders, history)")
    ctx.proof_stage()
    cases = gen_cases(ctx)
    for design, why in _rejects[:MAX_REPORTED_REJECTS]:
        ctx.violation(f"the real TransactionManager with trivial_roundrobin_cc_scheduler rejected a well-formed design: {why}",
                      {"design": design})
    probe_failed = 0
    for b in _by_design.values():
        ctx.count("designs")
        ctx.count(f"transactions_{b.n}")
        for o in b.orders:
            ctx.count(f"component_size_{len(o)}")
        probe_failed += b.probe_failed
        if not b.gobs:
            ctx.count("designs_without_reachable_arbiter")
    if probe_failed:
        ctx.note(f"probing prefix did not enumerate the arbiter inputs for {probe_failed} designs (fell back to set iteration order)")
        ctx.count("probe_failed", probe_failed)
    lockstep(ctx, "rrsched", "C09", cases, impl, monitor, more_cases, nontrivial, procs=ctx.pick(1, 8))
    if ctx.thorough:
        ctx.note("exhaustive: all input histories of length <= 3 from reset for three tiny designs (not the whole space)")


def replay(ctx: Check, body: dict):
    from ..lockstep import replay_case

    if "cfg" not in body:  # a rejected design: re-elaborate it
        try:
            _Built(body["design"])
            return None
        except Exception as e:  # noqa: BLE001
            return f"the real manager rejects the design: {type(e).__name__}: {e}"
    return replay_case(body, impl, monitor)
