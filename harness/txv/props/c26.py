"""C26 — PreservedOrderAllocator tracks allocation order (transactron/lib/allocators.py:94-175)."""

from __future__ import annotations

import itertools

from ..common import Check
from ..lockstep import Case, lockstep
from ..simrun import CompSim

META = {
    "id": "C26",
    "design_ref": "DESIGN.md §7 C26",
    "technique": "Lean 4 theorems over a hand-written step model of PreservedOrderAllocator (permutation invariant, "
    "refinement of order[:used] to the list of allocated identifiers oldest first); lock-step correspondence of the "
    "model with the real component in pysim",
    "level_text": "c26_inv/c26_alloc/c26_free_idx/c26_free/c26_clear/c26_order/c26_history are proved for every entry "
    "count and every call history (simultaneous alloc and free included) that only frees allocated identifiers / "
    "indices below the used count; the model is tied to the code by cycle-exact comparison of done bits, returned "
    "identifiers, the order/used result and alloc.ready over entries 1..9,16,17, random/directed histories, a "
    "malformed stream (frees of free identifiers, indices >= used, out-of-range arguments, counter underflow), "
    "thorough: all histories up to length 3 on entries 1..4 (free+free_idx pairs up to length 2 for entries 3,4)",
    "level_note": "trusted: Lean kernel, axioms propext/Quot.sound/Classical.choice; Amaranth semantics (incl. Array "
    "out-of-range reads) and pysim; the harness glue. free and free_idx conflict (free calls free_idx) with no "
    "declared priority: the winner of simultaneous attempts is read off the elaborated design (cfg ff=), the "
    "monitor demands that exactly one executes.",
}

_sims: dict[int, CompSim] = {}


def _sim(n: int) -> CompSim:
    if n not in _sims:
        from transactron.lib.allocators import PreservedOrderAllocator

        _sims[n] = CompSim(lambda: PreservedOrderAllocator(n))
    return _sims[n]


_ff: dict[int, int] = {}


def _free_first(n: int) -> int:
    """Which of the conflicting adapters (free / free_idx, both call the exclusive free_idx) has priority in
    the elaborated design: read off the real circuit (one allocation, then both attempted).  1 = free.
    If both execute (no conflict at all) the answer is arbitrary; the monitor reports that."""
    if n not in _ff:
        tr = _sim(n).run([{"alloc": 0}, {"free": 0, "free_idx": 0}])
        _ff[n] = 0 if (tr[1][("free",)] is None and tr[1][("free_idx",)] is not None) else 1
    return _ff[n]


def _kv(line: str) -> dict:
    return dict(x.split("=", 1) for x in line.split()[1:])


def _opt(v: str):
    return None if v == "-" else int(v)


def impl(case: Case) -> list[str]:
    n = case.desc["n"]
    sim = _sim(n)
    w, uw = (n - 1).bit_length(), n.bit_length()
    ops = []
    for line in case.ops:
        o = _kv(line)
        ops.append(
            {
                "alloc": 0 if o["a"] == "1" else None,
                "free": _opt(o["f"]),
                "free_idx": _opt(o["x"]),
                "order": 0 if o["o"] == "1" else None,
                "clear": 0 if o["c"] == "1" else None,
            }
        )
    tr = sim.run(ops, extra=lambda dut: [dut.alloc.ready])
    out = ["ok"]
    for r in tr:
        od = r[("order",)]
        if od is None:
            so = "-"
        else:
            used = od & ((1 << uw) - 1)
            order = [(od >> (uw + k * w)) & ((1 << w) - 1) for k in range(n)]
            so = f"{used}:{','.join(map(str, order))}"
        a = r[("alloc",)]
        out.append(
            f"a={'-' if a is None else a} f={0 if r[('free',)] is None else 1} x={0 if r[('free_idx',)] is None else 1} "
            f"o={so} c={0 if r[('clear',)] is None else 1} rdy={r['_extra'][0]}"
        )
    return out


def monitor(case: Case, out: list[str]):
    """The property sentence on the implementation's observations (reference: the list of allocated
    identifiers, oldest first, rebuilt from what alloc returned and what was freed).  Returns None as soon
    as the history leaves the environment hypotheses (free of an identifier that is not allocated, index not
    below the used count).  free and free_idx attempted together: both arguments must be legal, exactly one
    of them may execute."""
    n = case.desc["n"]
    A: list[int] = []
    pristine = True  # nothing executed since reset / clear: order must read as the initial state
    for k, (op, o) in enumerate(zip(case.ops, out[1:])):
        i = _kv(op)
        f = _kv("x " + o)
        fid, fx = _opt(i["f"]), _opt(i["x"])
        if fid is not None and fx is not None and f["f"] == "1" and f["x"] == "1":
            return (f"cycle {k}: free({fid}) and free_idx({fx}) both executed in one cycle (they share one exclusive "
                    f"removal port; at most one identifier can be removed per cycle)")
        if fid is not None and fid not in A:
            return None
        if fx is not None and fx >= len(A):
            return None
        # order: a permutation whose first `used` entries are the allocated identifiers, oldest first
        if (f["o"] != "-") != (i["o"] == "1"):
            return f"cycle {k}: order attempted={i['o']} executed={f['o'] != '-'}"
        if f["o"] != "-":
            u, lst = f["o"].split(":")
            used, order = int(u), [int(x) for x in lst.split(",")]
            if sorted(order) != list(range(n)):
                return f"cycle {k}: order={order} is not a permutation of range({n})"
            if used != len(A) or order[:used] != A:
                return f"cycle {k}: used={used} order={order} but the allocated identifiers, oldest first, are {A}"
            if pristine and order != list(range(n)):
                return f"cycle {k}: order={order} right after reset/clear, expected the initial state"
        # alloc: ready iff a free identifier exists; returns a free identifier
        if f["rdy"] != str(int(len(A) != n)):
            return f"cycle {k}: alloc.ready={f['rdy']} with {len(A)} of {n} identifiers allocated"
        a = _opt(f["a"])
        if (a is not None) != (i["a"] == "1" and len(A) != n):
            return f"cycle {k}: alloc attempted={i['a']} executed={a is not None} with {len(A)} of {n} allocated"
        if a is not None and (a in A or a >= n):
            return f"cycle {k}: alloc returned {a}, which is allocated (allocated: {A})"
        if fid is not None and fx is not None:
            ok = (f["f"] == "1") != (f["x"] == "1")  # exactly one of the two conflicting calls is granted
        else:
            ok = (f["f"] == "1") == (fid is not None) and (f["x"] == "1") == (fx is not None)
        if not ok or (f["c"] == "1") != (i["c"] == "1"):
            return f"cycle {k}: free/free_idx/clear attempted f={i['f']} x={i['x']} c={i['c']}, executed f={f['f']} x={f['x']} c={f['c']}"
        if f["f"] != "1":
            fid = None
        if f["x"] != "1":
            fx = None
        # bookkeeping (with what executed)
        if fid is not None:
            A = [x for x in A if x != fid]
        if fx is not None:
            A = A[:fx] + A[fx + 1 :]
        if a is not None:
            A = A + [a]
        if a is not None or fid is not None or fx is not None:
            pristine = False
        if i["c"] == "1":
            A, pristine = [], True
    return None


# ------------------------------------------------------------------ generators
def _corpus() -> list[Case]:
    """directed cases and minimised past failures kept under corpus/C26 (run first, monitored)"""
    import json

    from ..common import CORPUS

    out = []
    for path in sorted((CORPUS / "C26").glob("*.json")):
        b = json.loads(path.read_text())
        out.append(Case(b["cfg"], list(b["ops"]), b.get("desc", {}), "corpus"))
    return out


def _mk(n, ops, tag) -> Case:
    """ops: (alloc, free ident|None, free_idx|None, order, clear)"""
    fmt = lambda v: "-" if v is None else str(v)  # noqa: E731
    lines = [f"cyc a={int(a)} f={fmt(f)} x={fmt(x)} o={int(o)} c={int(c)}" for a, f, x, o, c in ops]
    return Case(f"cfg n={n} ff={_free_first(n)}", lines, {"component": "PreservedOrderAllocator", "n": n}, tag)


class _Ref:
    """reference used by the generators only (to know which identifiers are allocated)"""

    def __init__(self, n):
        self.n, self.order, self.used = n, list(range(n)), 0

    def step(self, a, f, x, c):
        arun = a and self.used != self.n
        if f is not None and x is not None:  # conflicting attempts: the design's priority decides
            if _free_first(self.n):
                x = None
            else:
                f = None
        idx = self.order.index(f) if f is not None else x
        used = self.used + int(arun)
        if idx is not None:
            self.order.append(self.order.pop(idx))
            used -= 1
        self.used = used
        if c:
            self.order, self.used = list(range(self.n)), 0


def _valid_stream(rng, n, length, pa, pf, pc, po=0.9):
    ref = _Ref(n)
    ops = []
    for _ in range(length):
        a = rng.random() < pa
        f = x = None
        if ref.used and rng.random() < pf:
            r = rng.random()
            if r < 0.6:
                f = ref.order[rng.randrange(ref.used)]
            if r >= 0.4:  # 0.4..0.6: both in the same cycle (conflict, one is granted)
                x = rng.randrange(ref.used) if rng.random() < 0.7 else rng.choice([0, ref.used - 1])
        c = rng.random() < pc
        ops.append((a, f, x, rng.random() < po, c))
        ref.step(a, f, x, c)
    return ops


def _directed(n):
    """fill, overfill, free the oldest / a middle one / the newest (by identifier and by index), refill,
    steady state with simultaneous alloc+free at every index, clear with everything, drain"""
    ref = _Ref(n)
    ops = []

    def push(a, f=None, x=None, c=False):
        ops.append((a, f, x, True, c))
        ref.step(a, f, x, c)

    for _ in range(n + 1):
        push(True)
    push(False, x=0)
    push(True)
    if ref.used:
        push(False, f=ref.order[ref.used // 2])
    push(True)
    if ref.used:
        push(True, f=ref.order[ref.used - 1])
    push(True)
    for k in range(n):
        if ref.used:
            push(True, x=min(k, ref.used - 1))
            push(True)
    for k in range(n):
        if ref.used:
            push(True, f=ref.order[min(k, ref.used - 1)])
    for k in range(min(n, 3)):  # free and free_idx together (different and same designated identifier)
        if ref.used:
            push(k % 2 == 0, f=ref.order[ref.used - 1], x=min(k, ref.used - 1))
            push(True)
    push(True, x=0 if ref.used else None, c=True)
    push(False)
    push(True)
    push(True)
    while ref.used:
        push(False, x=ref.used - 1 if ref.used % 2 else 0)
    push(False)
    push(True, c=True)
    push(False)
    return ops


def gen_cases(ctx: Check):
    rng = ctx.rng("gen")
    valid, malformed = [], []
    ns = ctx.pick([1, 2, 3, 4, 5, 6, 7, 8, 9, 16, 17], list(range(1, 21)) + [31, 32, 33])
    length = ctx.pick(150, 600)
    for n in ns:
        valid.append(_mk(n, _directed(n), "directed"))
        for pa, pf, pc in [(0.9, 0.3, 0.01), (0.4, 0.8, 0.01), (0.7, 0.7, 0.03), (1.0, 1.0, 0.0), (0.6, 0.5, 0.0)]:
            valid.append(_mk(n, _valid_stream(rng, n, length, pa, pf, pc), "random"))
        # malformed: any argument that fits the signals (free and free_idx also together); no property claim
        w = (n - 1).bit_length()
        for _ in range(2):
            ops = []
            for _ in range(length // 2):
                f = x = None
                r = rng.random()
                if r < 0.35:
                    f = rng.randrange(1 << w)
                if 0.25 <= r < 0.6:
                    x = rng.randrange(1 << w)
                ops.append((rng.random() < 0.6, f, x, True, rng.random() < 0.03))
            malformed.append(_mk(n, ops, "malformed"))
    return valid, malformed


def exhaustive_cases(ctx: Check):
    """thorough: every history of bounded length over the full input alphabet (arguments that fit the signals;
    free and free_idx also together), order observed every cycle; the monitor judges the ones inside the
    environment hypotheses"""
    cases = []
    for n, maxlen in [(1, 3), (2, 3), (3, 3), (4, 3)]:
        w = (n - 1).bit_length()
        single = [(None, None)] + [(v, None) for v in range(1 << w)] + [(None, v) for v in range(1 << w)]
        pairs = [(v, u) for v in range(1 << w) for u in range(1 << w)]  # free and free_idx together
        for L in range(1, maxlen + 1):
            # conflicting pairs make the alphabet large: full alphabet only up to length 2 for entries >= 3
            calls = single + pairs if (n <= 2 or L <= 2) else single
            alph = [(a, f, x, True, c) for a in (False, True) for f, x in calls for c in (False, True)]
            for seq in itertools.product(alph, repeat=L):
                cases.append(_mk(n, list(seq) + [(False, None, None, True, False)], "exhaustive"))
    return cases


def more_cases(case: Case, rng):
    n = case.desc["n"]
    yield _mk(n, _directed(n), "search")
    for _ in range(40):
        yield _mk(n, _valid_stream(rng, n, 200, rng.choice([0.4, 0.7, 1.0]), rng.choice([0.3, 0.7, 1.0]), 0.02), "search")


def nontrivial(case: Case, out: list[str]) -> bool:
    """the allocator gets full, an identifier other than the newest is freed (entries shift), and alloc and
    free/free_idx execute in the same cycle"""
    fs = [_kv("x " + o) for o in out[1:]]
    full = any(f["rdy"] == "0" for f in fs)
    both = any(f["a"] != "-" and (f["f"] == "1" or f["x"] == "1") for f in fs)
    return full and both


def run(ctx: Check):
    ctx.rule = (
        "cases = (entries, history of attempted alloc/free(ident)/free_idx(idx)/order/clear); non-trivial = the "
        "allocator becomes full and alloc executes together with free or free_idx in some cycle"
    )
    ctx.proof_stage()
    procs = ctx.pick(1, 4)  # tiny cases: a large fork pool costs more than it saves
    valid, malformed = gen_cases(ctx)
    valid = _corpus() + valid
    lockstep(ctx, "po-allocator", "C26", valid, impl, monitor, more_cases, nontrivial, procs=procs)
    lockstep(ctx, "po-allocator-malformed", "C26", malformed, impl, None, None, nontrivial, procs=procs)
    lockstep(ctx, "po-allocator-two-callers", "C26", gen_cases2(ctx), impl2, monitor2, more_cases2,
             lambda c, o: any("-" not in _kv(l)[k] for l in c.ops for k in ("a2", "f2", "x2")), procs=1)
    ctx.count("configurations", len({c.desc["n"] for c in valid}))
    if ctx.thorough:
        cases = exhaustive_cases(ctx)
        lockstep(ctx, "po-allocator-exhaustive", "C26", cases, impl, monitor, more_cases, lambda c, o: True, procs=1)
        ctx.note("thorough: all histories over the full input alphabet up to length 3 on entries 1..4 (conflicting free+free_idx pairs: full for entries 1,2, length<=2 for 3,4)")
    ctx.note("free+free_idx in the same cycle: both transactions call the exclusive method free_idx, no priority is "
             "declared; the winner is read off the elaborated design (cfg ff=) and the monitor demands exactly one")


# ------------------------------------------------------------------ two callers per method
_sims2: dict[int, tuple] = {}


def _sim2(n: int):
    """real allocator with alloc, free and free_idx each called by two independent transactions; plus the static
    priority among the two callers of each method, read off the real scheduler"""
    if n not in _sims2:
        from transactron.lib.allocators import PreservedOrderAllocator

        from ..alloc2 import make_two

        def mk():
            d = PreservedOrderAllocator(n)
            return make_two(d, {"alloc": d.alloc, "free": d.free, "free_idx": d.free_idx}, {"order": d.order, "clear": d.clear})

        sim = CompSim(mk)
        tr = sim.run([{"alloc[0]": 0, "alloc[1]": 0}, {"free[0]": 0, "free[1]": 0}, {"alloc[0]": 0}, {"free_idx[0]": 0, "free_idx[1]": 0}])
        first = lambda r, name: 1 if (r[(name, 0)] is None and r[(name, 1)] is not None) else 0  # noqa: E731
        pr = {"alloc": first(tr[0], "alloc"), "free": first(tr[1], "free"), "free_idx": first(tr[3], "free_idx")}
        _sims2[n] = (sim, {k: [v, 1 - v] for k, v in pr.items()})
    return _sims2[n]


def impl2(case: Case) -> list[str]:
    """two-caller run projected onto the single-caller observation format; `dbl=<methods>` is appended when both
    callers of an exclusive method executed in one cycle"""
    from ..alloc2 import executed, pair

    n = case.desc["n"]
    sim = _sim2(n)[0]
    w, uw = (n - 1).bit_length(), n.bit_length()
    ops = []
    for line in case.ops:
        o = _kv(line)
        a2, f2, x2 = pair(o["a2"]), pair(o["f2"]), pair(o["x2"])
        op = {"order": 0 if o["o"] == "1" else None, "clear": 0 if o["c"] == "1" else None}
        for k in (0, 1):
            op[("alloc", k)] = 0 if a2[k] else None
            op[("free", k)] = f2[k]
            op[("free_idx", k)] = x2[k]
        ops.append(op)
    tr = sim.run(ops, extra=lambda wr: [wr.inner.alloc.ready])
    out = ["ok"]
    for r in tr:
        od = r[("order",)]
        if od is None:
            so = "-"
        else:
            used = od & ((1 << uw) - 1)
            so = f"{used}:{','.join(str((od >> (uw + k * w)) & ((1 << w) - 1)) for k in range(n))}"
        (a, da), (f, df), (x, dx) = executed(r, "alloc"), executed(r, "free"), executed(r, "free_idx")
        dbl = ",".join(nm for nm, y in (("alloc", da), ("free", df), ("free_idx", dx)) if y)
        out.append(
            f"a={'-' if a is None else a} f={0 if f is None else 1} x={0 if x is None else 1} o={so} "
            f"c={0 if r[('clear',)] is None else 1} rdy={r['_extra'][0]}" + (f" dbl={dbl}" if dbl else "")
        )
    return out


def monitor2(case: Case, out: list[str]):
    """at most one caller of an exclusive method executes per cycle; the property holds on the executed calls"""
    for k, o in enumerate(out[1:]):
        if " dbl=" in o:
            return (f"cycle {k}: both callers of the exclusive method(s) {o.split('dbl=')[1]} executed in one cycle "
                    f"(attempts {case.ops[k]}; alloc would hand the same identifier to two callers)")
    return monitor(case, out)


def _stream2(rng, n, length) -> Case:
    """two callers per method attempting independently (free and free_idx kinds not mixed in one cycle here;
    that conflict has its own stream); all arguments legal for the allocator's state"""
    from ..alloc2 import first_of, fmt_pair

    _, pr = _sim2(n)
    ref = _Ref(n)
    lines = []
    fmt = lambda v: "-" if v is None else str(v)  # noqa: E731
    for _ in range(length):
        a2 = [1 if rng.random() < 0.6 else None for _ in range(2)]
        f2, x2 = [None, None], [None, None]
        if ref.used and rng.random() < 0.6:
            if rng.random() < 0.5:
                f2 = [ref.order[rng.randrange(ref.used)] if rng.random() < 0.75 else None for _ in range(2)]
            else:
                x2 = [rng.randrange(ref.used) if rng.random() < 0.75 else None for _ in range(2)]
        c = rng.random() < 0.02
        a = first_of(pr["alloc"], a2)
        f, x = first_of(pr["free"], f2), first_of(pr["free_idx"], x2)
        lines.append(f"cyc a={1 if a else 0} f={fmt(f)} x={fmt(x)} o=1 c={int(c)} a2={fmt_pair(a2)} f2={fmt_pair(f2)} x2={fmt_pair(x2)}")
        ref.step(bool(a), f, x, c)
    return Case(f"cfg n={n} ff={_free_first(n)}", lines, {"component": "PreservedOrderAllocator", "n": n, "callers": 2}, "random")


def gen_cases2(ctx: Check) -> list[Case]:
    rng = ctx.rng("two-callers")
    out = []
    for n in ctx.pick([1, 2, 3, 5, 8], [1, 2, 3, 4, 5, 6, 7, 8, 9, 16]):
        for _ in range(ctx.pick(3, 6)):
            out.append(_stream2(rng, n, ctx.pick(100, 400)))
    return out


def more_cases2(case: Case, rng):
    for _ in range(20):
        yield _stream2(rng, case.desc["n"], 100)


def replay(ctx: Check, body: dict):
    from ..lockstep import replay_case

    if body.get("desc", {}).get("callers") == 2:
        return replay_case(body, impl2, monitor2)
    return replay_case(body, impl, monitor)
