"""C22 — AsyncMemoryBank reads current contents (transactron/lib/storage.py:313-406)."""

from __future__ import annotations

import itertools

import json

from ..common import CORPUS, Check
from ..lockstep import Case, lockstep
from ..simrun import CompSim

META = {
    "id": "C22",
    "design_ref": "DESIGN.md §7 C22",
    "technique": "Lean 4 theorems over a hand-written step model of AsyncMemoryBank on top of an ideal-memory model "
    "with Amaranth write-port semantics (history induction to a bit-level 'latest covering write' spec); "
    "lock-step correspondence of the model with the real component in pysim",
    "level_text": "c22_read_latest (every bit of every executed read equals that bit of the latest earlier write to the "
    "row whose mask covers it, 0 if none), c22_next_cycle (writes of the same cycle are not visible), c22_always_ready "
    "are proved for every depth, granularity, port counts and every history with distinct write rows per cycle; "
    "the model is tied to the code by cycle-exact comparison of done bits and returned data for depths 1..9, "
    "1..3 read and write ports, with and without granularity, incl. out-of-range addresses and (model/impl agreement "
    "only) same-row simultaneous writes",
    "level_note": "trusted: Lean kernel, axioms propext/Quot.sound/Classical.choice; amaranth.lib.memory.Memory port "
    "semantics as modelled in TxV/Model/BankMem.lean (exercised, not verified); pysim; the harness glue. "
    "memory_type: the default amaranth Memory and other constructors of it (functools.partial, subclass, wrapper "
    "function); multiport memory classes have no combinational read ports (C23).",
}

_sims: dict[tuple, CompSim] = {}


def _sim(d: dict) -> CompSim:
    two = d.get("callers") == 2
    key = (d["depth"], d["g"], d["n"], d["gran"], d["r"], d["w"], two, d.get("memory_type", "Memory"))
    if key not in _sims:
        from transactron.lib.storage import AsyncMemoryBank

        from ..memtypes_b5 import memory_kwargs

        kw = memory_kwargs(d.get("memory_type", "Memory"))
        mk = lambda: AsyncMemoryBank(  # noqa: E731
            shape=d["g"] * d["n"], depth=d["depth"], granularity=d["gran"], read_ports=d["r"], write_ports=d["w"], **kw
        )
        if not two:
            _sims[key] = CompSim(mk)
        else:
            from ..twocall_b5 import probe, wrap

            sim = CompSim(lambda: wrap(mk(), ["read", "write"]))
            wv = {"addr": 0, "data": 1} if d["gran"] is None else {"addr": 0, "data": 1, "mask": 1}
            both = {f"read_{c}[{i}]": {"addr": 0} for c in "ab" for i in range(d["r"])}
            both.update({f"write_{c}[{j}]": wv for c in "ab" for j in range(d["w"])})
            inst = [("read", i) for i in range(d["r"])] + [("write", j) for j in range(d["w"])]
            sim.prio = probe(sim, [both, both], inst)
            _sims[key] = sim
    return _sims[key]


def _lst1(t):
    return [None if x == "-" else int(x) for x in t.split(",")] if t else []


def _lst3(t):
    return [None if x == "-" else tuple(int(y) for y in x.split(":")) for x in t.split(",")] if t else []


def _wop(d, x):
    if x is None:
        return None
    return {"addr": x[0], "data": x[1]} if d["gran"] is None else {"addr": x[0], "data": x[1], "mask": x[2]}


def impl2(case: Case) -> list[str]:
    """two callers per method (tokens ra= rb= wa= wb=); merged into the single-caller observation format"""
    from ..twocall_b5 import merge

    d = case.desc
    sim = _sim(d)
    ops, atts = [], []
    for line in case.ops:
        t = dict(x.split("=") for x in line.split()[1:])
        o = {"ra": _lst1(t["ra"]), "rb": _lst1(t["rb"]), "wa": _lst3(t["wa"]), "wb": _lst3(t["wb"])}
        op = {}
        for c in "ab":
            for i, a in enumerate(o["r" + c]):
                op[f"read_{c}[{i}]"] = None if a is None else {"addr": a}
            for j, x in enumerate(o["w" + c]):
                op[f"write_{c}[{j}]"] = _wop(d, x)
        ops.append(op)
        atts.append(o)
    tr = sim.run(ops)
    out = ["ok"]
    for res, o in zip(tr, atts):
        an, rr, ww = [], [], []
        for i in range(d["r"]):
            v, a = merge(res, "read", i, o["ra"][i] is not None, o["rb"][i] is not None, sim.prio[("read", i)])
            rr.append("-" if v is None else str(v))
            an += [a] if a else []
        for j in range(d["w"]):
            v, a = merge(res, "write", j, o["wa"][j] is not None, o["wb"][j] is not None, sim.prio[("write", j)])
            ww.append("0" if v is None else "1")
            an += [a] if a else []
        out.append(f"r={','.join(rr)} w={','.join(ww)}" + (f" anomaly={'+'.join(an)}" if an else ""))
    return out


def two_line(rng, line: str, d: dict, prio: dict) -> str:
    """distribute the attempted calls of an effective single-caller line over two callers (twocall_b5.split)"""
    from ..twocall_b5 import split

    rs, ws = parse_op(line)
    amax = 1 << max(0, (d["depth"] - 1).bit_length())
    width = d["g"] * d["n"]
    ra, rb, wa, wb = [], [], [], []
    for i, a in enumerate(rs):
        x, y = split(rng, a, rng.randrange(amax), prio[("read", i)])
        ra.append(x)
        rb.append(y)
    for j, w in enumerate(ws):
        junk = (rng.randrange(amax), rng.getrandbits(width), rng.getrandbits(d["n"]) | 1 if d["gran"] is not None else 1)
        x, y = split(rng, w, junk, prio[("write", j)])
        wa.append(x)
        wb.append(y)
    f1 = lambda l: ",".join("-" if x is None else str(x) for x in l)  # noqa: E731
    f3 = lambda l: ",".join("-" if x is None else f"{x[0]}:{x[1]}:{x[2]}" for x in l)  # noqa: E731
    return f"{line} ra={f1(ra)} rb={f1(rb)} wa={f3(wa)} wb={f3(wb)}"


def parse_op(line: str):
    """`cyc r=1,-,7 w=1:171:3,-` -> ([1,None,7], [(1,171,3),None])"""
    t = dict(x.split("=") for x in line.split()[1:])
    rs = [None if x == "-" else int(x) for x in t["r"].split(",")] if t["r"] else []
    ws = [None if x == "-" else tuple(int(y) for y in x.split(":")) for x in t["w"].split(",")] if t["w"] else []
    return rs, ws


def fmt_op(rs, ws) -> str:
    r = ",".join("-" if x is None else str(x) for x in rs)
    w = ",".join("-" if x is None else f"{x[0]}:{x[1]}:{x[2]}" for x in ws)
    return f"cyc r={r} w={w}"


def impl(case: Case) -> list[str]:
    d = case.desc
    if d.get("callers") == 2:
        return impl2(case)
    sim = _sim(d)
    ops = []
    for line in case.ops:
        rs, ws = parse_op(line)
        op = {}
        for i, a in enumerate(rs):
            op[f"read[{i}]"] = None if a is None else {"addr": a}
        for j, x in enumerate(ws):
            if x is None:
                op[f"write[{j}]"] = None
            elif d["gran"] is None:
                op[f"write[{j}]"] = {"addr": x[0], "data": x[1]}
            else:
                op[f"write[{j}]"] = {"addr": x[0], "data": x[1], "mask": x[2]}
        ops.append(op)
    tr = sim.run(ops)
    out = ["ok"]
    for res in tr:
        r = ",".join("-" if res[("read", i)] is None else str(res[("read", i)]) for i in range(d["r"]))
        w = ",".join("0" if res[("write", j)] is None else "1" for j in range(d["w"]))
        out.append(f"r={r} w={w}")
    return out


def monitor(case: Case, out: list[str]):
    """The property sentence on the implementation's observations: a read returns, chunk by chunk, the data of the
    latest completed (= earlier cycle) write to that address that enabled the chunk; 0 where nothing was written."""
    d = case.desc
    g, n, depth = d["g"], d["n"], d["depth"]
    chunks: dict[tuple[int, int], int] = {}  # (addr, chunk index) -> chunk value of the latest write
    for k, (line, o) in enumerate(zip(case.ops, out[1:])):
        rs, ws = parse_op(line)
        f = dict(x.split("=") for x in o.split())
        if "anomaly" in f:
            return f"cycle {k}: {f['anomaly']} (two callers of one exclusive method served in one cycle)"
        got_r = f["r"].split(",") if f["r"] else []
        got_w = f["w"].split(",") if f["w"] else []
        addrs = [x[0] for x in ws if x is not None]
        if len(set(addrs)) != len(addrs):
            return None  # outside the property's hypothesis from here on
        for i, a in enumerate(rs):
            if (a is None) != (got_r[i] == "-"):
                return f"cycle {k}: read[{i}] attempted={a is not None} but executed={got_r[i] != '-'} (always ready)"
            if a is not None:
                exp = sum(chunks.get((a, c), 0) << (g * c) for c in range(n))
                if int(got_r[i]) != exp:
                    return f"cycle {k}: read[{i}] addr={a} returned {got_r[i]}, latest completed writes give {exp}"
        for j, x in enumerate(ws):
            if (x is None) != (got_w[j] == "0"):
                return f"cycle {k}: write[{j}] attempted={x is not None} executed={got_w[j]} (always ready)"
        for x in ws:
            if x is not None and x[0] < depth:
                for c in range(n):
                    if (x[2] >> c) & 1:
                        chunks[(x[0], c)] = (x[1] >> (g * c)) & ((1 << g) - 1)
    return None


def _monitor(case: Case, out: list[str]):
    return None if case.tag == "malformed" else monitor(case, out)


def _desc(depth, g, n, gran, r, w) -> dict:
    return {"component": "AsyncMemoryBank", "depth": depth, "g": g, "n": n, "gran": gran, "r": r, "w": w}


def _cfg(d: dict) -> str:
    return f"cfg depth={d['depth']} g={d['g']} n={d['n']}"


def gen_ops(rng, d: dict, cycles: int, pr: float, pw: float, distinct: bool = True, hot: bool = False) -> list[str]:
    depth, g, n = d["depth"], d["g"], d["n"]
    amax = 1 << max(0, (depth - 1).bit_length())  # representable addresses (incl. out-of-range ones)
    width = g * n
    pool = list(range(amax))
    if hot and amax > 2:
        pool = rng.sample(pool, 2)  # concentrate on two rows so that reads meet earlier writes
    ops = []
    for _ in range(cycles):
        rs = [rng.choice(pool) if rng.random() < pr else None for _ in range(d["r"])]
        ws = []
        used = set()
        for _j in range(d["w"]):
            if rng.random() >= pw:
                ws.append(None)
                continue
            a = rng.choice(pool)
            if distinct:
                free = [x for x in pool if x not in used]
                if not free:
                    ws.append(None)
                    continue
                a = rng.choice(free)
            used.add(a)
            data = rng.choice([rng.getrandbits(width), (1 << width) - 1, rng.getrandbits(width)])
            mask = 1 if d["gran"] is None else rng.choice([rng.getrandbits(n), (1 << n) - 1, rng.getrandbits(n)])
            ws.append((a, data, mask))
        ops.append(fmt_op(rs, ws))
    return ops


def configs(ctx: Check) -> list[dict]:
    rng = ctx.rng("cfg")
    shapes = [(8, 1, None), (1, 1, None), (4, 2, 4), (1, 4, 1), (3, 3, 3), (8, 1, 8), (33, 1, None), (2, 5, 2), (16, 2, 16)]
    out = []
    depths = ctx.pick([1, 2, 3, 4, 5, 7, 8, 9], list(range(1, 18)) + [31, 32, 33])
    for depth in depths:
        ports = [(1, 1), (2, 2), (3, 1), (1, 3), (3, 3), (2, 1), (1, 2)]
        k = ctx.pick(3, 7)
        for r, w in rng.sample(ports, k):
            g, n, gran = rng.choice(shapes)
            out.append(_desc(depth, g, n, gran, r, w))
    # every shape at least once
    for g, n, gran in shapes:
        out.append(_desc(rng.choice([3, 4, 5, 6]), g, n, gran, rng.choice([1, 2, 3]), rng.choice([1, 2, 3])))
    return out


def gen_cases(ctx: Check):
    rng = ctx.rng("gen")
    good, malformed = [], []
    cyc = ctx.pick(100, 1200)
    for d in configs(ctx):
        cfg = _cfg(d)
        # directed: write every row fully, read back, partial overwrite, read in the cycle of the write
        full = (1 << d["n"]) - 1
        width = d["g"] * d["n"]
        amax = 1 << max(0, (d["depth"] - 1).bit_length())
        ops = []
        for a in range(amax):
            ops.append(fmt_op([a] * d["r"], [(a, (0x5A5A5A5A5A ^ (a * 0x1111)) & ((1 << width) - 1), full)] + [None] * (d["w"] - 1)))
            ops.append(fmt_op([a] * d["r"], [None] * (d["w"] - 1) + [(a, (1 << width) - 1, 1)]))
            ops.append(fmt_op([a] * d["r"], [None] * d["w"]))
        good.append(Case(cfg, ops, d, "directed"))
        for pr, pw in [(0.9, 0.9), (0.5, 0.5), (1.0, 0.2), (0.3, 1.0)]:
            good.append(Case(cfg, gen_ops(rng, d, cyc, pr, pw, hot=rng.random() < 0.5), d, "random"))
        if d["w"] > 1:
            malformed.append(Case(cfg, gen_ops(rng, d, cyc // 2, 0.8, 0.9, distinct=False, hot=True), d, "malformed"))
    # other constructors of the same Amaranth memory as memory_type (functools.partial with attrs, a subclass, a
    # wrapper function): behaviour must not depend on the identity of the constructor.  Directed: write a row != 0,
    # read it in the next cycle and after an idle cycle, read another row right after; then random
    from ..memtypes_b5 import ALIASES

    for k, mt in enumerate(ALIASES):
        depth, g, n, gran, r, w = [(4, 8, 1, None, 1, 1), (5, 4, 2, 4, 2, 2), (8, 3, 3, 3, 2, 1)][k]
        d = dict(_desc(depth, g, n, gran, r, w), memory_type=mt)
        width, full = g * n, (1 << n) - 1
        N = [None] * w
        ops = [
            fmt_op([None] * r, [(2, 0x5A & ((1 << width) - 1), full)] + [None] * (w - 1)),
            fmt_op([2] * r, N),
            fmt_op([None] * r, N),
            fmt_op([2] * r, [(3, 0x33 & ((1 << width) - 1), full)] + [None] * (w - 1)),
            fmt_op([3] * r, N),
            fmt_op([2] * r, N),
            fmt_op([0] * r, N),
        ]
        ops += gen_ops(rng, d, cyc, 0.8, 0.6, hot=rng.random() < 0.5)
        good.append(Case(_cfg(d), ops, d, "memory-type"))
    # two callers per method: an exclusive method serves at most one of them per cycle; the union of the executed
    # calls is the single-caller history the property (and the model) talks about
    for depth, g, n, gran, r, w in [(4, 8, 1, None, 1, 1), (5, 4, 2, 4, 2, 2), (3, 2, 3, 2, 1, 2), (8, 8, 1, None, 2, 1)]:
        d = dict(_desc(depth, g, n, gran, r, w), callers=2)
        prio = _sim(d).prio
        for pr, pw in [(0.9, 0.9), (0.6, 0.5)]:
            eff = gen_ops(rng, d, cyc, pr, pw, hot=True)
            good.append(Case(_cfg(d), [two_line(rng, ln, d, prio) for ln in eff], d, "two-callers"))
    if ctx.thorough:
        # all histories of length <= 3 of a 2-row, 1-bit, 1r1w bank; of a 2-chunk 1r1w bank all of length <= 2 and
        # a sample of length 3
        for d in (_desc(2, 1, 1, None, 1, 1), _desc(2, 1, 2, 1, 1, 1)):
            rsp = [None, 0, 1]
            masks = [1] if d["gran"] is None else [1, 2, 3]
            wsp = [None] + [(a, v, k) for a in (0, 1) for v in range(1 << (d["g"] * d["n"])) for k in masks]
            alpha = [fmt_op([r], [w]) for r in rsp for w in wsp]
            for L in (1, 2, 3):
                if len(alpha) ** L <= 6000:
                    for seq in itertools.product(alpha, repeat=L):
                        good.append(Case(_cfg(d), list(seq), d, "exhaustive"))
                else:
                    rr = ctx.rng(f"ex{L}")
                    for _ in range(20000):
                        good.append(Case(_cfg(d), [rr.choice(alpha) for _ in range(L)], d, "exhaustive-sample"))
    return good, malformed


def _corpus() -> list[Case]:
    """directed cases and minimised past failures (mutation runs), run first on every invocation"""
    out = []
    for f in sorted((CORPUS / "C22").glob("*.json")):
        body = json.loads(f.read_text())
        out.append(Case(body["cfg"], list(body["ops"]), body["desc"], "corpus"))
    return out


def more_cases(case: Case, rng):
    d = case.desc
    for _ in range(40):
        ops = gen_ops(rng, d, 200, rng.choice([0.5, 0.9]), rng.choice([0.3, 0.9]), hot=rng.random() < 0.7)
        if d.get("callers") == 2:
            ops = [two_line(rng, ln, d, _sim(d).prio) for ln in ops]
        yield Case(_cfg(d), ops, d, "search")


def nontrivial(case: Case, out: list[str]) -> bool:
    """a read returns a non-zero row (it met an earlier write) and some read shares a cycle with a write to its row"""
    seen_nonzero = same_cycle = False
    for line, o in zip(case.ops, out[1:]):
        rs, ws = parse_op(line)
        wa = {x[0] for x in ws if x is not None}
        same_cycle = same_cycle or any(a is not None and a in wa for a in rs)
        r = o.split()[0][2:]
        seen_nonzero = seen_nonzero or any(x not in ("-", "0") for x in r.split(","))
    return seen_nonzero and same_cycle


def run(ctx: Check):
    ctx.rule = (
        "cases = (depth, chunk width g, chunks n, granularity, read ports, write ports; history of attempted "
        "read/write calls with pairwise distinct write rows per cycle, addresses over the whole address signal range); "
        "non-trivial = some read returns a non-zero row and some read shares a cycle with a write to the same row"
    )
    ctx.proof_stage()
    good, malformed = gen_cases(ctx)
    good = _corpus() + good
    for c in good:
        ctx.count(f"ports_r{c.desc['r']}w{c.desc['w']}")
        ctx.count("granular" if c.desc["gran"] is not None else "whole_word")
    # one batch: cases with same-row simultaneous writes (tag "malformed", outside the hypothesis) are compared
    # model-vs-implementation only, the monitor does not judge them
    lockstep(ctx, "asyncmemorybank", "C22", good + malformed, impl, _monitor, more_cases, nontrivial, procs=ctx.pick(1, None))
    ctx.note("same-row simultaneous writes (outside the property's hypothesis) are compared model-vs-implementation only")


def replay(ctx: Check, body: dict):
    from ..lockstep import replay_case

    return replay_case(body, impl, monitor)
