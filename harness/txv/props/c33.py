"""C33 — event log captures and decodes events faithfully
(transactron/evlog/{emit,log,sampler,consumer,event,schema}.py, transactron/testing/evlog.py)."""

from __future__ import annotations

import enum
import itertools
import json
import os
import tempfile

from ..common import Check
from ..ctxtree import Top, TreeDesign, Watchdog, gen_tree, interp, leaf_conds
from ..lockstep import Case, lockstep

META = {
    "id": "C33",
    "design_ref": "DESIGN.md §8 C33",
    "technique": "Lean 4 theorems over pure-function models of the capture process, EventDecoder, EventLog.save/load, "
    "EventLogReader, GeneratedEvLogSampler and EventConsumer.run; lock-step correspondence with generated designs "
    "simulated in pysim with the real capture process and pushed through every real path",
    "level_text": "c33_capture_iff/_order/_one (record in log iff trigger-in-context active, sampled values, (cycle, site) "
    "order, exactly once), c33_packed_eq_persite/_packed_vector/_sampler_eq_capture, c33_save_load, c33_reader_eq, "
    "c33_same_decoded, c33_dispatch_sorted_stable are proved for every schema and every trigger/field history; the "
    "models are tied to the code by comparing, per cycle and per whole log, the records of the real capture process, "
    "of GeneratedEvLogSampler (packed / per-site) fed with the recorded signals of the real VerilogDebugWrapper, the "
    "saved file text, load, EventLogReader, EventLogWriter, the decoded events and the dispatch sequence (for a shuffled "
    "list and for run(EventLogReader) over a file that is not in cycle order); a second "
    "stream calls the real GeneratedEvLogSampler.sample directly on arbitrary reader values (also where the packed "
    "vector disagrees with the triggers: model/implementation agreement only)",
    "level_note": "trusted: Lean kernel (axioms propext, Classical.choice, Quot.sound); Python's json and dataclasses_json "
    "are ABSTRACTED: c33_save_load/c33_same_decoded assume a faithful codec (json.loads(json.dumps(v)) == v for ints and "
    "lists, schema header round-trips, an encoded record is not blank and contains no newline) - the correspondence "
    "checks this on every generated log, there is no theorem about json; Python's sorted() is modelled as a stable sort; "
    "Amaranth semantics (If/Elif/Else, comb default 0, signed sampling) and pysim; transactions in generated designs "
    "never conflict and are modelled as running iff requested (scheduling is C01-C05); the harness glue.",
}

WIDTHS = [1, 1, 2, 3, 4, 7, 8, 9, 16, 31, 32, 33, 64, 65, 70]
_uid = itertools.count()


# ----------------------------------------------------------------------------- spec generation
def gen_spec(rng, small: bool = False) -> dict:
    nsites = rng.randint(1, 3 if small else 6)
    tree = gen_tree(rng, nsites)
    nen = rng.randint(1, 2)
    enums = []
    for _ in range(nen):
        k = rng.randint(1, 4)
        lo = rng.choice([0, 0, 0, -2])
        enums.append(sorted(rng.sample(range(lo, lo + 6), k)))
    # static-only plain `enum.Enum`s (index >= nen): member values need not be ints (str-valued, mixed, int-valued)
    for _ in range(rng.randint(0, 2)):
        pool = rng.choice([["alu", "mul", "lsu", "x"], ["alu", "mul", 3, 0], [7, 1, -4, 100]])
        enums.append(rng.sample(pool, rng.randint(1, len(pool))))
    kinds = ["i", "i", "b", "o", "e"]

    def kind():
        k = rng.choice(kinds)
        return ["e", rng.randrange(nen)] if k == "e" else [k]

    nev = rng.randint(1, 3)
    events = []
    for _ in range(nev):
        ent = []
        for _ in range(rng.randint(0, 3)):
            ent.append(["d", kind()])
        for _ in range(rng.randint(0, 2)):
            k = rng.choice(["i", "s", "b", "e", "e"])
            ent.append(["s", ["e", rng.randrange(len(enums))] if k == "e" else ["o"] if k == "s" else [k]])
        rng.shuffle(ent)
        events.append(ent)
    fsigs: list = []
    whens: list = []
    sites = []
    bad_members = rng.random() < 0.1
    for _ in range(nsites):
        evk = rng.randrange(nev)
        fields = []
        statics = []
        for cls, kd in events[evk]:
            if cls == "d":
                r = rng.random()
                if kd[0] == "e" and r < 0.8:
                    fsigs.append(["e", kd[1]])
                    fields.append(["s", len(fsigs) - 1])
                elif r < 0.75:
                    if kd[0] == "b" and rng.random() < 0.5:
                        fsigs.append(["u", 1])
                    else:
                        fsigs.append([rng.choice("us"), rng.choice(WIDTHS)])
                    fields.append(["s", len(fsigs) - 1])
                elif r < 0.85 and kd[0] != "e" and fsigs:
                    fields.append(["s", rng.randrange(len(fsigs))])  # shared signal
                elif r < 0.95:
                    if kd[0] == "e":
                        fields.append(["c", rng.choice(enums[kd[1]])])
                    else:
                        fields.append(["c", rng.choice([0, 1, 5, -1, -2, 255, -129, 2**40 + 3])])
                else:
                    if kd[0] == "e":
                        fields.append(["c", rng.choice(enums[kd[1]])])
                    else:
                        fields.append(["b", rng.random() < 0.5])
            else:
                if kd[0] == "e":
                    statics.append(["e", kd[1], rng.choice(enums[kd[1]])])
                elif kd[0] == "b":
                    statics.append(["b", rng.random() < 0.5])
                elif kd[0] == "i":
                    statics.append(["i", rng.choice([0, 1, 7, -3, 2**70])])
                else:
                    statics.append(["s", "".join(rng.choice("abcxyz") for _ in range(rng.randint(0, 4)))])
        r = rng.random()
        if r < 0.35:
            when = None
        else:
            whens.append(1 if r < 0.7 else rng.randint(2, 3))
            when = len(whens) - 1
        sites.append({"ev": evk, "top": rng.random() < 0.2, "when": when, "fields": fields, "statics": statics, "src": rng.randrange(2)})
    layers = []
    for li in range(rng.randint(0, 2)):
        layers.append([[rng.randrange(nev), f"on_{li}_{i}"] for i in range(rng.randint(0, 3))])
    perm = rng.choice(["id", "rev", "rev", f"rot{rng.randint(1, 9)}"])
    return {
        "tree": tree,
        "enums": enums,
        "nint": nen,
        "events": events,
        "fsigs": fsigs,
        "whens": whens,
        "sites": sites,
        "handlers": layers,
        "perm": perm,
        "bad_members": bad_members,
    }


def fsig_shape(spec, idx):
    """(width, signed) of field input signal idx"""
    t, a = spec["fsigs"][idx]
    if t == "e":
        ms = spec["enums"][a]
        return enum_shape(ms)
    return a, t == "s"


_shape_cache: dict = {}


def enum_shape(ms):
    """(width, signed) Amaranth gives a signal shaped by an IntEnum with these member values"""
    key = ("e", tuple(ms))
    if key not in _shape_cache:
        from amaranth.hdl import Shape

        s = Shape.cast(enum.IntEnum("E", {f"M{j}": v for j, v in enumerate(ms)}))
        _shape_cache[key] = (s.width, s.signed)
    return _shape_cache[key]


def const_shape(v: int):
    """(width, signed) of `Value.cast(v)`"""
    key = ("c", v)
    if key not in _shape_cache:
        from amaranth import Value

        s = Value.cast(v).shape()
        _shape_cache[key] = (s.width, s.signed)
    return _shape_cache[key]


def site_fields(spec, i):
    """per dynamic field of site i: (width, signed, kind string for cfg, source)"""
    s = spec["sites"][i]
    ev = spec["events"][s["ev"]]
    dyn = [kd for cls, kd in ev if cls == "d"]
    out = []
    for kd, src in zip(dyn, s["fields"]):
        if src[0] == "s":
            w, sg = fsig_shape(spec, src[1])
        elif src[0] == "c":
            w, sg = const_shape(src[1])
        else:
            w, sg = const_shape(int(src[1]))
        out.append((w, sg, kind_str(spec, kd), src))
    return out


def kind_str(spec, kd):
    if kd[0] == "e":
        return "e" + ":".join(f"${v}" if isinstance(v, str) else str(v) for v in spec["enums"][kd[1]])
    return kd[0]


def site_statics(spec, i):
    s = spec["sites"][i]
    ev = spec["events"][s["ev"]]
    st = [kd for cls, kd in ev if cls == "s"]
    out = []
    for kd, v in zip(st, s["statics"]):
        if v[0] == "e":
            raw = f"s{v[2]}" if isinstance(v[2], str) else f"i{v[2]}"
        elif v[0] == "b":
            raw = f"i{int(v[1])}"
        elif v[0] == "i":
            raw = f"i{v[1]}"
        else:
            raw = f"s{v[1]}"
        out.append((kind_str(spec, kd), raw))
    return out


def cfg_line(spec) -> str:
    n = len(spec["sites"])
    toks = [f"cfg n={n}"]
    for i in range(n):
        fs = site_fields(spec, i)
        ss = site_statics(spec, i)
        toks.append(f"e{i}=E{spec['sites'][i]['ev']}")
        toks.append(f"f{i}=" + (",".join(f"{w}{'s' if sg else 'u'}.{k}" for w, sg, k, _ in fs) or "-"))
        toks.append(f"s{i}=" + (",".join(f"{k}.{r}" for k, r in ss) or "-"))
    hs = [f"E{e}>{m}" for layer in spec["handlers"] for e, m in layer]
    toks.append("h=" + (",".join(hs) or "-"))
    toks.append(f"perm={spec['perm']}")
    return " ".join(toks)


def gen_trace(rng, spec, ncycles: int, style: str) -> list[str]:
    """op lines: `cyc v=<c…>/<r…>/<when…>/<field signal bits…> s<i>=<conds>/<when>/<bits>`"""
    tree = spec["tree"]
    pc = {"dense": 0.85, "sparse": 0.25, "mixed": 0.5}[style]
    ops = []
    for _ in range(ncycles):
        cv = [int(rng.random() < pc) for _ in range(tree["nconds"])]
        rv = [int(rng.random() < pc) for _ in range(tree["nreqs"])]
        wv = [(rng.getrandbits(w) if rng.random() < pc + 0.2 else 0) for w in spec["whens"]]
        fv = []
        for idx, (t, a) in enumerate(spec["fsigs"]):
            w, sg = fsig_shape(spec, idx)
            if t == "e" and not (spec["bad_members"] and rng.random() < 0.15):
                fv.append(rng.choice(spec["enums"][a]) % (1 << w) if w else 0)
            else:
                r = rng.random()
                if w == 0:
                    fv.append(0)
                elif r < 0.1:
                    fv.append((1 << w) - 1)
                elif r < 0.2:
                    fv.append(1 << (w - 1))
                else:
                    fv.append(rng.getrandbits(w))
        ops.append(op_line(spec, cv, rv, wv, fv))
    ops.append("fin")
    return ops


def op_line(spec, cv, rv, wv, fv) -> str:
    conds = leaf_conds(spec["tree"], cv, rv)
    toks = ["cyc v=" + "/".join(",".join(str(x) for x in l) or "-" for l in (cv, rv, wv, fv))]
    for i, s in enumerate(spec["sites"]):
        cs = [] if s["top"] else conds[i]
        when = 1 if s["when"] is None else wv[s["when"]]
        bits = []
        for w, sg, _, src in site_fields(spec, i):
            if src[0] == "s":
                bits.append(fv[src[1]])
            elif src[0] == "c":
                bits.append(src[1] % (1 << w) if w else 0)
            else:
                bits.append(int(src[1]))
        toks.append(f"s{i}=" + ("".join(str(int(c)) for c in cs) or "-") + f"/{when}/" + (",".join(str(b) for b in bits) or "-"))
    return " ".join(toks)


# ----------------------------------------------------------------------------- implementation runner
class _Built:
    """one elaborated generated design with the real capture machinery attached"""

    def __init__(self, spec):
        from amaranth import Signal, signed, unsigned
        from amaranth.sim import Simulator

        from transactron.core.context import TransactronContextElaboratable
        from transactron.evlog import Event, EventSource, EvLogEnabledKey, Static, event
        from transactron.testing.evlog import capture_evlog
        from transactron.testing.tick_count import make_tick_count_process
        from transactron.utils.dependencies import DependencyContext, DependencyManager
        from transactron.utils.gen import VerilogDebugWrapper

        self.spec = spec
        uid = next(_uid)
        self.pid = os.getpid()
        nint = spec.get("nint", len(spec["enums"]))  # the first `nint` enums are IntEnums, the rest plain Enums
        self.enums = [
            (enum.IntEnum if i < nint else enum.Enum)(f"K{uid}_{i}", {f"M{j}": v for j, v in enumerate(ms)})
            for i, ms in enumerate(spec["enums"])
        ]

        def ann(kd, static):
            t = {"i": int, "b": bool, "o": object}.get(kd[0]) if kd[0] != "e" else self.enums[kd[1]]
            return Static[t] if static else t

        self.classes = []
        for k, ent in enumerate(spec["events"]):
            anns = {}
            nd = ns = 0
            for cls, kd in ent:
                if cls == "d":
                    anns[f"d{nd}"] = ann(kd, False)
                    nd += 1
                else:
                    anns[f"s{ns}"] = ann(kd, True)
                    ns += 1
            c = type(f"Ev{uid}_{k}", (Event,), {"__annotations__": anns, "__module__": __name__})
            self.classes.append(event(f"txv.c33.p{self.pid}.u{uid}.E{k}")(c))
        self.alias = {c.event_name: f"E{k}" for k, c in enumerate(self.classes)}
        self.sources = [EventSource("txv.src0"), EventSource("txv.src1.sub")]

        self.fin = []
        self.fsig = []
        for idx, (t, a) in enumerate(spec["fsigs"]):
            shape = self.enums[a] if t == "e" else (signed(a) if t == "s" else unsigned(a))
            self.fin.append(Signal(shape, name=f"fin{idx}"))
            self.fsig.append(Signal(shape, name=f"f{idx}"))
        self.wsig = [Signal(w, name=f"w{i}") for i, w in enumerate(spec["whens"])]

        def pre(m, d):
            # field signals are driven copies of the inputs: VerilogDebugWrapper ties undriven record signals
            for a, b in zip(self.fsig, self.fin):
                m.d.top_comb += a.eq(b)

        def leaf(m, i, d):
            s = spec["sites"][i]
            cls = self.classes[s["ev"]]
            kw = {}
            for name, src in zip(cls._dynamic_fields, s["fields"]):
                kw[name] = self.fsig[src[1]] if src[0] == "s" else src[1]
            for name, v in zip(cls._static_fields, s["statics"]):
                kw[name] = self.enums[v[1]](v[2]) if v[0] == "e" else v[1]
            ev = cls.hw(**kw)
            src = self.sources[s["src"]]
            args = {} if s["when"] is None else {"when": self.wsig[s["when"]]}
            if s["top"]:
                src.top_emit(ev, **args)
            else:
                src.emit(m, ev, **args)

        self.dm = DependencyManager()
        with DependencyContext(self.dm):
            self.dm.add_dependency(EvLogEnabledKey(), True)
            self.design = TreeDesign(spec["tree"], leaf, pre)
            self.wrapper = VerilogDebugWrapper(TransactronContextElaboratable(self.design, dependency_manager=self.dm))
            self.sim = Simulator(Top(self.wrapper))
            self.sim.add_clock(1e-6)
            self.sim.add_process(make_tick_count_process())
            self.log, proc = capture_evlog({"design": "generated", "uid": uid})
            self.sim.add_process(proc)
        self.first = True

    def run(self, inputs):
        """inputs: per cycle (cv, rv, wv, fv); returns recorded wrapper signals per cycle"""
        from transactron.utils.dependencies import DependencyContext

        recs = self.wrapper.evlog_records
        sigs = []
        for _, trig, fields in recs:
            sigs += [trig, *fields]
        if self.wrapper.evlog_triggers is not None:
            sigs.append(self.wrapper.evlog_triggers)
        self.recorded = []
        self._job = (inputs, sigs)
        self.log.raw.clear()
        with DependencyContext(self.dm):
            if self.first:
                self.sim.add_testbench(self._tb)
                self.first = False
            else:
                self.sim.reset()
            with Watchdog(20):
                self.sim.run()
        return self.recorded


    async def _tb(self, ctx):
        inputs, sigs = self._job
        d = self.design
        for cv, rv, wv, fv in inputs:
            for s, v in zip(d.c, cv):
                ctx.set(s, v)
            for s, v in zip(d.r, rv):
                ctx.set(s, v)
            for s, v in zip(self.wsig, wv):
                ctx.set(s, v)
            for s, v in zip(self.fin, fv):
                ctx.set(s, v)
            r = await ctx.tick().sample(*sigs)
            self.recorded.append([int(x) for x in r[2:]])


_built: dict[str, _Built] = {}


def _get(spec) -> _Built:
    key = json.dumps(spec, sort_keys=True)
    b = _built.get(key)
    if b is None or b.pid != os.getpid():
        if len(_built) > 40:
            _built.clear()
        b = _built[key] = _Built(spec)
    return b


def _ints(s):
    return [] if s in ("-", "") else [int(x) for x in s.split(",")]


def parse_v(op: str):
    t = dict(x.split("=", 1) for x in op.split()[1:])
    return [_ints(p) for p in t["v"].split("/")]


def show_evs(evs) -> str:
    return ";".join(f"{s}:{','.join(str(v) for v in vals)}" for s, vals in evs) or "-"


def show_val(v) -> str:
    if isinstance(v, enum.Enum):
        return f"e${v.value}" if isinstance(v.value, str) else f"e{v.value}"
    if isinstance(v, bool):
        return "bT" if v else "bF"
    if isinstance(v, int):
        return f"i{v}"
    return f"s{v}"


def show_dec(schema, d) -> str:
    idx = next(i for i, s in enumerate(schema.sites) if s is d.site)
    cls = type(d.event)
    dyn = ",".join(show_val(getattr(d.event, n)) for n in cls._dynamic_fields)
    st = ",".join(show_val(getattr(d.event, n)) for n in cls._static_fields)
    return f"{d.cycle}.{idx}:{dyn}~{st}"


def schema_matches(b: _Built, spec, schema) -> bool:
    if len(schema.sites) != len(spec["sites"]):
        return False
    for i, (site, s) in enumerate(zip(schema.sites, spec["sites"])):
        cls = b.classes[s["ev"]]
        if site.event_name != cls.event_name or site.source_name != b.sources[s["src"]].name:
            return False
        fs = site_fields(spec, i)
        if [(f.name, f.width, f.signed) for f in site.fields] != [(n, w, sg) for n, (w, sg, _, _) in zip(cls._dynamic_fields, fs)]:
            return False
        exp = {}
        for n, v in zip(cls._static_fields, s["statics"]):
            exp[n] = v[2] if v[0] == "e" else v[1]
        if site.statics != exp or list(site.statics) != list(exp):
            return False
    return True


def impl(case: Case) -> list[str]:
    from transactron.evlog import (
        EventConsumer,
        EventLog,
        EventLogReader,
        EventLogWriter,
        EventSiteLocation,
        GeneratedEvLog,
        GeneratedEvLogSampler,
        handles,
    )

    spec = case.desc["spec"]
    try:
        b = _get(spec)
    except Exception as e:  # noqa: BLE001
        return ["raise " + type(e).__name__] * len(case.lines())
    cyc_ops = [o for o in case.ops if o.startswith("cyc")]
    inputs = [parse_v(o) for o in cyc_ops]
    try:
        recorded = b.run(inputs)
    except Exception as e:  # noqa: BLE001
        return ["ok"] + ["raise " + type(e).__name__] * len(case.ops)
    log = b.log
    schema = log.schema
    nc = len(inputs)
    nsites = len(b.wrapper.evlog_records)

    # the recorded signals of the generated design, served to the sampler through readers
    cur: dict[str, int] = {}
    locs = []
    for i, (_, _, fields) in enumerate(b.wrapper.evlog_records):
        locs.append(EventSiteLocation(trigger=["top", f"t{i}"], fields=[["top", f"f{i}_{j}"] for j in range(len(fields))]))

    def load_cycle(k):
        row = recorded[k]
        p = 0
        for i, (_, _, fields) in enumerate(b.wrapper.evlog_records):
            cur[f"top.t{i}"] = row[p]
            p += 1
            for j in range(len(fields)):
                cur[f"top.f{i}_{j}"] = row[p]
                p += 1
        cur["top.evlog_triggers"] = row[p] if b.wrapper.evlog_triggers is not None else 0

    def resolve(handle):
        key = ".".join(handle)
        return lambda: cur[key]

    gen_packed = GeneratedEvLog(schema=schema, site_locations=locs, triggers_location=["top", "evlog_triggers"] if nsites else None)
    gen_persite = GeneratedEvLog(schema=schema, site_locations=locs, triggers_location=None)
    s_pk = GeneratedEvLogSampler(gen_packed, resolve)
    s_ps = GeneratedEvLogSampler(gen_persite, resolve)
    sink_pk = EventLog(schema)
    sink_ps = EventLog(schema)

    out = ["ok"]
    with tempfile.TemporaryDirectory(prefix="txv_c33_") as tmp:
        path = os.path.join(tmp, "log.jsonl")
        wpath = os.path.join(tmp, "stream.jsonl")
        writer = EventLogWriter(wpath, schema)
        by_cycle: dict[int, list] = {}
        for c, s, vals in log.raw:
            by_cycle.setdefault(c, []).append((s, vals))
        for k in range(nc):
            load_cycle(k)
            n0 = len(sink_pk.raw)
            s_pk.sample(k, sink_pk)
            n1 = len(sink_ps.raw)
            s_ps.sample(k, sink_ps)
            s_pk.sample(k, writer)
            pk = [(s, v) for _, s, v in sink_pk.raw[n0:]]
            ps = [(s, v) for _, s, v in sink_ps.raw[n1:]]
            pv = cur["top.evlog_triggers"]
            out.append(f"cap={show_evs(by_cycle.get(k, []))} pk={show_evs(pk)} ps={show_evs(ps)} pv={pv}")
        writer.close()
        if case.ops and case.ops[-1] == "fin":
            log.save(path)
            text = open(path).read()
            lines = text.split("\n")
            loaded = EventLog.load(path)
            reader = EventLogReader(path)
            stray = sum(1 for c, _, _ in log.raw if not (0 <= c < nc))
            grouped = [(c, s, v) for c in range(nc) for s, v in by_cycle.get(c, [])]
            ordered = [tuple(x) for x in grouped] == [(c, s, v) for c, s, v in log.raw if 0 <= c < nc]
            try:
                dec = log.decoded()
            except ValueError:
                dec = None
            try:
                ldec = loaded.decoded()
            except ValueError:
                ldec = None
            try:
                rdec = list(reader)
            except ValueError:
                rdec = None
            # streaming is a function of the file: a second pass over the same reader object, and a pass
            # started while another one is in progress, must yield the same decoded events (seed C33-7)
            try:
                it1 = iter(reader)
                head = [e for _, e in zip(range(1), it1)]
                rdec2 = list(reader)
                rdec3 = head + list(it1)
            except ValueError:
                rdec2 = rdec3 = None
            ld = loaded.schema == schema and loaded.raw == log.raw and ldec == dec
            rd = reader.schema == schema and rdec == dec and rdec2 == dec and rdec3 == dec
            wr = open(wpath).read() == text

            def same(sink):
                try:
                    sd = sink.decoded()
                except ValueError:
                    sd = None
                return sink.raw == log.raw and sd == dec

            ftxt = "|".join(l.replace(" ", "") for l in lines[1:] if l) or "-"
            pre = (
                f"n={len(log.raw)} stray={stray} ord={int(ordered)} file={ftxt} ld={int(ld)} rd={int(rd)} wr={int(wr)} "
                f"spk={int(same(sink_pk))} sps={int(same(sink_ps))} sch={int(schema_matches(b, spec, schema))}"
            )
            if dec is None:
                out.append(f"{pre} dec=! disp=! rdisp=!")
            else:
                calls: list = []
                base = EventConsumer
                for li, layer in enumerate(spec["handlers"]):
                    ns = {}
                    for evk, mname in layer:

                        def mk(mname):
                            def h(self, rec):
                                calls.append((mname, rec))

                            return h

                        ns[mname] = handles(b.classes[evk])(mk(mname))
                    base = type(f"Consumer{li}", (base,), ns)
                final = type("ConsumerTop", (base,), {"on_unhandled": lambda self, rec: calls.append(("on_unhandled", rec))})
                perm = spec["perm"]
                if perm == "id":
                    pds = list(dec)
                elif perm == "rev":
                    pds = list(reversed(dec))
                else:
                    kk = int(perm[3:]) % len(dec) if dec else 0
                    pds = dec[kk:] + dec[:kk]
                final().run(iter(pds))
                dtxt = ";".join(show_dec(schema, d) for d in dec) or "-"
                ctxt = ";".join(f"{h}@{show_dec(schema, d).split(':')[0]}" for h, d in calls) or "-"
                # a file that is NOT in cycle order: the sampler replays the second half of the cycles into an
                # EventLogWriter first, then the first half; the EventLogReader object itself is handed to run()
                mid = nc // 2
                upath = os.path.join(tmp, "unordered.jsonl")
                uw = EventLogWriter(upath, schema)
                for k in [*range(mid, nc), *range(0, mid)]:
                    load_cycle(k)
                    s_pk.sample(k, uw)
                uw.close()
                calls.clear()
                ureader = EventLogReader(upath)
                try:
                    final().run(ureader)
                    rtxt = ";".join(f"{h}@{show_dec(ureader.schema, d).split(':')[0]}" for h, d in calls) or "-"
                except ValueError:
                    rtxt = "!"
                out.append(f"{pre} dec={dtxt} disp={ctxt} rdisp={rtxt}")
    # op lines that are neither cyc nor fin do not occur; pad defensively
    while len(out) < len(case.lines()):
        out.append("bad-op")
    return out


# ----------------------------------------------------------------------------- monitor
def parse_evs(s):
    if s == "-":
        return []
    out = []
    for part in s.split(";"):
        site, vals = part.split(":")
        out.append((int(site), _ints(vals)))
    return out


def parse_cfg(cfg: str):
    t = dict(x.split("=", 1) for x in cfg.split()[1:])
    n = int(t["n"])
    sites = []
    for i in range(n):
        fs = []
        for f in ([] if t[f"f{i}"] == "-" else t[f"f{i}"].split(",")):
            ws, k = f.split(".")
            fs.append((int(ws[:-1]), ws[-1] == "s", k))
        ss = []
        for s in ([] if t[f"s{i}"] == "-" else t[f"s{i}"].split(",")):
            k, r = s.split(".")
            ss.append((k, int(r[1:]) if r[0] == "i" else r[1:]))
        sites.append({"ev": t[f"e{i}"], "fields": fs, "statics": ss})
    hs = [] if t["h"] == "-" else [tuple(h.split(">")) for h in t["h"].split(",")]
    return sites, hs, t["perm"]


def conv(kind: str, raw):
    """what Event.from_raw must produce for annotation `kind` (None = ValueError)"""
    if kind.startswith("e"):
        ms = [(x[1:] if x.startswith("$") else int(x)) for x in kind[1:].split(":")] if len(kind) > 1 else []
        if not any(type(m) is type(raw) and m == raw for m in ms):
            return None
        return f"e${raw}" if isinstance(raw, str) else f"e{raw}"
    if kind == "b":
        return "bT" if raw else "bF"
    return f"i{raw}" if isinstance(raw, int) else f"s{raw}"


def monitor(case: Case, out: list[str]):
    """The property sentence on the implementation's observations: one record for exactly each cycle and site
    whose trigger and context were active, with the sampled values; every path yields the same events;
    dispatch in cycle order."""
    if any(o.startswith("raise") for o in out):
        return f"the implementation raised: {[o for o in out if o.startswith('raise')][0]}"
    sites, hs, perm = parse_cfg(case.cfg)
    expected = []
    k = -1
    for op, o in zip(case.ops, out[1:]):
        if not op.startswith("cyc"):
            continue
        k += 1
        t = dict(x.split("=", 1) for x in op.split()[1:])
        exp = []
        for i, st in enumerate(sites):
            cs, when, bits = t[f"s{i}"].split("/")
            active = (cs == "-" or all(c == "1" for c in cs)) and int(when) != 0
            if active:
                exp.append((i, [interp(w, sg, b) for (w, sg, _), b in zip(st["fields"], _ints(bits))]))
        f = dict(x.split("=", 1) for x in o.split())
        cap, pk, ps = parse_evs(f["cap"]), parse_evs(f["pk"]), parse_evs(f["ps"])
        if cap != exp:
            return f"cycle {k}: captured records (site, values) {cap} but the sites active in context with their sampled values are {exp}"
        if pk != cap:
            return f"cycle {k}: GeneratedEvLogSampler with packed triggers reports {pk}, the capture process {cap}"
        if ps != cap:
            return f"cycle {k}: GeneratedEvLogSampler with per-site triggers reports {ps}, the capture process {cap}"
        expected += [(k, i, v) for i, v in exp]
    if not case.ops or case.ops[-1] != "fin":
        return None
    f = dict(x.split("=", 1) for x in out[-1].split())
    if int(f["n"]) != len(expected) or f["stray"] != "0" or f["ord"] != "1":
        return f"whole log: {f['n']} records ({f['stray']} outside the simulated cycles, cycle-ordered={f['ord']}), expected {len(expected)} in (cycle, site) order"
    flines = [] if f["file"] == "-" else [json.loads(l) for l in f["file"].split("|")]
    if flines != [[c, s, v] for c, s, v in expected]:
        return f"saved file holds {flines[:6]}…, the captured records are {expected[:6]}…"
    for key, what in (("ld", "EventLog.load(save(log))"), ("rd", "EventLogReader"), ("wr", "EventLogWriter stream"), ("spk", "sampler (packed) log"), ("sps", "sampler (per-site) log"), ("sch", "schema of the elaborated sites")):
        if f[key] != "1":
            return f"{what} differs from the captured log / its decoded events"
    # decoded events
    want = []
    failed = False
    for c, s, vals in expected:
        dyn = [conv(kd, v) for (_, _, kd), v in zip(sites[s]["fields"], vals)]
        st = [conv(kd, r) for kd, r in sites[s]["statics"]]
        if None in dyn or None in st:
            failed = True
            break
        want.append(f"{c}.{s}:{','.join(dyn)}~{','.join(st)}")
    if failed:
        if f["dec"] != "!":
            return "decoding accepted a value that is not a member of the annotated enum"
        return None
    got = [] if f["dec"] == "-" else f["dec"].split(";")
    if f["dec"] == "!" or got != want:
        return f"decoded events {got[:5]}… differ from the conversion of the captured records {want[:5]}…"
    # dispatch: cycle order, stable, right handler
    keys = [(c, s) for c, s, _ in expected]
    if perm == "rev":
        given = keys[::-1]
    elif perm.startswith("rot") and keys:
        kk = int(perm[3:]) % len(keys)
        given = keys[kk:] + keys[:kk]
    else:
        given = keys
    nc = sum(1 for o in case.ops if o.startswith("cyc"))
    mid = nc // 2
    unordered = [k for k in keys if k[0] >= mid] + [k for k in keys if k[0] < mid]
    for field, inp, how in (("disp", given, f"run(records in order {perm})"), ("rdisp", unordered, "run(EventLogReader(file with the later cycles first))")):
        calls = [] if f[field] == "-" else [x.split("@") for x in f[field].split(";")]
        ck = [tuple(int(z) for z in x[1].split(".")) for x in calls]
        if any(a[0] > b[0] for a, b in zip(ck, ck[1:])):
            return f"EventConsumer.{how} dispatched out of cycle order: (cycle, site) = {ck[:10]}"
        if sorted(ck) != sorted(inp):
            return f"EventConsumer.{how} did not dispatch exactly the given records"
        for c in {c for c, _ in inp}:
            if [x for x in ck if x[0] == c] != [x for x in inp if x[0] == c]:
                return f"EventConsumer.{how} reordered the records of cycle {c}"
        for (h, _), (c, s_) in zip(calls, ck):
            wanth = "on_unhandled"
            for e, m in hs:
                if e == sites[s_]["ev"]:
                    wanth = m
            if h != wanth:
                return f"EventConsumer.{how}: record ({c}, site {s_}) of event {sites[s_]['ev']} went to {h}, registered handler is {wanth}"
    return None


# ----------------------------------------------------------------------------- cases
def mk_case(spec, ops, tag) -> Case:
    depth = leaf_conds(spec["tree"], [1] * spec["tree"]["nconds"], [1] * spec["tree"]["nreqs"])
    desc = {
        "component": "evlog",
        "nsites": len(spec["sites"]),
        "max_ctx_depth": max([len(v) for v in depth.values()] or [0]),
        "spec": spec,
    }
    return Case(cfg_line(spec), ops, desc, tag)


def directed_specs():
    """hand-written site sets: the test-suite circuit shape, all kinds side by side, a field-less site"""
    t1 = {"nconds": 1, "nreqs": 0, "top": [{"k": "if", "conds": [0], "else": False, "branches": [[{"k": "leaf", "id": 0}]]}, {"k": "leaf", "id": 1}], "methods": []}
    s1 = {
        "tree": t1, "enums": [[0, 1]], "events": [[["d", ["i"]], ["d", ["i"]], ["d", ["e", 0]], ["s", ["i"]]], [["d", ["i"]], ["s", ["o"]]]],
        "fsigs": [["u", 4], ["u", 8], ["e", 0]], "whens": [1],
        "sites": [
            {"ev": 0, "top": False, "when": None, "fields": [["s", 0], ["s", 1], ["s", 2]], "statics": [["i", 0]], "src": 0},
            {"ev": 1, "top": False, "when": 0, "fields": [["s", 0]], "statics": [["s", "done"]], "src": 0},
        ],
        "handlers": [[[0, "on_start"]]], "perm": "rev", "bad_members": False,
    }
    t2 = {"nconds": 2, "nreqs": 1, "top": [{"k": "tr", "req": 0, "body": [{"k": "if", "conds": [0, 1], "else": True, "branches": [[{"k": "leaf", "id": 0}], [{"k": "leaf", "id": 1}], [{"k": "leaf", "id": 2}]]}]}, {"k": "leaf", "id": 3}], "methods": []}
    s2 = {
        "tree": t2, "enums": [[-2, 0, 1]], "events": [[["d", ["i"]], ["d", ["b"]], ["d", ["e", 0]], ["d", ["o"]], ["s", ["b"]], ["s", ["e", 0]]], []],
        "fsigs": [["s", 1], ["s", 65], ["e", 0], ["u", 33]], "whens": [3],
        "sites": [
            {"ev": 0, "top": False, "when": 0, "fields": [["s", 1], ["s", 0], ["s", 2], ["s", 3]], "statics": [["b", True], ["e", 0, -2]], "src": 1},
            {"ev": 0, "top": False, "when": None, "fields": [["c", -129], ["b", True], ["c", 1], ["c", 2**40 + 3]], "statics": [["b", False], ["e", 0, 1]], "src": 0},
            {"ev": 1, "top": False, "when": None, "fields": [], "statics": [], "src": 0},
            {"ev": 1, "top": True, "when": 0, "fields": [], "statics": [], "src": 1},
        ],
        "handlers": [[[0, "on_a"], [1, "on_b"]], [[0, "on_c"]]], "perm": "rot3", "bad_members": False,
    }
    return [s1, s2]


def gen_cases(ctx: Check) -> list[Case]:
    rng = ctx.rng("gen")
    cases = []
    for spec in directed_specs():
        for style in ("dense", "mixed"):
            cases.append(mk_case(spec, gen_trace(rng, spec, 24, style), "directed"))
    nspecs = ctx.pick(40, 1500)
    for k in range(nspecs):
        spec = gen_spec(rng, small=(k % 5 == 0))
        for style in (("dense", "mixed", "sparse") if ctx.thorough else (rng.choice(["dense", "mixed"]), "sparse")):
            n = rng.choice([1, 6, 12, 20]) if style != "sparse" else 10
            cases.append(mk_case(spec, gen_trace(rng, spec, n, style), "random"))
    return cases


def more_cases(case: Case, rng):
    spec = case.desc["spec"]
    for i in range(30):
        yield mk_case(spec, gen_trace(rng, spec, 12, rng.choice(["dense", "mixed"])), "search")
    for i in range(60):
        sp = gen_spec(rng, small=True)
        yield mk_case(sp, gen_trace(rng, sp, 10, "dense"), "search")


def nontrivial(case: Case, out: list[str]) -> bool:
    """some cycle with >= 2 records, some cycle where a site with non-zero `when` stayed silent because of
    its context, and a non-empty dispatch"""
    multi = ctxblocked = False
    for op, o in zip(case.ops, out[1:]):
        if not op.startswith("cyc") or not o.startswith("cap="):
            continue
        if o.split()[0].count(":") >= 2:
            multi = True
        for tok in op.split()[2:]:
            cs, when, _ = tok.split("=", 1)[1].split("/")
            if cs != "-" and "0" in cs and when != "0":
                ctxblocked = True
    return multi and ctxblocked and " disp=-" not in out[-1] and "disp=!" not in out[-1]


# ----------------------------------------------------------------------------- sampler alone (any reader values)
def impl_smp(case: Case) -> list[str]:
    """direct calls of the real GeneratedEvLogSampler.sample on arbitrary reader values"""
    from transactron.evlog import (
        EventFieldSchema,
        EventLog,
        EventSiteLocation,
        EventSiteSchema,
        EvLogSchema,
        GeneratedEvLog,
        GeneratedEvLogSampler,
    )

    out = ["ok"]
    for op in case.ops:
        t = dict(x.split("=", 1) for x in op.split()[1:])
        sites = [] if t["s"] == "-" else [x.split(":") for x in t["s"].split(";")]
        vals: dict[str, int] = {}
        locs = []
        ss = []
        for i, (tr, vs) in enumerate(sites):
            fv = _ints(vs)
            vals[f"t{i}"] = int(tr)
            for j, v in enumerate(fv):
                vals[f"f{i}_{j}"] = v
            locs.append(EventSiteLocation(trigger=[f"t{i}"], fields=[[f"f{i}_{j}"] for j in range(len(fv))]))
            ss.append(EventSiteSchema("src", "txv.none", ("gen", i), [EventFieldSchema(f"f{j}", 8) for j in range(len(fv))], {}))
        schema = EvLogSchema(sites=ss)

        def resolve(h):
            return lambda: vals[h[0]]

        res = []
        for packed in ([t["p"]] if t["p"] != "-" else []) + [None]:
            if packed is not None:
                vals["packed"] = int(packed)
            gen = GeneratedEvLog(schema=schema, site_locations=locs, triggers_location=["packed"] if packed is not None else None)
            sink = EventLog(schema)
            try:
                GeneratedEvLogSampler(gen, resolve).sample(int(t["c"]), sink)
                if any(c != int(t["c"]) for c, _, _ in sink.raw):
                    res.append("cycle-mismatch")
                else:
                    res.append(show_evs([(s_, v) for _, s_, v in sink.raw]))
            except Exception as e:  # noqa: BLE001
                res.append("raise-" + type(e).__name__)
        if t["p"] == "-":
            res = ["x", *res]
        out.append(f"pk={res[0]} ps={res[1]}")
    return out


def monitor_smp(case: Case, out: list[str]):
    """per-site sampling reports exactly the sites whose trigger reads non-zero, with the values read; with a packed
    vector whose bit i is trigger i the same records are reported"""
    for k, (op, o) in enumerate(zip(case.ops, out[1:])):
        t = dict(x.split("=", 1) for x in op.split()[1:])
        sites = [] if t["s"] == "-" else [x.split(":") for x in t["s"].split(";")]
        exp = [(i, _ints(vs)) for i, (tr, vs) in enumerate(sites) if int(tr) != 0]
        f = dict(x.split("=", 1) for x in o.split())
        if "raise" in o or "mismatch" in o:
            return f"sample call {k}: {o}"
        if parse_evs(f["ps"]) != exp:
            return f"sample call {k}: per-site sampling reports {f['ps']}, sites with non-zero trigger are {exp}"
        if t["p"] != "-":
            p = int(t["p"])
            if all(((p >> i) & 1) == int(int(tr) != 0) for i, (tr, _) in enumerate(sites)) and f["pk"] != f["ps"]:
                return f"sample call {k}: packed vector {p:#b} agrees with the triggers but packed sampling reports {f['pk']}, per-site {f['ps']}"
    return None


def gen_smp_cases(ctx: Check) -> list[Case]:
    rng = ctx.rng("smp")
    cases = []
    for _ in range(ctx.pick(25, 2000)):
        ops = []
        for _ in range(12):
            n = rng.choice([0, 1, 2, 3, 5, 9, 17, 33, 65])
            trigs = [rng.choice([0, 0, 1, 1, 2, 255]) for _ in range(n)]
            sites = [f"{tr}:{','.join(str(rng.randint(-5, 300)) for _ in range(rng.randint(0, 3)))}" for tr in trigs]
            good = sum((1 << i) for i, tr in enumerate(trigs) if tr)
            mode = rng.random()
            if mode < 0.15:
                p = "-"
            elif mode < 0.6:
                p = str(good | (rng.getrandbits(3) << n if rng.random() < 0.5 else 0))  # garbage above the site bits
            else:
                p = str(rng.getrandbits(n + 1))  # bit i need not be trigger i
            ops.append(f"smp c={rng.randint(0, 10**6)} p={p} s={';'.join(sites) or '-'}")
        cases.append(Case("cfg n=0 h=- perm=id", ops, {"component": "sampler"}, "random"))
    return cases


def load_corpus() -> list[Case]:
    from ..common import CORPUS

    out = []
    for f in sorted((CORPUS / "C33").glob("*.json")):
        b = json.loads(f.read_text())
        out.append(Case(b["cfg"], b["ops"], b["desc"], "corpus"))
    return out


def run(ctx: Check):
    ctx.rule = (
        "cases = (generated design: 1-6 emission sites with random event types (int/bool/enum/other dynamic fields, "
        "int/str/bool/enum statics incl. plain Enums with str-valued / mixed / int member values), field signals of widths 1-70 signed/unsigned/enum-shaped or constants, `when` absent/1-bit/"
        "multi-bit, emit inside nested If/Elif/Else, transaction bodies, method bodies, or top_emit; a trace of condition/"
        "request/when/field values; a consumer handler table and a record order; the consumer is also run on the EventLogReader object of a file "
        "written with the later half of the cycles first); non-trivial = a cycle with >= 2 records, "
        "a cycle where a site with non-zero `when` is silenced by its context, and a non-empty dispatch sequence"
    )
    ctx.assumptions.append(
        "Python json/dataclasses_json: json.loads(json.dumps(v)) == v for ints and lists, the schema header round-trips, "
        "an encoded record contains no newline and is not blank (Codec.Faithful in TxV/Model/EvLog.lean); checked on every "
        "generated log by the correspondence, not proved"
    )
    ctx.proof_stage()
    corpus = load_corpus()
    cases = [c for c in corpus if c.desc.get("component") == "evlog"] + gen_cases(ctx)
    for c in cases:
        ctx.count("sites_total", c.desc["nsites"])
        ctx.count(f"ctx_depth_{min(c.desc['max_ctx_depth'], 4)}")
    lockstep(ctx, "evlog", "C33", cases, impl, monitor, more_cases, nontrivial, procs=1 if ctx.quick else None)
    # the sampler alone, on arbitrary reader values (also where the packed vector disagrees with the triggers:
    # there only model and implementation are compared, the property makes no claim)
    scases = [c for c in corpus if c.desc.get("component") == "sampler"] + gen_smp_cases(ctx)
    lockstep(
        ctx, "sampler", "C33", scases, impl_smp, monitor_smp, None,
        lambda c, o: any(o_.split()[1].count(":") >= 2 for o_ in o[1:] if o_.startswith("pk=")),
        procs=1,
    )


def replay(ctx: Check, body: dict):
    from ..lockstep import replay_case

    if body.get("desc", {}).get("component") == "sampler":
        return replay_case(body, impl_smp, monitor_smp)
    return replay_case(body, impl, monitor)
