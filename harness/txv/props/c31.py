"""C31 — hardware counters and histograms count exactly (transactron/lib/metrics.py:212-504)."""

from __future__ import annotations

import enum
import json
from typing import Optional

from ..common import Check
from ..lockstep import Case, lockstep
from ..simrun import CompSim

META = {
    "id": "C31",
    "design_ref": "DESIGN.md §7 C31, §11 F3/F4",
    "technique": "Lean 4 theorems over hand-written step models of HwCounter, TaggedCounter (one-hot and compare "
    "paths) and HwExpHistogram (history induction, registers modulo width); lock-step correspondence of the "
    "models with the real components in pysim (metrics enabled through the dependency context), registers read "
    "back through their signals; Python-level check of the metrics-disabled clause on the real objects",
    "level_text": "c31_counter, c31_tagged(+_other), c31_hist_count_sum, c31_hist_min_max, c31_hist_buckets and "
    "c31_hist_bucket_log2 are proved for every register/sample width, every number of ways, every tag list and "
    "every call history and every bucket_count >= 1 (bucket_count = 1, the repaired finding F4, has its own "
    "regression theorem c31_hist_one_bucket and is generated like any other configuration). The models are tied to the code by cycle-exact comparison of done bits and all registers over "
    "random/directed histories for many widths, way counts, tag sets (range / Enum / list, negative values, "
    "one-hot sets incl. the former F3 witnesses) and bucket configurations",
    "level_note": "trusted: Lean kernel, axioms propext/Classical.choice/Quot.sound; Amaranth semantics and pysim; "
    "the harness glue. Modelled not verified: popcount/sum_value/min_value/max_value as folds (their tree shape "
    "is C36), Shape.cast of the tag shape (the hypothesis 'tags fit the tag signal' is checked on the real "
    "objects), the TransactionManager wiring of conflict-free always-ready methods (C01-C05). The "
    "metrics-disabled clause is a check on the real Python objects only (no theorem).",
}

# --------------------------------------------------------------------------------------------
# real components


def _enable():
    from transactron.lib.metrics import HwMetricsEnabledKey
    from transactron.utils.dependencies import DependencyContext

    DependencyContext.get().add_dependency(HwMetricsEnabledKey(), True)


def _tags_object(desc: dict):
    """the `tags` constructor argument described by the case descriptor"""
    kind = desc["tagkind"]
    if kind == "range":
        return range(*desc["range"])
    if kind == "list":
        return list(desc["tags"])
    if kind == "intenum":
        return enum.IntEnum("E", {f"V{i}": v for i, v in enumerate(desc["tags"])})
    if kind == "enum":
        return enum.Enum("E", {f"V{i}": v for i, v in enumerate(desc["tags"])})
    raise ValueError(kind)


def _tag_values(desc: dict) -> list[int]:
    return list(range(*desc["range"])) if desc["tagkind"] == "range" else list(desc["tags"])


_sims: dict[str, object] = {}


def _sim(desc: dict):
    """CompSim of the real component for a descriptor, or the exception its construction raised"""
    key = json.dumps(desc, sort_keys=True)
    if key in _sims:
        return _sims[key]
    from transactron.lib.metrics import HwCounter, HwExpHistogram, TaggedCounter

    comp = desc["component"]

    def make():
        _enable()
        if comp == "HwCounter":
            return HwCounter("v.counter", width_bits=desc["w"], ways=desc["ways"])
        if comp == "TaggedCounter":
            return TaggedCounter("v.tagged", tags=_tags_object(desc), registers_width=desc["w"], ways=desc["ways"])
        if comp == "HwExpHistogram":
            return HwExpHistogram(
                "v.hist", bucket_count=desc["n"], sample_width=desc["sw"], registers_width=desc["rw"], ways=desc["ways"]
            )
        raise ValueError(comp)

    def make2():
        """the real metric inside a wrapper with TWO callers (methods a[k], b[k], each driven by its own
        AdapterTrans = its own transaction) of every way of the metric's method vector"""
        from amaranth import Elaboratable
        from transactron import Methods, TModule, def_methods

        metric = make()
        meth = metric.incr if comp != "HwExpHistogram" else metric.add
        layout = list(meth[0].layout_in.members.items())

        class TwoCallers(Elaboratable):
            def __init__(self):
                self.metric = metric
                self.a = Methods(len(meth), i=layout)
                self.b = Methods(len(meth), i=layout)

            def elaborate(self, platform):
                m = TModule()
                m.submodules.metric = metric
                for ms in (self.a, self.b):

                    @def_methods(m, ms)
                    def _(k, arg):
                        meth[k](m, arg)

                return m

        return TwoCallers()

    try:
        sim = CompSim(make2 if desc.get("callers") == 2 else make)
        if desc.get("callers") == 2:
            # static priority of the real manager between the two callers of a way: probe one cycle with every caller attempting
            r = sim.run([{f"{c}[{k}]": 0 for c in "ab" for k in range(desc["ways"])}])[0]
            sim.prio = [0 if r[("a", k)] is not None else 1 for k in range(desc["ways"])]
    except Exception as e:  # noqa: BLE001 - an exception of the real code is an observation
        sim = e
    _sims[key] = sim
    return sim


def _metric(sim, desc):
    return sim.dut.metric if desc.get("callers") == 2 else sim.dut


def tag_shape_info(desc: dict) -> tuple[int, bool]:
    """(width, signed) of the real tag signal; falls back to the documented shape when construction raises"""
    from amaranth import Shape

    sim = _sim(desc)
    if isinstance(sim, Exception):
        vals = _tag_values(desc)
        sh = Shape.cast(range(min(vals), max(vals) + 1))
    else:
        sh = Shape.cast(_metric(sim, desc).tag_shape)
    return sh.width, sh.signed


def _opt_list(tok: str) -> list[Optional[int]]:
    return [None if x == "-" else int(x) for x in tok.split(",")]


def _fields(line: str) -> dict:
    return dict(x.split("=", 1) for x in line.split() if "=" in x)


def _lst(xs) -> str:
    xs = list(xs)
    return ",".join(str(int(x)) for x in xs) if xs else "-"


def _attempts(line: str, key: str, two: bool) -> list[list[Optional[int]]]:
    """per caller, the attempted call per way"""
    f = _fields(line)
    return [_opt_list(f[key])] + ([_opt_list(f[key + "2"])] if two else [])


def impl(case: Case) -> list[str]:
    desc = case.desc
    sim = _sim(desc)
    if isinstance(sim, Exception):
        return [f"raise {type(sim).__name__}"] * len(case.lines())
    comp = desc["component"]
    ways = desc["ways"]
    two = desc.get("callers") == 2
    names = ["a", "b"] if two else ["incr" if comp != "HwExpHistogram" else "add"]
    key = {"HwCounter": "i", "TaggedCounter": "t", "HwExpHistogram": "s"}[comp]
    tw = tag_shape_info(desc)[0] if comp == "TaggedCounter" else 0

    def arg(v):
        if v is None:
            return None
        if comp == "HwCounter":
            return 0 if v else None
        if comp == "TaggedCounter":
            return v & ((1 << tw) - 1)
        return v

    ops = []
    for line in case.ops:
        att = _attempts(line, key, two)
        ops.append({f"{nm}[{k}]": arg(att[c][k]) for c, nm in enumerate(names) for k in range(ways)})
    if comp == "HwCounter":
        regs = lambda d: [_metric(sim, desc).count.value]  # noqa: E731
    elif comp == "TaggedCounter":
        regs = lambda d: [c.value for c in _metric(sim, desc).counters.values()]  # noqa: E731
    else:
        regs = lambda d: (lambda h: [h.count.value, h.sum.value, h.min.value, h.max.value] + [b.value for b in h.buckets])(_metric(sim, desc))  # noqa: E731
    tr = sim.run(ops, extra=regs)
    out = ["ok"]
    for r in tr:
        e = r["_extra"]
        d = " ".join(f"d{'' if c == 0 else c + 1}={_lst(r[(nm, k)] is not None for k in range(ways))}" for c, nm in enumerate(names))
        if comp == "HwCounter":
            out.append(f"{d} cnt={e[0]}")
        elif comp == "TaggedCounter":
            out.append(f"{d} oh={int(_metric(sim, desc).one_hot)} c={_lst(e)}")
        else:
            out.append(f"{d} cnt={e[0]} sum={e[1]} min={e[2]} max={e[3]} b={_lst(e[4:])}")
    return out


# --------------------------------------------------------------------------------------------
# property monitor (independent of the Lean model)


def bucket_of(n: int, x: int) -> int:
    """index of the documented bucket [0,1); [1,2); [2,4); ...; [2^(n-2), inf) containing x (n >= 1)"""
    for i in range(n):
        lo = 0 if i == 0 else 2 ** (i - 1)
        hi = None if i == n - 1 else 2**i
        if lo <= x and (hi is None or x < hi):
            return i
    raise AssertionError


def _executed(case: Case, k: int, op: str, o: str, key: str):
    """(failure, executed calls of this cycle as a list of arguments) from attempts and done bits of all callers:
    a call executes only if attempted; with several callers of one way (exclusive method) at most one executes"""
    two = case.desc.get("callers") == 2
    att = _attempts(op, key, two)
    if key == "i":
        att = [[1 if x else None for x in a] for a in att]
    f = _fields(o)
    done = [_opt_list(f["d"])] + ([_opt_list(f["d2"])] if two else [])
    calls = []
    for w in range(case.desc["ways"]):
        ex = [c for c in range(len(att)) if done[c][w]]
        for c in ex:
            if att[c][w] is None:
                return f"cycle {k}: way {w} caller {c} executed without being attempted", None
        if not two and (att[0][w] is not None) != bool(done[0][w]):
            return f"cycle {k}: way {w} attempted {att[0][w]} executed {done[0][w]} (the method cannot block)", None
        calls.extend(att[c][w] for c in ex)
    return None, calls


def _one_per_way(case: Case, out: list[str]) -> Optional[str]:
    """two callers of one way of an exclusive method never both execute in a cycle (checked after the counting clauses)"""
    if case.desc.get("callers") != 2:
        return None
    for k, o in enumerate(out[1:-1]):  # not in the last cycle: its effect on the registers is not observed yet
        f = _fields(o)
        for w, (x, y) in enumerate(zip(_opt_list(f["d"]), _opt_list(f["d2"]))):
            if x and y:
                return f"cycle {k}: both callers of way {w} executed in the same cycle"
    return None


def monitor(case: Case, out: list[str]):
    desc = case.desc
    comp = desc["component"]
    if out[0] != "ok":
        return f"{comp}({ {k: v for k, v in desc.items() if k != 'component'} }): construction/elaboration: {out[0]}"
    if comp == "HwCounter":
        mod = 2 ** desc["w"]
        n = 0
        for k, (op, o) in enumerate(zip(case.ops, out[1:])):
            fail, calls = _executed(case, k, op, o, "i")
            if fail:
                return fail
            f = _fields(o)
            if int(f["cnt"]) != n % mod:
                return f"cycle {k}: count={f['cnt']} after {n} executed incr calls (mod {mod} = {n % mod})"
            n += len(calls)
        return _one_per_way(case, out)
    if comp == "TaggedCounter":
        mod = 2 ** desc["w"]
        vals = _tag_values(desc)
        tw, signed = tag_shape_info(desc)
        lo, hi = (-(1 << (tw - 1)), 1 << (tw - 1)) if signed else (0, 1 << tw)
        if any(not (lo <= v < hi) for v in vals):
            return f"tag values {vals} do not fit the tag signal ({'signed' if signed else 'unsigned'} {tw} bits)"
        cnt = {v: 0 for v in vals}
        for k, (op, o) in enumerate(zip(case.ops, out[1:])):
            fail, calls = _executed(case, k, op, o, "t")
            if fail:
                return fail
            f = _fields(o)
            regs = _opt_list(f["c"])
            want = [cnt[v] % mod for v in vals]
            if regs != want:
                return f"cycle {k}: counters {dict(zip(vals, regs))} but executed calls per tag {cnt} (mod {mod})"
            for t in calls:
                if t in cnt:
                    cnt[t] += 1
        return _one_per_way(case, out)
    if comp == "HwExpHistogram":
        n, sw, rw = desc["n"], desc["sw"], desc["rw"]
        mod = 2**rw
        samples: list[int] = []
        for k, (op, o) in enumerate(zip(case.ops, out[1:])):
            fail, calls = _executed(case, k, op, o, "s")
            if fail:
                return fail
            f = _fields(o)
            want = {
                "cnt": len(samples) % mod,
                "sum": sum(samples) % mod,
                "min": min(samples) if samples else 2**sw - 1,
                "max": max(samples) if samples else 0,
            }
            for key, v in want.items():
                if int(f[key]) != v:
                    return f"cycle {k}: {key}={f[key]} but executed samples so far {samples[-12:]} (n={len(samples)}) give {v}"
            b = [0] * n
            for x in samples:
                b[bucket_of(n, x)] += 1
            if _opt_list(f["b"]) != [x % mod for x in b]:
                return f"cycle {k}: buckets={f['b']} but documented ranges give {[x % mod for x in b]} for samples {samples[-12:]} (n={len(samples)})"
            samples.extend(calls)
        return _one_per_way(case, out)
    raise ValueError(comp)


# --------------------------------------------------------------------------------------------
# generators


def _cfg(desc: dict) -> str:
    comp = desc["component"]
    prio = ""
    if desc.get("callers") == 2:  # which caller the real manager prefers, per way (static priority, probed once)
        sim = _sim(desc)
        prio = " prio=" + _lst(getattr(sim, "prio", [0] * desc["ways"]))
    if comp == "HwCounter":
        return f"cfg kind=counter w={desc['w']} ways={desc['ways']}{prio}"
    if comp == "TaggedCounter":
        tw, _ = tag_shape_info(desc)
        return f"cfg kind=tagged w={desc['w']} tw={tw} ways={desc['ways']} tags={_lst(_tag_values(desc))}{prio}"
    return f"cfg kind=hist n={desc['n']} sw={desc['sw']} rw={desc['rw']} ways={desc['ways']}{prio}"


def _cyc(desc: dict, key: str, one) -> str:
    """one op line: `one()` draws the attempt of one caller on one way"""
    ways = desc["ways"]
    line = f"cyc {key}=" + _opt(one() for _ in range(ways))
    if desc.get("callers") == 2:
        line += f" {key}2=" + _opt(one() for _ in range(ways))
    return line


def _opt(xs) -> str:
    return ",".join("-" if x is None else str(x) for x in xs)


def counter_case(desc: dict, rng, n: int, p: float, tag="random") -> Case:
    ops = [_cyc(desc, "i", lambda: int(rng.random() < p)) for _ in range(n)]
    return Case(_cfg(desc), ops, desc, tag)


def tagged_case(desc: dict, rng, n: int, p: float, tag="random") -> Case:
    tw, signed = tag_shape_info(desc)
    lo, hi = (-(1 << (tw - 1)), 1 << (tw - 1)) if signed else (0, 1 << tw)
    vals = _tag_values(desc)

    def one():
        if rng.random() >= p:
            return None
        # mostly declared tags, sometimes any value of the tag signal (calls that must not count)
        return rng.choice(vals) if rng.random() < 0.75 else rng.randrange(lo, hi)

    ops = [_cyc(desc, "t", one) for _ in range(n)]
    return Case(_cfg(desc), ops, desc, tag)


def hist_case(desc: dict, rng, n: int, p: float, tag="random") -> Case:
    sw = desc["sw"]

    def one():
        if rng.random() >= p:
            return None
        r = rng.random()
        if r < 0.15:
            return 0
        if r < 0.5:  # powers of two and their neighbours: the bucket boundaries
            b = 1 << rng.randrange(sw)
            return min(max(b + rng.choice((-1, 0, 0, 1)), 0), 2**sw - 1)
        return rng.randrange(2**sw)

    ops = [_cyc(desc, "s", one) for _ in range(n)]
    return Case(_cfg(desc), ops, desc, tag)


def hist_heavy_case(desc: dict, rng, n: int, tag="random-heavy") -> Case:
    """(nearly) all ways add (nearly) maximal samples in the same cycle: the per-cycle total of the samples needs
    sample_width + ceil(log2 ways) bits - exercises the full-precision sum over the ways"""
    mx = 2 ** desc["sw"] - 1

    def one():
        r = rng.random()
        if r < 0.08:
            return None
        if r < 0.55:
            return mx
        if r < 0.75:
            return max(mx - 1, 0)
        if r < 0.85:
            return 0
        return rng.randrange(mx + 1)

    ops = [_cyc(desc, "s", one) for _ in range(n)]
    return Case(_cfg(desc), ops, desc, tag)


# former F3 witnesses (IndexError at elaboration before the repair) - always run
F3_WITNESSES = [
    {"tagkind": "list", "tags": [2, 4]},
    {"tagkind": "list", "tags": [1, 4]},
    {"tagkind": "enum", "tags": [2, 8]},
    {"tagkind": "intenum", "tags": [2, 8]},
    {"tagkind": "list", "tags": [1, 2, 8]},
    {"tagkind": "list", "tags": [8, 2]},
    {"tagkind": "range", "range": [2, 3]},
]


def gen_cases(ctx: Check) -> dict[str, list[Case]]:
    rng = ctx.rng("gen")
    n = ctx.pick(100, 600)
    counters, tagged, hists = [], [], []
    # ---- HwCounter
    cfgs = [(1, 1), (2, 3), (3, 2), (3, 5), (4, 1), (5, 8), (32, 2)]
    if ctx.thorough:
        cfgs += [(w, ways) for w in (1, 2, 3, 4, 6) for ways in (1, 2, 3, 4, 7, 9)]
    cfgs += [(rng.randrange(1, 7), rng.randrange(1, 7)) for _ in range(ctx.pick(3, 20))]
    for w, ways in cfgs:
        d = {"component": "HwCounter", "w": w, "ways": ways}
        counters.append(Case(_cfg(d), ["cyc i=" + _opt([1] * ways)] * (2**min(w, 5) // ways + 3) + ["cyc i=" + _opt([0] * ways)], d, "directed"))
        for p in (0.3, 0.8):
            counters.append(counter_case(d, rng, n, p))
    # ---- TaggedCounter
    tagsets: list[dict] = [dict(x) for x in F3_WITNESSES]
    tagsets += [
        {"tagkind": "range", "range": [0, 5]},
        {"tagkind": "range", "range": [1, 3]},  # {1, 2}: one-hot
        {"tagkind": "range", "range": [-3, 4]},
        {"tagkind": "range", "range": [0, 10, 3]},
        {"tagkind": "range", "range": [1, 2]},
        {"tagkind": "list", "tags": [1, 2, 4]},
        {"tagkind": "list", "tags": [4, 1, 2, 8]},
        {"tagkind": "list", "tags": [0, 1, 2]},
        {"tagkind": "list", "tags": [-2, 0, 3]},
        {"tagkind": "list", "tags": [-8, -1, 7]},
        {"tagkind": "list", "tags": [5]},
        {"tagkind": "list", "tags": [16]},
        {"tagkind": "list", "tags": [3, 6, 12]},
        {"tagkind": "enum", "tags": [0, 1, 2, 3]},
        {"tagkind": "intenum", "tags": [1, 2, 4]},
        {"tagkind": "intenum", "tags": [-1, 5]},
        {"tagkind": "enum", "tags": [4, 16]},
    ]
    for _ in range(ctx.pick(6, 60)):
        r = rng.random()
        if r < 0.35:  # random one-hot subsets
            k = rng.randrange(1, 5)
            ts = rng.sample([1 << i for i in range(6)], k)
            tagsets.append({"tagkind": rng.choice(["list", "enum", "intenum"]), "tags": ts})
        elif r < 0.7:
            k = rng.randrange(1, 6)
            ts = rng.sample(range(-9, 20), k)
            tagsets.append({"tagkind": rng.choice(["list", "intenum"]), "tags": ts})
        else:
            a = rng.randrange(-6, 6)
            tagsets.append({"tagkind": "range", "range": [a, a + rng.randrange(1, 9)]})
    for i, ts in enumerate(tagsets):
        d = {"component": "TaggedCounter", **ts, "w": rng.choice([1, 2, 3, 4]) if i % 5 else 32, "ways": 1 + (i % 3)}
        vals = _tag_values(d)
        # directed: every tag twice on way 0, all ways at once with the same tag
        dops = ["cyc t=" + _opt([v] + [None] * (d["ways"] - 1)) for v in vals for _ in range(2)]
        dops += ["cyc t=" + _opt([v] * d["ways"]) for v in vals] + ["cyc t=" + _opt([None] * d["ways"])]
        tagged.append(Case(_cfg(d), dops, d, "witness-f3" if i < len(F3_WITNESSES) else "directed"))
        tagged.append(tagged_case(d, rng, n, 0.7))
    # ---- HwExpHistogram (bucket_count >= 1; the single-bucket case is the repaired finding F4)
    hc = [(1, 3, 4, 1), (1, 1, 2, 2), (1, 4, 3, 3), (2, 1, 3, 1), (2, 3, 3, 2), (3, 2, 4, 1), (4, 3, 2, 2), (5, 4, 6, 2), (6, 4, 5, 3), (3, 5, 4, 2), (7, 3, 6, 1), (6, 5, 32, 2), (9, 8, 5, 1)]
    if ctx.thorough:
        hc += [(nb, sw, 4, ways) for nb in range(1, 8) for sw in range(1, 6) for ways in (1, 3)]
    hc += [(rng.randrange(1, 9), rng.randrange(1, 7), rng.randrange(1, 8), rng.randrange(1, 5)) for _ in range(ctx.pick(4, 30))]
    f4d = {"component": "HwExpHistogram", "n": 1, "sw": 3, "rw": 4, "ways": 1}
    hists.append(Case(_cfg(f4d), ["cyc s=0", "cyc s=1", "cyc s=5", "cyc s=-"], f4d, "witness-f4"))
    for nb, sw, rw, ways in hc:
        d = {"component": "HwExpHistogram", "n": nb, "sw": sw, "rw": rw, "ways": ways}
        # directed: every sample value once (all values for small widths), then idle
        allv = list(range(2**sw)) if sw <= 5 else [0, 1, 2, 3, 4, 7, 8, 2**sw - 1]
        dops = ["cyc s=" + _opt([v] + [None] * (ways - 1)) for v in allv] + ["cyc s=" + _opt([None] * ways)]
        hists.append(Case(_cfg(d), dops, d, "directed"))
        for p in (0.4, 0.9):
            hists.append(hist_case(d, rng, n, p))
    # ---- many ways (in particular not a power of two) all adding near-maximal samples in one cycle; the sum register is
    #      wide enough (rw > sw + log2 ways) for a lost carry of the per-cycle total to be visible
    hw = [(4, 4, 8, 3), (3, 3, 8, 5), (5, 2, 6, 6), (4, 3, 32, 7), (3, 1, 5, 3), (4, 4, 9, 4)]
    if ctx.thorough:
        hw += [(4, sw, sw + 5, ways) for sw in (1, 2, 3, 5) for ways in (2, 3, 5, 6, 7, 8, 9)]
    for nb, sw, rw, ways in hw:
        d = {"component": "HwExpHistogram", "n": nb, "sw": sw, "rw": rw, "ways": ways}
        mx = 2**sw - 1
        dops = ["cyc s=" + _opt([mx] * ways)] * 3 + ["cyc s=" + _opt([max(mx - 1, 0)] * ways)]
        dops += ["cyc s=" + _opt([mx] * k + [None] * (ways - k)) for k in range(1, ways + 1)] + ["cyc s=" + _opt([None] * ways)]
        hists.append(Case(_cfg(d), dops, d, "directed-heavy"))
        hists.append(hist_heavy_case(d, rng, ctx.pick(60, 400)))
    # ---- two callers per way (two transactions competing for the same exclusive method incr[k] / add[k])
    multi = []
    mc = [{"component": "HwCounter", "w": 3, "ways": 1}, {"component": "HwCounter", "w": 4, "ways": 3},
          {"component": "TaggedCounter", "tagkind": "list", "tags": [1, 2, 4], "w": 3, "ways": 2},
          {"component": "TaggedCounter", "tagkind": "list", "tags": [-2, 0, 3], "w": 4, "ways": 1},
          {"component": "HwExpHistogram", "n": 4, "sw": 3, "rw": 4, "ways": 2},
          {"component": "HwExpHistogram", "n": 1, "sw": 2, "rw": 3, "ways": 1}]
    if ctx.thorough:
        mc += [{"component": "HwCounter", "w": w, "ways": ways} for w in (2, 5) for ways in (2, 4)]
        mc += [{"component": "HwExpHistogram", "n": nb, "sw": 4, "rw": 5, "ways": ways} for nb in (2, 5) for ways in (1, 3)]
        mc += [{"component": "TaggedCounter", "tagkind": "range", "range": [0, 5], "w": 3, "ways": 3}]
    for d0 in mc:
        d = {**d0, "callers": 2}
        f = {"HwCounter": counter_case, "TaggedCounter": tagged_case, "HwExpHistogram": hist_case}[d["component"]]
        for p in (0.5, 0.95):
            multi.append(f(d, rng, n, p))
    return {"counter": counters, "tagged": tagged, "hist": hists, "multi": multi}


def more_cases(case: Case, rng):
    d = case.desc
    f = {"HwCounter": counter_case, "TaggedCounter": tagged_case, "HwExpHistogram": hist_case}[d["component"]]
    for _ in range(30):
        yield f(d, rng, 200, rng.choice([0.3, 0.6, 0.9]), "search")
    if d["component"] == "HwExpHistogram":
        for _ in range(10):
            yield hist_heavy_case(d, rng, 100, "search")


def nontrivial(case: Case, out: list[str]) -> bool:
    """a register wrapped around, or >= 2 ways called in one cycle, or (tagged) a call outside the tag set"""
    comp = case.desc["component"]
    if out[0] != "ok":
        return False
    multi = any(sum(x or 0 for x in _opt_list(_fields(o)["d"])) >= 2 for o in out[1:])
    if case.desc.get("callers") == 2:  # both callers of one way attempt in the same cycle
        key = {"HwCounter": "i", "TaggedCounter": "t", "HwExpHistogram": "s"}[comp]
        return any(x and y for op in case.ops for x, y in zip(*_attempts(op, key, True)))
    if comp == "HwCounter":
        cnts = [int(_fields(o)["cnt"]) for o in out[1:]]
        return multi or any(b < a for a, b in zip(cnts, cnts[1:]))
    if comp == "TaggedCounter":
        vals = set(_tag_values(case.desc))
        outside = any(t is not None and t not in vals for op in case.ops for t in _opt_list(_fields(op)["t"]))
        return multi or outside
    cnts = [int(_fields(o)["cnt"]) for o in out[1:]]
    return multi or any(b < a for a, b in zip(cnts, cnts[1:]))


# --------------------------------------------------------------------------------------------
# metrics disabled: calls accepted, no hardware (Python-level check on the real objects)


def disabled_check(which: str) -> Optional[str]:
    """Build a circuit whose transaction calls the metric's method with metrics disabled; the design must
    elaborate, the metric must contribute no statement and no method, the call must return an empty struct."""
    from amaranth import Elaboratable, Signal
    from amaranth.hdl._ir import Fragment
    from transactron import TModule, Transaction
    from transactron.core.context import TransactronContextElaboratable
    from transactron.lib.metrics import HwCounter, HwExpHistogram, TaggedCounter
    from transactron.utils.dependencies import DependencyContext, DependencyManager

    class Circ(Elaboratable):
        def __init__(self):
            if which == "HwCounter":
                self.metric = HwCounter("v.c", width_bits=3, ways=2)
            elif which == "TaggedCounter":
                self.metric = TaggedCounter("v.t", tags=[1, 2, 5], ways=2)
            else:
                self.metric = HwExpHistogram("v.h", bucket_count=3, sample_width=3, ways=2)
            self.en = Signal()
            self.rets = []

        def elaborate(self, platform):
            m = TModule()
            m.submodules.metric = self.metric
            with Transaction().body(m, ready=self.en):
                for k in range(2):
                    if which == "HwCounter":
                        self.rets.append(self.metric.incr[k](m))
                    elif which == "TaggedCounter":
                        self.rets.append(self.metric.incr[k](m, tag=k + 1))
                    else:
                        self.rets.append(self.metric.add[k](m, sample=3 + k))
            return m

    def stmts(f) -> int:
        return sum(len(s) for s in f.statements.values()) + sum(stmts(sf) for sf, _, _ in f.subfragments)

    def find(f, name):
        for sf, nm, _ in f.subfragments:
            if nm == name:
                return sf
            r = find(sf, name)
            if r is not None:
                return r
        return None

    dm = DependencyManager()
    with DependencyContext(dm):
        try:
            c = Circ()
            top = TransactronContextElaboratable(c, dependency_manager=dm)
            frag = Fragment.get(top, None)
            frag.prepare(ports=[c.en])
        except Exception as e:  # noqa: BLE001
            return f"{which} with metrics disabled: call not accepted: {type(e).__name__}: {e}"
        mfrag = find(frag, "metric")
        if mfrag is None:
            return f"{which} with metrics disabled: metric submodule not found in the design"
        if stmts(mfrag) != 0:
            return f"{which} with metrics disabled produces hardware: {stmts(mfrag)} statements in the metric's fragment"
        nmeth = len(top.transaction_manager.methods)
        if nmeth != 0:
            return f"{which} with metrics disabled: {nmeth} methods registered in the transaction manager"
        if len(c.rets) != 2 or any(len(r.as_value()) != 0 for r in c.rets):
            return f"{which} with metrics disabled: call did not return an empty structure"
        from transactron.lib.metrics import HwMetricsListKey

        if dm.get_dependency(HwMetricsListKey()):
            return f"{which} with metrics disabled: metric registered in the global metric list"
    return None


# --------------------------------------------------------------------------------------------


def replay_witness(w: dict) -> Optional[str]:
    """replay a witness of known_findings.txt: {"cfg"?, "desc", "ops"} or {"check": "disabled", "component"}"""
    if w.get("check") == "disabled":
        return disabled_check(w["component"])
    if w.get("kind") == "tagged_counter_onehot":  # F3: one tag set after the other, as list and as Enum
        for ts in w["tag_sets"]:
            for kind in ("list", "enum"):
                d = {"component": "TaggedCounter", "tagkind": kind, "tags": list(ts), "w": 3, "ways": 2}
                ops = ["cyc t=" + _opt([v, None]) for v in ts for _ in range(2)] + ["cyc t=" + _opt([v, v]) for v in ts] + ["cyc t=-,-"]
                case = Case(_cfg(d), ops, d, "witness")
                fail = monitor(case, impl(case))
                if fail:
                    return fail
        return None
    desc = w["desc"]
    case = Case(w.get("cfg") or _cfg(desc), list(w["ops"]), desc, "witness")
    return monitor(case, impl(case))


def run(ctx: Check):
    ctx.rule = (
        "cases = (component, configuration, history of per-way calls); configurations: HwCounter (width, ways), "
        "TaggedCounter (tag set as range/Enum/IntEnum/list incl. negative values and one-hot sets, width, ways), "
        "HwExpHistogram (bucket_count >= 1, sample width, register width, ways); non-trivial = a register wraps "
        "around, or >= 2 ways are called in one cycle, or (tagged) a call carries a tag outside the tag set; "
        "two-caller cases (a wrapper with two transactions per way of incr/add; the manager grants one): "
        "non-trivial = both callers of a way attempt in one cycle"
    )
    ctx.proof_stage()
    ctx.replay_findings(replay_witness)
    # metrics disabled (Python-level clause of the property)
    for which in ("HwCounter", "TaggedCounter", "HwExpHistogram"):
        fail = disabled_check(which)
        ctx.case(f"disabled/{which}", nontrivial=True)
        ctx.count("disabled_checks")
        if fail:
            ctx.violation(fail, {"check": "disabled", "component": which})
    cases = gen_cases(ctx)
    procs = 1 if ctx.quick else None
    # one driver invocation for the three components (the interpreter's start-up dominates otherwise)
    allc = cases["counter"] + cases["tagged"] + cases["hist"] + cases["multi"]
    lockstep(ctx, "metrics(hwcounter,taggedcounter,hwexphistogram)", "C31", allc, impl, monitor, more_cases, nontrivial, procs=procs)
    for k, v in cases.items():
        ctx.count(f"configs_{k}", len({c.cfg for c in v}))
    ctx.count("two_caller_cases", len(cases["multi"]))
    ctx.count("onehot_tag_sets", len({c.cfg for c in cases["tagged"] if not isinstance(_sim(c.desc), Exception) and _sim(c.desc).dut.one_hot}))
    ctx.count("hist_single_bucket_cases", sum(1 for c in cases["hist"] if c.desc["n"] == 1))
    ctx.note("HwExpHistogram(bucket_count=1) (former finding F4, repaired in /repo 0ffe71b) is generated and monitored like every "
             "other configuration; the old witness is replayed through ctx.replay_findings when listed as `fixed:`")

def replay(ctx: Check, body: dict):
    if body.get("check") == "disabled":
        return disabled_check(body["component"])
    if "witness" in body:
        return replay_witness(body["witness"])
    from ..lockstep import replay_case

    return replay_case(body, impl, monitor)
