"""C40 — structured assignment copies exactly the selected fields (transactron/utils/assign.py:31-223)."""

from __future__ import annotations

from typing import Any, Optional

from ..common import Check
from ..lockstep import Case, lockstep

META = {
    "id": "C40",
    "design_ref": "DESIGN.md §9 C40",
    "technique": "Lean 4 theorems over a hand-written recursive model of assign() on object trees (views with Amaranth's "
    "member offsets and Enum/IntEnum-shaped members, data.Const, dicts, lists, (nested) ArrayProxies, ints and enum "
    "members; AssignType / iterable / mapping selections); correspondence "
    "of the model with the real assign() whose statements are executed by pysim and observed bit by bit",
    "level_text": "c40_sound (every statement belongs to a selected leaf pair: nothing else is assigned), c40_complete (every "
    "selected leaf pair gets its statement), c40_once (no left operand twice), c40_same_path (same key path on both "
    "sides up to single-member unwrapping; flow = copy right into left; shapes equal when checked), c40_select (names "
    "by AssignType / iterable / mapping, and when that raises), c40_err (assign raises iff some selected call fails by "
    "itself), c40_shapes (every statement between non-int operands was shape-checked and copies between equal shapes, "
    "for all operands Python can build), c40_nested_proxy are proved for every object tree and selection; the model is tied to the "
    "code by comparing, per call, raise-or-not, the number of generated statements and the source of EVERY bit of "
    "every left-hand signal (which right-hand bit / constant / not assigned), observed by simulating the real "
    "statements with distinguishing right-hand valuations and two left-hand reset values",
    "level_note": "trusted: Lean kernel, axioms propext/Classical.choice/Quot.sound; Amaranth (layout offsets, View indexing, "
    "ArrayProxy semantics, pysim); the harness glue. Exception classes are not compared (set iteration order decides "
    "which of several errors is raised first); data.Const operands occur on the right only, enum classes have every "
    "value of their width as a member; non-homogeneous Arrays are not modelled. Excluded regions (open / proposed "
    "finding): ArrayProxy over a union with >= 2 members (F-b7-3). F-b7-4 (an int unwrapped from a single-member "
    "Const was shape-checked by its value) was repaired by d1cbe8d and is a regression case. The two defects found here (F-b7-1 no shape "
    "check after unwrapping a single-member view onto a signed member, F-b7-2 AttributeError for an ArrayProxy over "
    "array layouts) were repaired in /repo (744698a, b9861c1); their witnesses are regression cases that run first "
    "and both regions are generated normally with the monitor on.",
}

# ----------------------------------------------------------------------------- abstract syntax
# layout: ["b", w] | ["g", w] | ["e", w, id] (amaranth.lib.enum.Enum class id, shape=w) | ["n", w] (IntEnum, shape=w) | ["s", [[name, lay]..]] | ["u", [[name, lay]..]] | ["a", lay, n]
# object: ["V", lay, store] | ["P", lay, idx, [stores]] | ["P", lay, [idx..], [stores row-major], [dims..]] (nested) | ["i", v] | ["C", lay, bits] (data.Const) | ["E", v, w, id] (member of Enum id) | ["D", [[key, obj]..]] | ["L", [obj..]]
# selection: ["m", "C"|"L"|"R"|"A"] | ["I", [key..]] | ["M", [[key, sel]..]]
# key: str (member name) or int (index)


def _key_tok(k) -> str:
    return f"N{k}" if isinstance(k, int) else f"K{k}"


def rpn(x) -> str:
    t = x[0]
    if t in "bgn":
        return f"{t}{x[1]}"
    if t == "e":
        return f"e{x[1]}.{x[2]}"
    if t == "C":
        return f"{rpn(x[1])},C{x[2]}"
    if t == "E":
        return f"E{x[1]}.{x[2]}.{x[3]}"
    if t in "su":
        return ",".join([p for k, l in x[1] for p in (_key_tok(k), rpn(l))] + [f"{t}{len(x[1])}"])
    if t == "a":
        return f"{rpn(x[1])},a{x[2]}"
    if t == "V":
        return f"{rpn(x[1])},V{x[2]}"
    if t == "P":
        if len(x) > 4:  # nested: index values, signals in row-major order, dimensions (outermost first)
            return f"{rpn(x[1])},P{'_'.join(map(str, x[2]))}.{'x'.join(map(str, x[4]))}.{'/'.join(map(str, x[3]))}"
        return f"{rpn(x[1])},P{x[2]}.{'/'.join(map(str, x[3]))}"
    if t == "i":
        return f"i{x[1]}"
    if t == "D":
        return ",".join([p for k, o in x[1] for p in (_key_tok(k), rpn(o))] + [f"D{len(x[1])}"])
    if t == "L":
        return ",".join([rpn(o) for o in x[1]] + [f"L{len(x[1])}"])
    if t == "m":
        return f"m{x[1]}"
    if t == "I":
        return ",".join([_key_tok(k) for k in x[1]] + [f"I{len(x[1])}"])
    if t == "M":
        return ",".join([p for k, s in x[1] for p in (_key_tok(k), rpn(s))] + [f"M{len(x[1])}"])
    raise ValueError(t)


def parse(s: str):
    st: list = []

    def pop(n):
        xs = st[len(st) - n :] if n else []
        if n:
            del st[len(st) - n :]
        return xs

    for tok in s.split(","):
        c, rest = tok[0], tok[1:]
        if c == "K":
            st.append(("key", rest))
        elif c == "N":
            st.append(("key", int(rest)))
        elif c in "bgn":
            st.append([c, int(rest)])
        elif c == "e":
            st.append(["e"] + [int(x) for x in rest.split(".")])
        elif c == "C":
            st.append(["C", st.pop(), int(rest)])
        elif c == "E":
            st.append(["E"] + [int(x) for x in rest.split(".")])
        elif c == "i":
            st.append(["i", int(rest)])
        elif c == "m":
            st.append(["m", rest])
        elif c == "V":
            st.append(["V", st.pop(), int(rest)])
        elif c == "P":
            parts = rest.split(".")
            if len(parts) == 3:
                st.append(["P", st.pop(), [int(x) for x in parts[0].split("_")], [int(x) for x in parts[2].split("/")],
                           [int(x) for x in parts[1].split("x")]])
            else:
                st.append(["P", st.pop(), int(parts[0]), [int(x) for x in parts[1].split("/")]])
        elif c == "a":
            st.append(["a", st.pop(), int(rest)])
        elif c in "suDM":
            xs = pop(2 * int(rest))
            st.append([c, [[xs[2 * j][1], xs[2 * j + 1]] for j in range(int(rest))]])
        elif c == "L":
            st.append(["L", pop(int(rest))])
        elif c == "I":
            st.append(["I", [k[1] for k in pop(int(rest))]])
        else:
            raise ValueError(tok)
    (x,) = st
    return x


# ----------------------------------------------------------------------------- real objects
_enum_classes: dict = {}


def enum_class(w: int, ident, int_enum: bool = False):
    """an amaranth.lib.enum.Enum (or IntEnum) class with shape=w in which every w-bit value is a member"""
    from amaranth.lib import enum

    key = (w, ident, int_enum)
    if key not in _enum_classes:
        name = f"N{w}" if int_enum else f"E{w}_{ident}"
        ns: dict = {}
        exec(f"class {name}(base, shape={w}):\n" + "".join(f"    M{v} = {v}\n" for v in range(2**w)),
             {"base": enum.IntEnum if int_enum else enum.Enum}, ns)
        _enum_classes[key] = ns[name]
    return _enum_classes[key]


def real_layout(lay):
    from amaranth import signed, unsigned
    from amaranth.lib import data

    t = lay[0]
    if t == "b":
        return unsigned(lay[1])
    if t == "g":
        return signed(lay[1])
    if t == "e":
        return enum_class(lay[1], lay[2])
    if t == "n":
        return enum_class(lay[1], 0, True)
    if t == "s":
        return data.StructLayout({k: real_layout(l) for k, l in lay[1]})
    if t == "u":
        return data.UnionLayout({k: real_layout(l) for k, l in lay[1]})
    return data.ArrayLayout(real_layout(lay[1]), lay[2])


def lay_size(lay) -> int:
    t = lay[0]
    if t in "bgen":
        return lay[1]
    if t == "s":
        return sum(lay_size(l) for _, l in lay[1])
    if t == "u":
        return max([lay_size(l) for _, l in lay[1]], default=0)
    return lay[2] * lay_size(lay[1])


class Side:
    """the signals of one operand: store number -> Signal; index signals of proxies with their values"""

    def __init__(self, ones: bool):
        self.ones = ones
        self.sigs: dict[int, Any] = {}
        self.widths: dict[int, int] = {}
        self.idx: list[tuple[Any, int]] = []

    def signal(self, lay, store: int):
        from amaranth import Signal
        from amaranth.lib import data

        size = lay_size(lay)
        if store in self.sigs:
            raise ValueError("store used twice")
        self.widths[store] = size
        if lay[0] in "bgn":
            init = (-1 if lay[0] == "g" and size else (1 << size) - 1) if self.ones else 0
            sig = Signal(real_layout(lay), init=init)
            self.sigs[store] = sig
            return sig
        if lay[0] == "e":  # Signal(EnumClass): an EnumView over a plain signal
            sig = Signal(size, init=((1 << size) - 1) if self.ones else 0)
            self.sigs[store] = sig
            return real_layout(lay)(sig)
        sig = Signal(size, init=((1 << size) - 1) if self.ones else 0)
        self.sigs[store] = sig
        return data.View(real_layout(lay), sig)

    def build(self, obj):
        from amaranth import Array, Signal

        t = obj[0]
        if t == "V":
            return self.signal(obj[1], obj[2])
        if t == "P":
            elems: Any = [self.signal(obj[1], s) for s in obj[3]]
            idxs, dims = ([obj[2]], [len(elems)]) if len(obj) == 4 else (obj[2], obj[4])
            for d in reversed(dims[1:]):  # nested Arrays, innermost dimension first
                elems = [Array(elems[j : j + d]) for j in range(0, len(elems), d)]
            res: Any = Array(elems)
            for v, d in zip(idxs, dims):  # arr[i][j][k]: ArrayProxy of ArrayProxies of ...
                isig = Signal(range(max(2, d)))
                self.idx.append((isig, v))
                res = res[isig]
            return res
        if t == "i":
            return obj[1]
        if t == "C":
            from amaranth.lib import data

            return data.Const(real_layout(obj[1]), obj[2])
        if t == "E":
            return enum_class(obj[2], obj[3])(obj[1])
        if t == "D":
            return {k: self.build(o) for k, o in obj[1]}
        return [self.build(o) for o in obj[1]]


def real_sel(sel):
    from transactron.utils import AssignType

    if sel[0] == "m":
        return {"C": AssignType.COMMON, "L": AssignType.LHS, "R": AssignType.RHS, "A": AssignType.ALL}[sel[1]]
    if sel[0] == "I":
        return list(sel[1])
    return {k: real_sel(s) for k, s in sel[1]}


def _observe(lhs, rhs, sel) -> str:
    """run the real assign; simulate its statements; name the source of every left-hand bit"""
    from amaranth import Module
    from amaranth.sim import Simulator

    from transactron.utils import assign

    runs = []
    nst = None
    for ones in (True, False):
        ls, rs = Side(ones), Side(False)
        lo, ro = ls.build(lhs), rs.build(rhs)
        try:
            stmts = list(assign(lo, ro, fields=real_sel(sel)))
        except Exception as e:  # noqa: BLE001 - every exception of the real code is the observation "raise"
            return f"raise # {type(e).__name__}"
        nst = len(stmts)
        # codes of the right-hand bits: 1..N; K-1 code bits plus one complemented bit
        rbits = [(s, j) for s in sorted(rs.sigs) for j in range(rs.widths[s])]
        nk = max(1, len(rbits)).bit_length() + 1
        code = {sb: c + 1 for c, sb in enumerate(rbits)}
        m = Module()
        m.d.comb += stmts
        res: list[dict[int, int]] = []

        async def tb(ctx, ls=ls, rs=rs, code=code, nk=nk, res=res):
            for isig, v in ls.idx + rs.idx:
                ctx.set(isig, v)
            for j in range(nk):
                for s, sig in rs.sigs.items():
                    v = 0
                    for b in range(rs.widths[s]):
                        c = code[(s, b)]
                        bit = ((c >> j) & 1) if j < nk - 1 else 1 - (c & 1)
                        v |= bit << b
                    if sig.shape().signed and v >= 1 << (rs.widths[s] - 1):
                        v -= 1 << rs.widths[s]
                    ctx.set(sig, v)
                res.append({s: ctx.get(sig) & ((1 << ls.widths[s]) - 1) for s, sig in ls.sigs.items()})

        try:
            sim = Simulator(m)
            sim.add_testbench(tb)
            sim.run()
        except Exception as e:  # noqa: BLE001
            return f"raise-at-simulation # {type(e).__name__}"
        runs.append((ls, rs, code, nk, res))
    (la, _, code, nk, ra), (_, _, _, _, rb) = runs
    decode = {c: sb for sb, c in code.items()}
    toks = [f"ok n={nst}"]
    for s in sorted(la.sigs):
        bits = []
        for b in range(la.widths[s]):
            sa = [(r[s] >> b) & 1 for r in ra]
            sb_ = [(r[s] >> b) & 1 for r in rb]
            if len(set(sa)) == 1:
                if sa == sb_:
                    bits.append(str(sa[0]))
                elif set(sa) == {1} and set(sb_) == {0}:
                    bits.append("-")
                else:
                    bits.append("?")
            else:
                c = sum(v << j for j, v in enumerate(sa[:-1]))
                if sa != sb_ or c not in decode or sa[-1] != 1 - (c & 1):
                    bits.append("?")
                else:
                    bits.append(f"r{decode[c][0]}.{decode[c][1]}")
        toks.append(f"L{s}=" + ",".join(bits))
    return " ".join(toks)


def _impl_line(line: str) -> str:
    kv = dict(x.split("=", 1) for x in line.split()[1:])
    out = _observe(parse(kv["l"]), parse(kv["r"]), parse(kv["f"]))
    return out.split(" #")[0]


def impl(case: Case) -> list[str]:
    return ["ok"] + [_impl_line(line) for line in case.ops]


# ----------------------------------------------------------------------------- reference (monitor)
class RefRaise(Exception):
    pass


class Node:
    """an operand node for the reference: kind in val/view/int/dict/list; proxy = (idx, stores) or None"""

    def __init__(self, kind, lay=None, store=0, off=0, proxy=None, items=None, value: Any = 0, strict=False):
        self.kind, self.lay, self.store, self.off, self.proxy, self.items, self.value = kind, lay, store, off, proxy, items, value
        self.strict = strict  # a Python constant that is a member of a data.Const (its shape is known)

    @staticmethod
    def leaf_kind(lay) -> str:
        return "val" if lay[0] in "bgn" else "enumv" if lay[0] == "e" else "view"

    @staticmethod
    def of(obj) -> "Node":
        t = obj[0]
        if t == "V":
            return Node(Node.leaf_kind(obj[1]), obj[1], obj[2], 0)
        if t == "P":
            flat = obj[2]
            if len(obj) > 4:  # the view selected by arr[i][j][k], signals listed in row-major order
                flat = 0
                for v, d in zip(obj[2], obj[4]):
                    flat = flat * d + v
            return Node(Node.leaf_kind(obj[1]), obj[1], 0, 0, (flat, obj[3]))
        if t == "i":
            return Node("int", value=obj[1])
        if t == "C":
            return Node("const", obj[1], value=obj[2])
        if t == "E":
            return Node("int", value=enum_class(obj[2], obj[3])(obj[1]))
        if t == "D":
            return Node("dict", items=[(k, Node.of(o)) for k, o in obj[1]])
        return Node("list", items=[(i, Node.of(o)) for i, o in enumerate(obj[1])])

    def fields(self) -> Optional[list]:
        if self.kind in ("dict", "list"):
            return [k for k, _ in self.items]
        if self.kind == "const":
            t = self.lay[0]
            return [k for k, _ in self.lay[1]] if t == "s" else list(range(self.lay[2])) if t == "a" else None
        if self.kind == "view":
            t = self.lay[0]
            if t == "s" or (t == "u" and self.proxy is not None):
                return [k for k, _ in self.lay[1]]
            if t == "a":
                return list(range(self.lay[2]))
        return None

    def child(self, k) -> "Node":
        if self.kind in ("dict", "list"):
            return dict(self.items)[k]
        rl = real_layout(self.lay)  # offsets are Amaranth's own
        sub = dict(self.lay[1])[k] if self.lay[0] in "su" else self.lay[1]
        if self.kind == "const":  # members of a constant as Amaranth's own Const.__getitem__ gives them
            from amaranth.lib import data

            x = data.Const(rl, self.value)[k]
            if isinstance(x, data.Const):
                return Node("const", sub, value=x.as_value().value)
            return Node("int", value=x, strict=True)  # an int, an IntEnum member (also an int) or an Enum member
        f = rl[k]
        return Node(Node.leaf_kind(sub), sub, self.store, self.off + f.offset, self.proxy)

    def is_union(self) -> bool:
        return self.kind == "view" and self.lay[0] == "u" and self.proxy is None

    def width(self) -> int:
        return lay_size(self.lay)

    def dst_store(self) -> int:
        return self.store if self.proxy is None else self.proxy[1][self.proxy[0]]


def _ref(l: Node, r: Node, sel, out: list):
    lf, rf = l.fields(), r.fields()
    if lf is not None and rf is not None:
        if sel[0] == "m":
            names = {"C": [k for k in lf if k in rf], "L": lf, "R": rf, "A": lf + [k for k in rf if k not in lf]}[sel[1]]
        elif sel[0] == "I":
            names = list(dict.fromkeys(sel[1]))
        else:
            names = [k for k, _ in sel[1]]
        if not names and (lf or rf):
            raise RefRaise("no common fields")
        for n in names:
            if n not in lf or n not in rf:
                raise RefRaise(f"field {n} missing")
        for n in names:
            sub = sel if sel[0] == "m" else ["m", "A"] if sel[0] == "I" else dict((k, s) for k, s in sel[1])[n]
            _ref(l.child(n), r.child(n), sub, out)
        return
    if (l.is_union() and r.kind == "dict") or (l.kind == "dict" and r.is_union()):
        mapping, union = (l, r) if l.kind == "dict" else (r, l)
        if len(mapping.items) != 1:
            raise RefRaise("non-singleton mapping for a union")
        name = mapping.items[0][0]
        if name not in [k for k, _ in union.lay[1]]:
            raise RefRaise("not a member of the union")
        if sel[0] == "M" and name not in [k for k, _ in sel[1]]:
            raise RefRaise("selection has no entry for the union member")
        sub = sel if sel[0] == "m" else ["m", "A"] if sel[0] == "I" else dict((k, s) for k, s in sel[1])[name]
        _ref(l.child(name), r.child(name), sub, out)
        return
    if sel[0] != "m":
        raise RefRaise("field selection on non-structures")
    if l.kind in ("dict", "list") or r.kind in ("dict", "list"):
        raise RefRaise("unsupported operands")
    while (f := l.fields()) is not None and len(f) == 1:
        l = l.child(f[0])
    while (f := r.fields()) is not None and len(f) == 1:
        r = r.child(f[0])
    if l.kind in ("int", "const"):
        raise RefRaise("a constant on the left")

    def shape(n: Node):
        from amaranth import Const, signed, unsigned

        if n.kind == "int":
            return Const(n.value).shape() if type(n.value) is int else type(n.value)  # shape_of's "hack for enums"
        if n.kind in ("view", "const") and n.proxy is None:
            return real_layout(n.lay)
        if n.kind == "enumv" and n.proxy is None:
            return real_layout(n.lay)
        return (signed if n.kind == "val" and n.lay[0] == "g" else unsigned)(n.width())

    l_castable = l.kind in ("view", "enumv") or l.proxy is not None
    if r.kind == "int":
        # a Python constant has no shape of its own: an int is checked only against a View / EnumView / ArrayProxy
        # (ValueCastable); a member of an Enum class taken from a data.Const also carries the shape of its class
        enum_member = not isinstance(r.value, int)
        if (l_castable or (enum_member and r.strict)) and shape(l) != shape(r):
            raise RefRaise("shape mismatch against a constant")
        out.append((l.dst_store(), l.off, l.width(), ("c", int(r.value) if isinstance(r.value, int) else r.value.value)))
        return
    if shape(l) != shape(r):
        raise RefRaise("shape mismatch")
    if r.kind == "const":
        out.append((l.dst_store(), l.off, l.width(), ("c", r.value)))
        return
    out.append((l.dst_store(), l.off, l.width(), ("b", r.dst_store(), r.off)))


def _lhs_signals(obj, acc: dict):
    t = obj[0]
    if t == "V":
        acc[obj[2]] = lay_size(obj[1])
    elif t == "P":
        for s in obj[3]:
            acc[s] = lay_size(obj[1])
    elif t == "D":
        for _, o in obj[1]:
            _lhs_signals(o, acc)
    elif t == "L":
        for o in obj[1]:
            _lhs_signals(o, acc)
    return acc


def expected(lhs, rhs, sel) -> str:
    out: list = []
    try:
        _ref(Node.of(lhs), Node.of(rhs), sel, out)
    except RefRaise:
        return "raise"
    sigs = _lhs_signals(lhs, {})
    bits = {s: ["-"] * w for s, w in sigs.items()}
    for ds, off, w, src in out:
        for j in range(w):
            new = str((src[1] >> j) & 1) if src[0] == "c" else f"r{src[1]}.{src[2] + j}"
            if bits[ds][off + j] not in ("-", new):
                # two selected members overlap (union members under an ArrayProxy) and get different sources: no
                # statement order makes every selected field equal its counterpart, only raising is acceptable
                return "raise"
            bits[ds][off + j] = new
    return " ".join([f"ok n={len(out)}"] + [f"L{s}=" + ",".join(bits[s]) for s in sorted(sigs)])


def monitor(case: Case, out: list[str]):
    """assign either raises (exactly when a selected field is missing, the selection is ill-formed or the shapes of a
    selected pair differ) or every selected left-hand field carries the corresponding right-hand field and no other
    left-hand bit is assigned"""
    for n, (line, o) in enumerate(zip(case.ops, out[1:])):
        kv = dict(x.split("=", 1) for x in line.split()[1:])
        exp = expected(parse(kv["l"]), parse(kv["r"]), parse(kv["f"]))
        if o != exp:
            return f"op {n} ({line}): observed '{o}', the selected fields require '{exp}'"
    return None


# ----------------------------------------------------------------------------- generators
NAMES = ["a", "b", "c", "d", "x", "y"]


def gen_leaf(rng, w: int):
    """unsigned / signed / an Enum class (two classes per width) / the IntEnum class of that width"""
    t = rng.choice("bbbggeen")
    w = min(w, 3) if t in "en" else w  # every value of the width is a member of the class: keep classes small
    return ["e", w, rng.randint(1, 2)] if t == "e" else [t, w]


def gen_layout(rng, depth: int, arrays: bool = True):
    r = rng.random()
    if depth <= 0 or r < 0.35:
        return gen_leaf(rng, rng.randint(1, 4))
    if r < 0.75:
        lay = ["s", [[nm, gen_layout(rng, depth - 1, arrays)] for nm in rng.sample(NAMES, rng.randint(1, 3))]]
    elif r < 0.88 and arrays:
        lay = ["a", gen_layout(rng, depth - 1, arrays), rng.randint(1, 3)]
    else:
        lay = ["u", [[nm, gen_layout(rng, depth - 1, arrays)] for nm in rng.sample(NAMES, rng.randint(1, 3))]]
    return lay


def _multi_union(lay) -> bool:
    """a union with >= 2 members somewhere: under an ArrayProxy assign() treats it like a struct and assigns all
    (overlapping) members, the result depends on set iteration order - excluded region, proposed finding F-b7-3"""
    t = lay[0]
    if t == "u" and len(lay[1]) >= 2:
        return True
    if t in "su":
        return any(_multi_union(l) for _, l in lay[1])
    return t == "a" and _multi_union(lay[1])


def _has_array(lay) -> bool:
    t = lay[0]
    if t == "a":
        return True
    if t in "su":
        return any(_has_array(l) for _, l in lay[1])
    return False


def mutate_layout(rng, lay):
    """a layout that differs a little: a member dropped / added / resized / reordered somewhere"""
    t = lay[0]
    if t in "bgen":
        if rng.random() < 0.4:  # another kind of member of the same width (enum against plain, another enum class)
            return gen_leaf(rng, lay[1])
        return [t, max(1, min(lay[1] + rng.choice([-1, 0, 1]), 3 if t in "en" else 9))] + lay[2:]
    if t == "a":
        if rng.random() < 0.5:
            return ["a", mutate_layout(rng, lay[1]), lay[2]]
        return ["a", lay[1], max(1, lay[2] + rng.choice([-1, 1]))]
    fs = [[k, l] for k, l in lay[1]]
    r = rng.random()
    if r < 0.25 and len(fs) > 1:
        fs.pop(rng.randrange(len(fs)))
    elif r < 0.5:
        free = [n for n in NAMES if n not in [k for k, _ in fs]]
        if free:
            fs.insert(rng.randrange(len(fs) + 1), [rng.choice(free), gen_layout(rng, 1)])
    elif r < 0.65:
        rng.shuffle(fs)
    else:
        j = rng.randrange(len(fs))
        fs[j] = [fs[j][0], mutate_layout(rng, fs[j][1])]
    return [t, fs]


class _Stores:
    def __init__(self):
        self.n = 0

    def new(self) -> int:
        self.n += 1
        return self.n - 1


def gen_obj(rng, lay, st: _Stores, rhs: bool, depth: int = 2):
    """an operand whose member structure follows `lay`: a signal, a proxy, or a dict/list of operands"""
    r = rng.random()
    t = lay[0]
    if rhs and t in "bgn" and r < 0.15:
        return ["i", rng.randrange(1 << lay[1]) if rng.random() < 0.7 else rng.randrange(200)]
    if rhs and t == "e" and r < 0.25:
        return ["E", rng.randrange(1 << lay[1]), lay[1], lay[2]]
    if rhs and t in "sua" and r < 0.22 and lay_size(lay) > 0:
        return ["C", lay, rng.randrange(1 << lay_size(lay))]
    if depth > 0 and t == "s" and r < 0.3:
        return ["D", [[k, gen_obj(rng, l, st, rhs, depth - 1)] for k, l in lay[1]]]
    if depth > 0 and t == "a" and r < 0.35:
        if rng.random() < 0.5:
            return ["L", [gen_obj(rng, lay[1], st, rhs, depth - 1) for _ in range(lay[2])]]
        return ["D", [[i, gen_obj(rng, lay[1], st, rhs, depth - 1)] for i in range(lay[2])]]
    if depth > 0 and t == "u" and r < 0.3:
        k, l = rng.choice(lay[1])
        return ["D", [[k, gen_obj(rng, l, st, rhs, depth - 1)]]]
    if r < 0.5 and not _multi_union(lay):
        depth_p = rng.choice([1, 1, 2, 3])
        if depth_p == 1:
            n = rng.randint(1, 3)
            return ["P", lay, rng.randrange(n), [st.new() for _ in range(n)]]
        dims = [rng.randint(1, 2) for _ in range(depth_p)]
        total = 1
        for d in dims:
            total *= d
        return ["P", lay, [rng.randrange(d) for d in dims], [st.new() for _ in range(total)], dims]
    return ["V", lay, st.new()]


def gen_sel(rng, lay, depth: int = 2):
    r = rng.random()
    if r < 0.5 or lay[0] in "bgen" or depth == 0:
        return ["m", rng.choice("CLRAAR")]
    keys = [k for k, _ in lay[1]] if lay[0] in "su" else list(range(lay[2]))
    sub = (lambda k: dict(lay[1])[k]) if lay[0] in "su" else (lambda k: lay[1])
    ks = [k for k in keys if rng.random() < 0.7]
    if rng.random() < 0.1:
        ks.append(rng.choice(NAMES) if lay[0] in "su" else lay[2] + 1)
    if r < 0.75:
        if rng.random() < 0.2 and ks:
            ks.append(ks[0])
        return ["I", ks]
    return ["M", [[k, gen_sel(rng, sub(k), depth - 1) if k in keys else ["m", "A"]] for k in dict.fromkeys(ks)]]


def gen_call(rng):
    base = gen_layout(rng, rng.randint(0, 3))
    other = base if rng.random() < 0.55 else mutate_layout(rng, base)
    if rng.random() < 0.1:
        other = gen_layout(rng, 2)
    llay, rlay = (base, other) if rng.random() < 0.5 else (other, base)
    lhs = gen_obj(rng, llay, _Stores(), False)
    rhs = gen_obj(rng, rlay, _Stores(), True)
    return lhs, rhs, gen_sel(rng, base)


def _line(lhs, rhs, sel) -> str:
    return f"as l={rpn(lhs)} r={rpn(rhs)} f={rpn(sel)}"


def _mk(calls, tag) -> Case:
    return Case("cfg", [_line(*c) for c in calls], {"component": "assign"}, tag)


def directed_calls():
    S2 = ["s", [["x", ["b", 2]], ["y", ["b", 1]]]]
    S3 = ["s", [["x", ["b", 2]], ["y", ["b", 1]], ["z", ["g", 3]]]]
    N = ["s", [["x", ["b", 2]], ["y", ["s", [["p", ["b", 1]], ["q", ["g", 2]]]]]]]
    N2 = ["s", [["x", ["b", 2]], ["y", ["s", [["p", ["b", 1]], ["q", ["g", 2]]]]], ["z", ["b", 1]]]]
    U = ["u", [["a", ["b", 3]], ["b", ["b", 2]]]]
    A = ["a", ["b", 2], 2]
    V = lambda l, s=0: ["V", l, s]  # noqa: E731
    m = lambda c: ["m", c]  # noqa: E731
    return [
        (V(S2), V(S2), m("R")), (V(S2), V(S3), m("R")), (V(S2), V(S3), m("C")), (V(S3), V(S2), m("L")), (V(S3), V(S2), m("A")),
        (V(S3), V(S2), m("R")), (V(N), V(N2), ["I", ["x", "y"]]), (V(N), V(N2), ["M", [["y", ["M", [["p", m("A")]]]]]]),
        (V(N), V(N2), ["M", [["y", ["I", ["q"]]]]]), (V(N), V(N2), ["I", ["x", "w"]]), (V(N), V(N), ["M", [["x", ["I", ["a"]]]]]),
        (V(U), ["D", [["a", V(["b", 3])]]], m("R")), (["D", [["b", V(["b", 2])]]], V(U), m("R")),
        (V(U), ["D", [["a", V(["b", 3])], ["b", V(["b", 2])]]], m("R")), (V(U), ["D", [["c", V(["b", 3])]]], m("R")),
        (V(U), ["D", [["a", V(["b", 3])]]], ["M", [["b", m("A")]]]), (V(U), ["D", [["a", V(["b", 3])]]], ["I", ["b"]]),
        (V(U), V(U, 1), m("R")), (V(U), V(["u", [["a", ["b", 3]], ["c", ["b", 2]]]], 1), m("R")),
        (V(["u", [["a", ["s", [["p", ["b", 1]], ["q", ["b", 1]]]]]]]), V(["u", [["a", ["b", 2]]]], 1), m("R")),
        (V(A), ["L", [V(["b", 2], 0), V(["b", 2], 1)]], m("A")), (V(A), ["D", [[0, V(["b", 2], 0)], [1, V(["b", 2], 1)]]], m("R")),
        (V(A), ["L", [V(["b", 2], 0)]], m("A")), (V(A), ["L", [V(["b", 2], 0)]], m("C")), (V(A), V(["a", ["b", 2], 3], 1), m("C")),
        (V(S2), ["D", [["x", ["i", 100]], ["y", ["i", 0]]]], m("R")), (V(["b", 3]), ["i", 100], m("R")), (V(S2), ["i", 3], m("R")),
        (["P", S2, 1, [3, 4]], V(["b", 3]), m("R")), (["P", S2, 0, [3, 4]], V(S2), ["I", ["x"]]), (V(S2), ["P", S2, 1, [3, 4]], m("A")),
        (["P", N, 1, [0, 1, 2]], ["P", N2, 2, [3, 4, 5]], m("C")), (["P", ["b", 3], 1, [0, 1]], ["P", ["b", 3], 0, [1, 2]], m("R")),
        (["P", U, 1, [0, 1]], V(U), m("R")), (["P", U, 1, [0, 1]], ["P", U, 0, [5, 6]], m("A")),
        (V(S2), V(["b", 3]), m("R")), (V(["s", [["a", ["b", 3]]]]), V(["b", 3], 1), m("R")), (V(["b", 3]), V(["s", [["a", ["b", 3]]]], 1), m("A")),
        (V(["b", 4]), V(["s", [["a", ["b", 3]]]], 1), m("R")), (V(["a", ["s", [["a", ["b", 2]]]], 1]), V(["b", 2], 1), m("R")),
        # nested ArrayProxies arr[i][j] / arr[i][j][k]: same members in another order, another member of equal width
        (["P", S2, [1, 0, 1], list(range(8)), [2, 2, 2]], ["P", ["s", [["y", ["b", 1]], ["x", ["b", 2]]]], [0, 1, 1], list(range(8)), [2, 2, 2]], m("C")),
        (["P", S2, [1, 0, 1], list(range(8)), [2, 2, 2]], ["P", ["s", [["x", ["b", 2]], ["w", ["b", 1]]]], [0, 1, 1], list(range(8)), [2, 2, 2]], m("C")),
        (["P", S2, [1, 0, 1], list(range(8)), [2, 2, 2]], ["P", ["s", [["x", ["b", 2]], ["w", ["b", 1]]]], [0, 1, 1], list(range(8)), [2, 2, 2]], m("R")),
        (["P", S2, [0, 0, 0], [0, 1], [1, 2, 1]], V(["s", [["y", ["b", 1]], ["x", ["b", 2]]]]), m("A")),
        (V(S2), ["P", ["s", [["y", ["b", 1]], ["x", ["b", 2]]]], [1, 1], list(range(4)), [2, 2]], m("L")),
        (["P", N, [1, 1], list(range(4)), [2, 2]], ["P", N2, [0, 1, 0], list(range(4)), [1, 2, 2]], ["M", [["y", ["I", ["q"]]]]]),
        (["P", U, [1, 0], list(range(4)), [2, 2]], ["P", U, [0, 1, 0], list(range(4)), [2, 2, 1]], m("A")),
        (["P", ["b", 3], [1, 0, 1], list(range(8)), [2, 2, 2]], ["P", ["b", 3], [1, 1], list(range(4)), [2, 2]], m("R")),
        # a dict-held signal (explicit shape, not strict) against a signed member of a view (strict only, an Operator)
        (["D", [["a", V(["g", 4])]]], V(["s", [["a", ["g", 8]]]]), m("A")), (V(["s", [["a", ["g", 8]]]]), ["D", [["a", V(["g", 4])]]], m("A")),
        (["D", [["a", V(["g", 8])]]], V(["s", [["a", ["g", 8]], ["b", ["b", 1]]]]), m("L")), (["L", [V(["g", 3])]], V(["a", ["g", 2], 1]), m("R")),
        (["D", [["a", V(["b", 4])]]], V(["s", [["a", ["g", 4]], ["b", ["b", 1]]]]), m("C")),
        # an iterable selection recurses with ALL: the left superset of a selected nested member must raise
        (V(["s", [["x", ["s", [["a", ["b", 1]], ["b", ["b", 2]]]]], ["y", ["b", 1]]]]), V(["s", [["x", ["s", [["a", ["b", 1]]]]], ["y", ["b", 1]]]]), ["I", ["x"]]),
        (V(["s", [["x", ["s", [["a", ["b", 1]]]]], ["y", ["b", 1]]]]), V(["s", [["x", ["s", [["a", ["b", 1]], ["b", ["b", 2]]]]], ["y", ["b", 1]]]]), ["I", ["x"]]),
        (V(["s", [["x", ["s", [["a", ["b", 1]], ["b", ["b", 2]]]]], ["y", ["b", 1]]]]), V(["s", [["x", ["s", [["a", ["b", 1]], ["b", ["b", 2]]]]], ["y", ["b", 1]]]]), ["I", ["x"]]),
        (V(["a", ["s", [["a", ["b", 1]], ["b", ["b", 2]]]], 2]), ["L", [V(["s", [["a", ["b", 1]]]]), V(["s", [["a", ["b", 1]], ["b", ["b", 2]]]])]], ["I", [0]]),
        # data.Const operands; members shaped by an Enum class (strict, carry the class as shape) and by an IntEnum (ints)
        (V(["s", [["a", ["b", 3]], ["b", ["b", 2]]]]), ["C", ["s", [["a", ["e", 3, 1]], ["b", ["b", 2]]]], 13], m("A")),
        (V(["s", [["a", ["b", 1]], ["b", ["b", 2]]]]), ["C", ["s", [["a", ["e", 3, 1]], ["b", ["b", 2]]]], 13], m("R")),
        (V(["s", [["a", ["e", 3, 1]], ["b", ["b", 2]]]]), ["C", ["s", [["a", ["e", 3, 1]], ["b", ["b", 2]]]], 13], m("A")),
        (V(["s", [["a", ["e", 3, 2]], ["b", ["b", 2]]]]), ["C", ["s", [["a", ["e", 3, 1]], ["b", ["b", 2]]]], 13], m("C")),
        (V(["s", [["a", ["g", 3]], ["b", ["b", 2]]]]), ["C", ["s", [["a", ["e", 3, 1]], ["b", ["b", 2]]]], 13], ["I", ["a", "b"]]),
        (V(["s", [["a", ["b", 3]], ["b", ["b", 2]]]]), ["C", ["s", [["a", ["e", 3, 1]], ["b", ["b", 2]]]], 13], ["M", [["a", m("A")]]]),
        (V(["s", [["a", ["b", 1]], ["b", ["b", 2]]]]), ["C", ["s", [["a", ["n", 3]], ["b", ["g", 2]]]], 29], m("A")),
        (V(["s", [["x", ["s", [["a", ["b", 1]], ["b", ["b", 2]]]]], ["y", ["b", 1]]]]), ["C", ["s", [["x", ["s", [["a", ["e", 3, 1]], ["b", ["b", 2]]]]], ["y", ["b", 1]]]], 45], m("A")),
        (V(["a", ["s", [["a", ["b", 2]], ["b", ["b", 2]]]], 2]), ["C", ["a", ["s", [["a", ["e", 3, 1]], ["b", ["b", 2]]]], 2], 717], m("A")),
        (V(["a", ["s", [["a", ["e", 3, 1]], ["b", ["b", 2]]]], 2]), ["C", ["a", ["s", [["a", ["e", 3, 1]], ["b", ["b", 2]]]], 2], 717], m("A")),
        (["P", ["s", [["a", ["b", 1]], ["b", ["b", 2]]]], 1, [0, 1, 2]], ["C", ["s", [["a", ["e", 3, 1]], ["b", ["b", 2]]]], 13], m("R")),
        (["P", ["s", [["a", ["e", 3, 1]], ["b", ["b", 2]]]], 1, [0, 1, 2]], ["C", ["s", [["a", ["e", 3, 1]], ["b", ["b", 2]]]], 13], m("R")),
        (V(["u", [["a", ["b", 3]], ["b", ["b", 2]]]]), ["C", ["u", [["a", ["b", 3]], ["b", ["b", 2]]]], 5], m("R")),
        (V(["u", [["a", ["b", 3]]]]), ["C", ["s", [["a", ["b", 3]], ["b", ["b", 2]]]], 5], m("R")),
        (["D", [["a", V(["b", 3])]]], ["C", ["u", [["a", ["b", 3]]]], 1], m("R")),
        # enum-shaped signals and members of views; enum members given directly
        (V(["e", 3, 1]), V(["b", 3]), m("R")), (V(["b", 3]), V(["e", 3, 1]), m("R")), (V(["e", 3, 1]), V(["e", 3, 1]), m("R")),
        (V(["e", 3, 1]), V(["e", 3, 2]), m("R")), (V(["n", 3]), V(["b", 3]), m("R")), (V(["n", 3]), V(["e", 3, 1]), m("R")),
        (V(["s", [["a", ["e", 3, 1]]]]), V(["s", [["a", ["b", 3]]]]), m("A")), (V(["s", [["a", ["e", 2, 1]], ["b", ["n", 2]]]]), V(["s", [["a", ["e", 2, 1]], ["b", ["b", 2]]]]), m("A")),
        (V(["s", [["a", ["e", 3, 1]]]]), ["D", [["a", ["E", 5, 3, 1]]]], m("R")), (V(["s", [["a", ["b", 3]]]]), ["D", [["a", ["E", 5, 3, 1]]]], m("R")),
        (V(["s", [["a", ["e", 3, 1]]]]), ["D", [["a", ["i", 1]]]], m("R")), (V(["b", 2]), ["E", 5, 3, 1], m("R")), (V(["e", 3, 1]), ["E", 5, 3, 1], m("R")),
        (["P", ["e", 2, 1], 1, [0, 1]], V(["e", 2, 1]), m("R")), (["P", ["e", 2, 1], 1, [0, 1]], V(["b", 2]), m("R")),
        (V(["u", [["a", ["e", 2, 1]], ["b", ["b", 2]]]]), V(["u", [["a", ["b", 2]], ["b", ["b", 2]]]]), m("R")),
        (["D", []], ["D", []], m("R")), (["D", []], V(S2), m("C")), (V(S2), V(["s", [["w", ["b", 1]]]], 1), m("C")),
        (["D", [["x", V(["b", 2])]]], V(["b", 2], 1), m("R")), (V(["b", 2]), ["L", [V(["b", 2])]], m("R")),
        (V(S2), V(S2, 1), ["I", []]), (V(S2), V(S2, 1), ["M", []]), (V(["b", 2]), V(["b", 2], 1), ["I", []]),
        (V(["g", 3]), V(["b", 3], 1), m("R")), (V(["g", 3]), V(["g", 3], 1), m("R")),
        (["D", [["k", ["P", S2, 1, [0, 1]]], ["j", V(["b", 1], 2)]]], ["D", [["k", V(S3, 0)], ["j", ["i", 1]]]], m("C")),
    ]


def _renumber(obj, st: "_Stores"):
    """fresh signal numbers in depth-first order (directed operands are written without caring about them)"""
    t = obj[0]
    if t == "V":
        return ["V", obj[1], st.new()]
    if t == "P":
        return ["P", obj[1], obj[2], [st.new() for _ in obj[3]]] + obj[4:]
    if t == "D":
        return ["D", [[k, _renumber(o, st)] for k, o in obj[1]]]
    if t == "L":
        return ["L", [_renumber(o, st) for o in obj[1]]]
    return obj


# witnesses of the two repaired defects: regression cases, run first on every invocation
REPAIRED = [
    ("744698a", "assign() skipped the shape check for a single-member structure with a signed member (F-b7-1)",
     (["V", ["b", 4], 0], ["V", ["s", [["a", ["g", 3]]]], 0], ["m", "R"])),
    ("744698a", "assign() skipped the shape check for a single-member structure with a signed member, mirrored (F-b7-1)",
     (["V", ["s", [["a", ["g", 3]]]], 0], ["V", ["b", 4], 0], ["m", "R"])),
    ("b9861c1", "assign() on an ArrayProxy of views over an ArrayLayout raised AttributeError (F-b7-2)",
     (["P", ["a", ["b", 2], 2], 0, [0, 1]], ["V", ["a", ["b", 2], 2], 0], ["m", "R"])),
    ("d1cbe8d", "assign() shape-checked a Python int unwrapped from a single-member Const by its value (F-b7-4)",
     (["V", ["b", 3], 0], ["C", ["s", [["a", ["b", 3]]]], 1], ["m", "R"])),
]


def regression_calls():
    """the repaired regions, a little more broadly than the three witnesses"""
    A2 = ["a", ["b", 2], 2]
    SA = ["s", [["x", A2], ["y", ["g", 2]]]]
    V = lambda l, s=0: ["V", l, s]  # noqa: E731
    m = lambda c: ["m", c]  # noqa: E731
    C1 = lambda l, v: ["C", l, v]  # noqa: E731
    return [c for _, _, c in REPAIRED] + [
        (V(["b", 3]), C1(["s", [["a", ["b", 3]]]], 5), m("R")), (V(["g", 3]), C1(["s", [["a", ["g", 3]]]], 6), m("A")),
        (V(["b", 2]), C1(["a", ["b", 2], 1], 1), m("R")), (V(["b", 2]), C1(["s", [["a", ["a", ["b", 3], 1]]]], 1), m("R")),
        (V(["b", 3]), C1(["s", [["a", ["n", 3]]]], 1), m("R")), (V(["b", 3]), C1(["s", [["a", ["e", 3, 1]]]], 1), m("R")),
        (V(["e", 3, 1]), C1(["s", [["a", ["e", 3, 1]]]], 1), m("R")), (V(["s", [["k", ["b", 3]]]]), C1(["s", [["a", ["b", 3]]]], 1), m("R")),
        (["P", ["b", 3], 0, [0, 1]], C1(["s", [["a", ["b", 3]]]], 1), m("R")), (["P", ["b", 3], 0, [0, 1]], C1(["s", [["a", ["b", 3]]]], 5), m("R")),
        (V(["b", 3]), V(["s", [["a", ["g", 3]]]]), m("R")), (V(["g", 3]), V(["s", [["a", ["g", 3]]]]), m("R")),
        (V(["g", 4]), V(["a", ["g", 3], 1]), m("A")), (V(["a", ["g", 3], 1]), V(["g", 3]), m("A")),
        (V(["s", [["a", ["s", [["b", ["g", 2]]]]]]]), V(["b", 2]), m("R")), (V(["b", 2]), V(["s", [["a", ["s", [["b", ["g", 2]]]]]]]), m("C")),
        (["D", [["k", V(["b", 4])]]], ["D", [["k", V(["s", [["a", ["g", 3]]]])]]], m("R")),
        (["P", ["u", [["a", ["g", 3]]]], 1, [0, 1]], V(["b", 3]), m("R")), (["P", ["u", [["a", ["g", 3]]]], 1, [0, 1]], V(["g", 3]), m("R")),
        (["P", A2, 1, [0, 1]], ["L", [V(["b", 2]), V(["b", 2])]], m("A")), (V(A2), ["P", A2, [1, 0], [0, 1, 2, 3], [2, 2]], m("C")),
        (["P", A2, 0, [0, 1]], V(["a", ["b", 2], 3]), m("C")), (["P", A2, 0, [0, 1]], V(["a", ["b", 2], 3]), m("R")),
        (["P", A2, 0, [0, 1]], ["P", A2, 1, [0, 1, 2]], ["I", [1]]), (["P", SA, 1, [0, 1]], V(SA), ["M", [["x", ["I", [0]]]]]),
        (["P", SA, [1, 0, 1], list(range(8)), [2, 2, 2]], ["P", SA, 0, [0]], m("A")), (["P", ["a", ["s", [["p", ["b", 1]]]], 2], 1, [0, 1]], V(["a", ["b", 1], 2]), m("A")),
        (["P", ["a", ["g", 3], 1], 0, [0, 1]], V(["g", 3]), m("R")), (["P", ["a", ["g", 3], 1], 0, [0, 1]], V(["b", 3]), m("R")),
    ]


def gen_cases(ctx: Check) -> list[Case]:
    rng = ctx.rng("gen")
    cases = [_mk([(_renumber(l, _Stores()), _renumber(r, _Stores()), f) for l, r, f in calls], "directed")
             for calls in (regression_calls(), directed_calls())]
    for _ in range(ctx.pick(240, 1500)):
        cases.append(_mk([gen_call(rng) for _ in range(10)], "random"))
    return cases


def more_cases(case: Case, rng):
    for _ in range(60):
        yield _mk([gen_call(rng) for _ in range(10)], "search")


def nontrivial(case: Case, out: list[str]) -> bool:
    """some call is accepted with >= 2 statements and leaves some left-hand bit unassigned"""
    for o in out[1:]:
        if o.startswith("ok n="):
            n = int(o.split()[0 + 1].split("=")[1])
            if n >= 2 and "-" in o.replace("n=", ""):
                return True
    return False


def replay_witness(w: dict) -> Optional[str]:
    case = Case("cfg", list(w["ops"]), {"component": "assign"}, "witness")
    return monitor(case, impl(case))


def run(ctx: Check):
    ctx.rule = ("cases = calls assign(lhs, rhs, fields) with operands built from signals/views over random nested "
                "struct/array/union layouts, ArrayProxies, dicts, lists and ints and selections of all three kinds, the two "
                "sides differing by dropped/added/resized/reordered members; non-trivial = accepted call with >= 2 "
                "statements that leaves some left-hand bit unassigned")
    ctx.proof_stage()
    ctx.replay_findings(replay_witness)
    # the repaired defects are regression cases whether or not known_findings.txt lists them
    for commit, text, call in REPAIRED:
        case = _mk([call], "witness")
        failure = monitor(case, impl(case))
        ctx.count("repaired_witnesses_replayed")
        if failure:
            ctx.violation(f"regression of repaired defect: {commit} {text}: {failure}",
                          {"cfg": case.cfg, "ops": case.ops, "desc": case.desc})
    lockstep(ctx, "assign", "C40", gen_cases(ctx), impl, monitor, more_cases, nontrivial, procs=ctx.pick(1, None))


def replay(ctx: Check, body: dict):
    case = Case(body["cfg"], list(body["ops"]), body.get("desc", {}), "replay")
    return monitor(case, impl(case))
