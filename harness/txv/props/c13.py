"""C13 - Simultaneous methods run together and exchange data (transactron/core/manager.py `_simultaneous`,
transactron/core/transaction_base.py `simultaneous`, transactron/lib/connectors.py `Connect`)."""

from __future__ import annotations

import random

from ..common import Check

META = {
    "id": "C13",
    "design_ref": "DESIGN.md §6 C13 (model: §6.1 incl. 'Derived inputs', correspondence: §6.2)",
    "technique": "Lean 4 theorems on the post-merge flat design (TxV/Proofs/Simultaneous.lean, from the core theorems "
    "C01/C04/C05 of TxV/Core) under a decidable shape predicate; an executable Lean model of "
    "TransactionManager._simultaneous and of Connect's two wires (TxV/Model/Simultaneous.lean) compared with the real "
    "post-merge design and, per input valuation, with the real circuit in pysim",
    "level_text": "c13_same_cycles (run a <-> run b) and c13_data (Connect: read returns write's argument, write returns "
    "read's argument, exactly one active caller each) are proved for every post-merge design satisfying the shape "
    "predicate, every valuation and every run assignment satisfying the scheduler equations; simultaneous_shape_connect "
    "proves the shape for w writers x r readers of one Connect for all w, r from the executable model of _simultaneous; "
    "for other uses (plain simultaneous() between transactions/methods, chained Connects) the shape is checked by the "
    "driver on every generated design",
    "level_note": "trusted: Lean kernel; Amaranth semantics (av_comb assignment of Connect) and pysim; the harness glue. "
    "Monitor: both bodies of every simultaneous pair have equal run bits in every valuation; whenever a writer and a reader "
    "of a Connect run, the reader's call result equals the writer's argument input and vice versa.",
}


def monitor(b, vals, obs):
    spec = b.spec
    if b.reject is not None:
        if spec.get("expect", "ok") == "ok":
            return (f"well-formed use of simultaneous()/Connect rejected by the manager: {b.reject}: {b.reject_msg[:160]}", None)
        return None
    # (C02, reachable only with simultaneous()) two bodies related by add_conflict never run in the same cycle
    for a, c, _p in spec.get("conflicts", []):
        for vi, ((bits, _dv), o) in enumerate(zip(vals, obs)):
            if o.run[b.id_of[a]] and o.run[b.id_of[c]]:
                return (f"{a}.add_conflict({c}) but both run in the same cycle (inputs {''.join(map(str, bits))}); "
                        f"{a} and {c} are also simultaneous: the design must be rejected", vi)
    sites: list = []

    def walk(name, block):
        for s in block:
            if s["k"] == "call":
                sites.append((name, s["m"], s.get("arg")))
            elif s["k"] == "trans":
                walk(s["name"], s["block"])
            elif s["k"] in ("if", "switch", "fsm"):
                for a in s.get("alts", []) + s.get("cases", []) + s.get("states", []):
                    walk(name, a["items"])

    # leaves define no calls; connects are elaborated after the items: site order = order of the items' calls
    from ..core.simulgen import flat_items

    for it, _guard in flat_items(spec):
        walk(it["name"], it["block"])
    ids = b.id_of
    pairs = [tuple(p) for p in spec.get("simul", [])] + [(c["name"] + ".write", c["name"] + ".read") for c in spec.get("connects", [])]
    widths = {c["name"]: (c["w"], c["rw"]) for c in spec.get("connects", [])}
    dins = spec.get("dins", [])
    for vi, ((bits, dv), o) in enumerate(zip(vals, obs)):
        run = lambda nm: o.run[ids[nm]]  # noqa: E731
        # 1. simultaneous bodies run in exactly the same cycles
        for a, c in pairs:
            if run(a) != run(c):
                return (f"{a} and {c} are simultaneous but run={run(a)} / {run(c)} (inputs {''.join(map(str, bits))})", vi)
        # 2. Connect: data passed into one side is delivered to the other side in the same cycle
        for cn, (w, rw) in widths.items():
            ws = [(i, s) for i, s in enumerate(sites) if s[1] == cn + ".write" and run(s[0])]
            rs = [(i, s) for i, s in enumerate(sites) if s[1] == cn + ".read" and run(s[0])]
            if bool(ws) != bool(rs):
                return (f"Connect {cn}: running writers {[s[0] for _, s in ws]} but running readers {[s[0] for _, s in rs]}", vi)
            if len(ws) > 1 or len(rs) > 1:
                return (f"Connect {cn}: several callers of one side run together: {[s[0] for _, s in ws]} / {[s[0] for _, s in rs]}", vi)
            if ws and rs:
                (wi, wsite), (ri, rsite) = ws[0], rs[0]
                sent = (dv[wsite[2]] if wsite[2] is not None else 0) & ((1 << w) - 1)
                back = (dv[rsite[2]] if rsite[2] is not None else 0) & ((1 << rw) - 1)
                if o.res[ri] != sent:
                    return (f"Connect {cn}: {wsite[0]} writes {sent} but {rsite[0]} reads {o.res[ri]} in the same cycle", vi)
                if o.res[wi] != back:
                    return (f"Connect {cn}: {rsite[0]} passes {back} backwards but {wsite[0]} receives {o.res[wi]}", vi)
    return None


KINDS = ["connect", "nested", "guarded", "half", "alias", "big", "conflict", "connect2", "tt", "guarded", "mm", "tm", "nested", "half", "alias", "big", "free", "guarded", "nested", "conflict"]


def gen(pid: str, index: int, seed: int, tier: str) -> dict:
    from ..core import simulgen as sg

    for attempt in range(20):
        rng = random.Random(f"{pid}/{seed}/{index}/{attempt}")
        spec = sg.gen_c13(rng, KINDS[index % len(KINDS)])
        if not descriptor(spec)["simultaneous_transactions_share_a_callee"]:  # region of a proposed finding
            break
    spec["expect"] = "any" if spec.get("conflicts") else "ok"
    return spec


def _call(m, en=None, arg=None):
    return {"k": "call", "m": m, "en": en, "arg": arg}


def directed() -> list[dict]:
    out = []
    # 2 writers x 2 readers, data both ways, each caller also calls a randomly-ready method
    out.append({"nin": 8, "dins": [3, 3, 2, 2], "leaves": [{"name": f"x{i}", "ready": 4 + i} for i in range(4)],
                "connects": [{"name": "cn0", "w": 3, "rw": 2}],
                "items": [{"k": "trans", "name": "T0", "ready": 0, "block": [_call("cn0.write", arg=0), _call("x0")]},
                          {"k": "trans", "name": "T1", "ready": 1, "block": [_call("x1"), _call("cn0.write", arg=1)]},
                          {"k": "trans", "name": "T2", "ready": 2, "block": [_call("cn0.read", arg=2), _call("x2")]},
                          {"k": "trans", "name": "T3", "ready": 3, "block": [_call("cn0.read", arg=3), _call("x3")]}],
                "simul": [], "tag": "c13:directed-2x2", "expect": "ok"})
    # one transaction calls both sides of one Connect: unsatisfiable
    out.append({"nin": 1, "dins": [2], "leaves": [], "connects": [{"name": "cn0", "w": 2, "rw": 0}],
                "items": [{"k": "trans", "name": "T0", "ready": 0, "block": [_call("cn0.write", arg=0), _call("cn0.read")]}],
                "simul": [], "tag": "c13:directed-unsat", "expect": "any"})
    # a conditional call of a Connect method: not supported by the manager
    out.append({"nin": 3, "dins": [2], "leaves": [], "connects": [{"name": "cn0", "w": 2, "rw": 0}],
                "items": [{"k": "trans", "name": "T0", "ready": 0, "block": [_call("cn0.write", en=2, arg=0)]},
                          {"k": "trans", "name": "T1", "ready": 1, "block": [_call("cn0.read")]}],
                "simul": [], "tag": "c13:directed-condcall", "expect": "any"})
    # a transaction nested in a method and declared simultaneous with it (what condition() builds), the method called
    # unconditionally by a wrapper that is called conditionally; second case: two nesting levels, the outer nested
    # transaction calls nothing
    out.append({"nin": 4, "dins": [], "leaves": [{"name": "x0", "ready": None}], "connects": [],
                "items": [{"k": "method", "name": "M0", "ready": None, "nx": 0, "block": [
                              {"k": "trans", "name": "N0", "ready": 0, "block": [_call("x0")]}]},
                          {"k": "method", "name": "M1", "ready": None, "nx": 0, "block": [_call("M0")]},
                          {"k": "trans", "name": "T0", "ready": 1, "block": [_call("M1", en=2)]}],
                "simul": [["M0", "N0"]], "tag": "c13:directed-nested-chain", "expect": "ok"})
    out.append({"nin": 4, "dins": [], "leaves": [{"name": "x0", "ready": None}], "connects": [],
                "items": [{"k": "method", "name": "M0", "ready": None, "nx": 0, "block": [
                              {"k": "trans", "name": "N0", "ready": 0, "block": [
                                  {"k": "trans", "name": "N1", "ready": 3, "block": [_call("x0")]}]}]},
                          {"k": "trans", "name": "T0", "ready": 1, "block": [_call("M0", en=2)]}],
                "simul": [["M0", "N0"], ["N0", "N1"]], "tag": "c13:directed-nested2", "expect": "ok"})
    # one end of a Connect has no caller: the caller of the other end is removed by the manager and never runs
    out.append({"nin": 2, "dins": [2], "leaves": [{"name": "x0", "ready": 1}], "connects": [{"name": "cn0", "w": 2, "rw": 0}],
                "items": [{"k": "trans", "name": "T0", "ready": 0, "block": [_call("cn0.write", arg=0), _call("x0")]}],
                "simul": [], "tag": "c13:directed-half", "expect": "ok"})
    # the writer is a transaction written inside m.If / an FSM state / a Switch case; the reader is always there
    wr = {"k": "trans", "name": "T0", "ready": 0, "block": [_call("cn0.write", arg=0)]}
    rd = {"k": "trans", "name": "T1", "ready": 1, "block": [_call("cn0.read")]}
    for tag, guard in (("if", {"k": "if", "alts": [{"c": 2, "items": [wr]}]}),
                       ("fsm", {"k": "fsm", "sel": [2], "states": [{"items": []}, {"items": [wr]}]}),
                       ("switch", {"k": "switch", "sel": [2, 3], "cases": [{"pat": 2, "items": [wr]}, {"pat": None, "items": []}]})):
        out.append({"nin": 4, "dins": [2], "leaves": [], "connects": [{"name": "cn0", "w": 2, "rw": 0}],
                    "items": [guard, rd], "simul": [], "tag": f"c13:directed-guarded-{tag}", "expect": "ok"})
    # T --enable_call--> M2{nested N0 simultaneous with M2, N0 -> M1}, M1 -> M0{nested N1 simultaneous with M0}
    out.append({"nin": 4, "dins": [], "leaves": [], "connects": [],
                "items": [{"k": "method", "name": "M0", "ready": None, "nx": 0, "block": [
                              {"k": "trans", "name": "N1", "ready": 0, "block": []}]},
                          {"k": "method", "name": "M1", "ready": None, "nx": 0, "block": [_call("M0")]},
                          {"k": "method", "name": "M2", "ready": None, "nx": 0, "block": [
                              {"k": "trans", "name": "N0", "ready": 1, "block": [_call("M1")]}]},
                          {"k": "trans", "name": "T0", "ready": 2, "block": [_call("M2", en=3)]}],
                "simul": [["M2", "N0"], ["M0", "N1"]], "tag": "c13:directed-nested-deep", "expect": "ok"})
    # simultaneous() declared between two methods that both get their definition through provide()
    out.append({"nin": 2, "dins": [], "leaves": [], "connects": [],
                "items": [{"k": "method", "name": "M0", "ready": None, "nx": 0, "block": []},
                          {"k": "method", "name": "M1", "ready": None, "nx": 0, "block": []},
                          {"k": "trans", "name": "T0", "ready": 0, "block": [_call("A0")]},
                          {"k": "trans", "name": "T1", "ready": 1, "block": [_call("M1")]}],
                "aliases": [{"name": "A0", "target": "M0"}, {"name": "A1", "target": "M1"}],
                "simul": [["A0", "A1"]], "tag": "c13:directed-alias", "expect": "ok"})
    # three Connects in series: one simultaneity component of four transactions
    out.append({"nin": 4, "dins": [2, 2, 2], "leaves": [], "connects": [{"name": f"cn{i}", "w": 2, "rw": 0} for i in range(3)],
                "items": [{"k": "trans", "name": "T0", "ready": 0, "block": [_call("cn0.write", arg=0)]},
                          {"k": "trans", "name": "T1", "ready": 1, "block": [_call("cn0.read"), _call("cn1.write", arg=1)]},
                          {"k": "trans", "name": "T2", "ready": 2, "block": [_call("cn1.read"), _call("cn2.write", arg=2)]},
                          {"k": "trans", "name": "T3", "ready": 3, "block": [_call("cn2.read")]}],
                "simul": [], "tag": "c13:directed-series4", "expect": "ok"})
    # simultaneous bodies with an add_conflict between them: must be rejected (all three priorities)
    for p in "ULR":
        out.append({"nin": 2, "dins": [], "leaves": [], "connects": [],
                    "items": [{"k": "trans", "name": "T0", "ready": 0, "block": []}, {"k": "trans", "name": "T1", "ready": 1, "block": []}],
                    "simul": [["T0", "T1"]], "conflicts": [["T0", "T1", p]], "tag": "c13:directed-conflict", "expect": "any"})
    # a chain of three simultaneous transactions
    out.append({"nin": 6, "dins": [], "leaves": [{"name": f"x{i}", "ready": 3 + i} for i in range(3)], "connects": [],
                "items": [{"k": "trans", "name": f"T{i}", "ready": i, "block": [_call(f"x{i}")]} for i in range(3)],
                "simul": [["T0", "T1"], ["T1", "T2"]], "tag": "c13:directed-chain", "expect": "ok"})
    return out


def witness_specs(kind: str) -> list[dict]:
    if kind == "connect_chain_ends_share_a_callee":
        out = []
        for nx in (0, 1):
            out.append({"nin": 3, "dins": [2, 2], "leaves": [],
                        "connects": [{"name": "cn0", "w": 2, "rw": 0}, {"name": "cn1", "w": 2, "rw": 0}],
                        "items": [{"k": "method", "name": "M0", "ready": None, "nx": nx, "block": []},
                                  {"k": "trans", "name": "T0", "ready": 0, "block": [_call("cn0.write", arg=0), _call("M0")]},
                                  {"k": "trans", "name": "T1", "ready": 1, "block": [_call("cn0.read"), _call("cn1.write", arg=1)]},
                                  {"k": "trans", "name": "T2", "ready": 2, "block": [_call("cn1.read"), _call("M0")]}],
                        "simul": [], "tag": "c13:witness-chain-shared", "expect": "ok"})
        return out
    raise KeyError(kind)


def descriptor(spec: dict) -> dict:
    """region of the proposed finding F-c13-1: two different transactions that take part in simultaneity (call a Connect
    end / a simultaneous method, or are simultaneous themselves) call one common other method"""
    from ..core.simulgen import flat_items

    sim_names = {x for p in spec.get("simul", []) for x in p}
    for c in spec.get("connects", []):
        sim_names |= {c["name"] + ".write", c["name"] + ".read"}
    callers: dict[str, set] = {}
    involved = set()
    for it, _ in flat_items(spec):
        if it["k"] != "trans":
            continue
        ms = [x["m"] for x in it["block"] if x["k"] == "call"]
        if it["name"] in sim_names or any(m in sim_names for m in ms):
            involved.add(it["name"])
        for m in ms:
            if m not in sim_names:
                callers.setdefault(m, set()).add(it["name"])
    shared = any(len(ts & involved) >= 2 for ts in callers.values())
    return {"simultaneous_transactions_share_a_callee": shared, "tag": spec.get("tag")}


def nontrivial(r: dict) -> bool:
    s = r.get("stats") or {}
    return bool(r["reject"] is None and s.get("merged_ran"))


def run(ctx: Check):
    from ..core.simulcheck import run_simul

    ctx.rule = ("cases = (circuit connecting callers through Connect / simultaneous(), input valuation incl. data); "
                "non-trivial = circuits in which a merged transaction ran in some valuation (w writers x r readers, "
                "chained Connects, simultaneous transactions / methods, callers with other randomly-ready callees)")
    run_simul(ctx, "C13", gen, monitor, directed(), witness_specs, nontrivial, n_quick=44, n_thorough=2000,
              descriptor=descriptor)


def replay(ctx: Check, body: dict):
    from ..core.simulcheck import replay_simul

    return replay_simul(ctx, "C13", body, monitor)
