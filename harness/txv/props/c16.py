"""C16 — Stack behaves as a bounded LIFO (transactron/lib/stack.py:12-152)."""

from __future__ import annotations

import itertools

from ..bufcases import (REGIMES, Vals, exhaustive_ops, fields, fmt, load_corpus, make_multi, multi_nontrivial, multi_obs,
                        multi_sim_op, optv, parse, probe_orders, random_multi_ops, random_ops, reduce_multi)
from ..common import Check
from ..lockstep import Case, lockstep, replay_case
from ..simrun import CompSim, fmt_opt

META = {
    "id": "C16",
    "design_ref": "DESIGN.md §7 C16",
    "technique": "Lean 4: hand-written step model of Stack (level register, next_level, memory addressed by next_level-1 truncated "
    "to the address width, transparent synchronous read port) proved to refine a bounded list-stack whose cycle is 'read pops, "
    "then write pushes, clear empties' for every depth and every call history (invariant + simulation); lock-step "
    "correspondence of the model with the real Stack in pysim",
    "level_text": "c16_refines, c16_read, c16_peek, c16_read_write, c16_ready, c16_clear, c16_bounded hold for every depth >= 0 "
    "(power of two or not), every data value and every history of simultaneous write/read/peek/clear attempts; the model is "
    "tied to the code by cycle-exact comparison of done bits, returned data, the three ready signals, level and the head "
    "register over depths 0..9 (thorough 0..17, 31..33), several layouts, directed fill/drain/read+write-at-every-level/clear "
    "sequences, random regimes and (thorough) all histories up to length 3 for depths 1..3"
    " Multi-caller scenarios: a wrapper owning the real component with two AdapterTrans on each of write/read/peek; per cycle each caller attempts independently, the model grants exclusive methods to the first attempting caller in the priority order probed from the real scheduler (c16_callers theorem: at most one caller executes and it sees the single-port outcome), the monitor accepts either winner and checks at-most-one executing caller per exclusive method and exactly-once in-order delivery over the union of all callers.",
    "level_note": "trusted: Lean kernel with axioms propext/Classical.choice/Quot.sound; Amaranth semantics, amaranth.lib.memory "
    "(transparent sync read port; out-of-range address: write dropped, read gives 0, transparency still forwards) and pysim; "
    "data layouts flattened to one number; TransactionManager wiring of conflict-free methods is C01-C05.",
}

_sims: dict[tuple, CompSim] = {}


def _layout(widths):
    return [(f"f{i}", w) for i, w in enumerate(widths)]


def _sim(depth: int, widths: tuple, callers: int = 0) -> CompSim:
    key = (depth, widths, callers)
    if key not in _sims:
        from transactron.lib.stack import Stack

        if callers:
            _sims[key] = CompSim(lambda: make_multi(Stack(_layout(widths), depth), callers))
        else:
            _sims[key] = CompSim(lambda: Stack(_layout(widths), depth))
    return _sims[key]


def impl(case: Case) -> list[str]:
    try:
        return _impl(case)
    except Exception as e:  # noqa: BLE001 - an exception of the real code is an observation
        return [f"raise {type(e).__name__}"] + ["-"] * len(case.ops)


def _impl(case: Case) -> list[str]:
    d = case.desc
    callers = d.get("callers", 0)
    sim = _sim(d["depth"], tuple(d["layout"]), callers)
    out = ["ok"]
    if callers:
        tr = sim.run([multi_sim_op(line, True) for line in case.ops],
                     extra=lambda dut: [dut.inner.read.ready, dut.inner.peek.ready, dut.inner.write.ready, dut.inner.level, dut.inner.head])
        for r in tr:
            e = r["_extra"]
            out.append(f"{multi_obs(r, callers, True)} rdy={e[0]}{e[1]}{e[2]} lvl={e[3]} head={e[4]}")
        return out
    cycs = [parse(line) for line in case.ops]
    ops = [{"write": w, "read": 0 if r else None, "peek": 0 if p else None, "clear": 0 if c else None} for w, r, p, c in cycs]
    tr = sim.run(ops, extra=lambda dut: [dut.read.ready, dut.peek.ready, dut.write.ready, dut.level, dut.head])
    for r in tr:
        e = r["_extra"]
        out.append(
            f"w={0 if r[('write',)] is None else 1} r={fmt_opt(r[('read',)])} p={fmt_opt(r[('peek',)])} "
            f"c={0 if r[('clear',)] is None else 1} rdy={e[0]}{e[1]}{e[2]} lvl={e[3]} head={e[4]}"
        )
    return out


def monitor(case: Case, out: list[str]):
    """Property sentences on the implementation's observations, against a reference Python list (top = last)."""
    depth = case.desc["depth"]
    if out[0] != "ok":
        return f"the component does not elaborate/simulate: {out[0]}"
    if case.desc.get("callers"):
        # several transactions call the same method: exclusivity first, then the property on the union of all callers
        fail, case, out = reduce_multi(case, out)
        if fail:
            return f"Stack: {fail}"
    st: list[int] = []
    for k, (line, obs) in enumerate(zip(case.ops, out[1:])):
        w, r, p, c = parse(line)
        f = fields(obs)
        wdone, rret, pret, cdone = f["w"] == "1", optv(f["r"]), optv(f["p"]), f["c"] == "1"
        nonempty, nonfull = len(st) > 0, len(st) < depth
        if f["rdy"] != f"{int(nonempty)}{int(nonempty)}{int(nonfull)}":
            return f"cycle {k}: read.ready,peek.ready,write.ready={f['rdy']} with {len(st)}/{depth} elements on the stack"
        if (rret is not None) != (bool(r) and nonempty):
            return f"cycle {k}: read attempted={r} executed={rret is not None} with {len(st)} elements"
        if (pret is not None) != (bool(p) and nonempty):
            return f"cycle {k}: peek attempted={p} executed={pret is not None} with {len(st)} elements"
        if wdone != (w is not None and nonfull):
            return f"cycle {k}: write attempted={w is not None} executed={wdone} with {len(st)}/{depth} elements"
        if cdone != bool(c):
            return f"cycle {k}: clear attempted={c} executed={cdone}"
        if int(f["lvl"]) != len(st):
            return f"cycle {k}: level={f['lvl']} but {len(st)} elements pushed and not yet popped since the last clear"
        if rret is not None and rret != st[-1]:
            return f"cycle {k}: read returned {rret}, most recently pushed element still present is {st[-1]} (stack {st})"
        if pret is not None and pret != st[-1]:
            return f"cycle {k}: peek returned {pret}, most recently pushed element still present is {st[-1]} (stack {st})"
        # read and write in the same cycle act as a read followed by a push; peek does not remove; clear empties
        if rret is not None:
            st.pop()
        if wdone:
            st.append(w)
        if cdone:
            st = []
    return None


def nontrivial(case: Case, out: list[str]) -> bool:
    """read and write executed in one cycle on a stack with >= 1 element, or full and empty both reached, or clear with a write"""
    depth = case.desc["depth"]
    if out[0] != "ok":
        return False
    if case.desc.get("callers"):
        return multi_nontrivial(case, out)
    full = empty_after = False
    for obs in out[1:]:
        f = fields(obs)
        if f["w"] == "1" and (f["r"] != "-" or f["c"] == "1"):
            return True
        lvl = int(f["lvl"])
        full |= lvl == depth
        empty_after |= full and lvl == 0
    return empty_after


def _mk(depth: int, widths: tuple, cycs, tag: str) -> Case:
    return Case(
        f"cfg depth={depth} w={sum(widths)}",
        [fmt(c) for c in cycs],
        {"component": "Stack", "depth": depth, "layout": list(widths)},
        tag,
    )


def _mk_multi(depth: int, widths: tuple, lines: list[str], tag: str, callers: int = 2) -> Case:
    pw, pr = probe_orders(_sim(depth, widths, callers), callers)
    return Case(
        f"cfg depth={depth} w={sum(widths)} callers={callers} pw={','.join(map(str, pw))} pr={','.join(map(str, pr))}",
        lines,
        {"component": "Stack", "depth": depth, "layout": list(widths), "callers": callers},
        tag,
    )


def gen_multi(ctx: Check) -> list[Case]:
    """two independent transactions on each of write / read / peek of the same Stack"""
    rng = ctx.rng("multi")
    cases = []
    for depth, lay in ctx.pick([(1, (4,)), (3, (8,)), (4, (4,))], [(1, (4,)), (2, (2,)), (3, (8,)), (4, (4,)), (5, (3, 5)), (8, (8,))]):
        width = sum(lay)
        cases.append(_mk_multi(depth, lay, random_multi_ops(rng, ctx.pick(40, 300), width, 1.0, 1.0, 1.0, 0.05), "directed"))
        for reg in REGIMES[: ctx.pick(4, 7)]:
            cases.append(_mk_multi(depth, lay, random_multi_ops(rng, ctx.pick(80, 800), width, *reg), "random"))
    return cases


def directed(depth: int, width: int, rng) -> list[list]:
    v = Vals(rng, width)
    W = lambda: (v.next(), 0, 0, 0)  # noqa: E731
    R = (None, 1, 0, 0)
    P = (None, 0, 1, 0)
    RW = lambda: (v.next(), 1, 0, 0)  # noqa: E731
    ALL = lambda: (v.next(), 1, 1, 0)  # noqa: E731
    seqs = [[W() for _ in range(depth + 2)] + [P, P] + [R] * (depth + 2) + [P]]
    # read+write at every level (incl. empty: only the write runs; full: only the read runs), then drain and look at all rows
    for level in range(depth + 1):
        seqs.append([W() for _ in range(level)] + [RW(), ALL(), P, RW()] + [R] * (depth + 1))
    # clear with every combination of the others at empty / one / full, then refill to see stale rows do not leak
    for level in sorted({0, 1, depth}):
        for w, r, p in itertools.product((0, 1), repeat=3):
            seqs.append([W() for _ in range(level)] + [(v.next() if w else None, r, p, 1), ALL(), W(), ALL(), R, R, R])
    return seqs


def _configs(ctx: Check):
    rng = ctx.rng("cfg")
    layouts = [(1,), (2,), (4,), (8,), (3, 5), (1, 1, 2), (33,)]
    depths = ctx.pick(list(range(1, 10)), list(range(1, 18)) + [31, 32, 33])
    cfgs = [(0, (4,))]  # the real Stack elaborates with depth 0: nothing is ever ready
    for d in depths:
        ls = [layouts[(d + k) % len(layouts)] for k in range(ctx.pick(1, 2))] + [rng.choice(layouts)]
        for lay in dict.fromkeys(ls):
            cfgs.append((d, lay))
    return cfgs


def gen_cases(ctx: Check) -> list[Case]:
    rng = ctx.rng("gen")
    cases = load_corpus("C16")
    for depth, lay in _configs(ctx):
        width = sum(lay)
        for seq in directed(depth, width, rng):
            cases.append(_mk(depth, lay, seq, "directed"))
        n = ctx.pick(100, 800)
        for reg in REGIMES[: ctx.pick(5, 7)]:
            cases.append(_mk(depth, lay, random_ops(rng, n, width, *reg), "random"))
    if ctx.thorough:
        for depth in (1, 2, 3):
            for L in range(1, 4):
                for seq in exhaustive_ops(L, (1, 2)):
                    pre = [(3, 0, 0, 0)] * (depth // 2)
                    cases.append(_mk(depth, (2,), pre + seq + [(None, 1, 1, 0)], "exhaustive"))
    return cases


def more_cases(case: Case, rng):
    d = case.desc
    if d.get("callers"):
        for k in range(40):
            yield _mk_multi(d["depth"], tuple(d["layout"]), random_multi_ops(rng, 100, sum(d["layout"]), *REGIMES[k % len(REGIMES)]), "search")
        return
    for k in range(40):
        yield _mk(d["depth"], tuple(d["layout"]), random_ops(rng, 200, sum(d["layout"]), *REGIMES[k % len(REGIMES)]), "search")


def run(ctx: Check):
    ctx.rule = (
        "case = (depth, layout, history of attempted write(data)/read/peek/clear per cycle); non-trivial = some cycle executes "
        "read and write together or clear together with a write, or the stack becomes full and later empty again; "
        "multi-caller cases (two transactions per method): non-trivial = two callers compete for a ready exclusive method"
    )
    ctx.proof_stage()
    cases = gen_cases(ctx) + gen_multi(ctx)
    ctx.count("cases_multi_caller", sum(1 for c in cases if c.desc.get("callers")))
    ctx.count("configs", len({c.cfg for c in cases}))
    lockstep(ctx, "stack", "C16", cases, impl, monitor, more_cases, nontrivial, procs=ctx.pick(1, 8))


def replay(ctx: Check, body: dict):
    return replay_case(body, impl, monitor)
