"""C28 — PipelineBuilder pipelines are ordered, lossless and compute the composed stages
(transactron/lib/pipeline.py)."""

from __future__ import annotations

import json
import types

from ..common import Check, InfraError
from ..lockstep import Case, lockstep
from ..simrun import CompSim

META = {
    "id": "C28",
    "design_ref": "DESIGN.md §7 C28",
    "technique": "Lean 4 theorems over a specification automaton (chain of bounded queues; a step fires any enabled set "
    "of stage combiners) for arbitrary pipeline shapes and ALL schedules (chain invariant by induction over the node "
    "list and over the run, ghost histories per node); trace inclusion: the real pipeline is built with the real "
    "PipelineBuilder/TransactionManager, run in pysim under random call attempts, stage readiness and clears, the "
    "combiner runs and their data are recorded each cycle and the Lean driver checks that the observed run is a run "
    "of the automaton with equal data; independent Python monitor with reference queues per link",
    "level_text": "c28_chain, c28_each_stage_once_in_order, c28_lossless, c28_exit_is_composition, c28_fields, c28_clear "
    "(spec automaton, every shape, every schedule incl. clears), c28_live (liveness pass) and c28_pipe_link, "
    "c28_fifo_link, c28_links_refined (the lock-step product of the proved Pipe (C17) and BasicFifo (C14) component "
    "models, one per link / decoupling pipe, is exactly the automaton) are proved; the "
    "implementation is tied to the automaton by trace inclusion on generated pipeline shapes (external / called-method / "
    "function stages, pipes, FIFOs of several depths, no_dependency nodes incl. the coupled-transaction use, stages whose "
    "method validates its arguments (validate_arguments; the automaton's guard), stages redefining a field with another "
    "width followed by function stages with inferred input layout, detours through 2-3 external buffers whose "
    "same-named clear methods are registered with add_external_clear, "
    "allow_unused/allow_empty) with cycle-exact comparison of which combiners ran, the fields they returned/received and "
    "decoupling-pipe entries, and comparison of get_live_signals with the modelled liveness pass",
    "level_note": "PARTIAL by design (DESIGN.md C28): proof of the specification automaton + trace validation of the "
    "implementation; the links are refined by the component models of the real forwarders, what is tied only by trace "
    "inclusion is that the builder wires the stages to these components as the automaton says; the implementation's "
    "firing schedule, readiness and progress are not predicted or proved. "
    "Stage functions in the correspondence are affine maps of the required fields modulo the field width (the "
    "theorems hold for arbitrary functions). trusted: Lean kernel, axioms propext/Classical.choice/Quot.sound; "
    "Amaranth semantics and pysim; the harness glue incl. looking up the combiner methods by their names "
    "('<i>_pipeline_combiner') in the TransactionManager.",
}

# =====================================================================================================
# shapes
#   shape = {"w": [width of field k], "allow_unused": bool, "allow_empty": bool, "nodes": [node]}
#   node  = {"kind": "ext"|"call"|"func", "nodep": bool, "fifo": 0 (Pipe) | depth, "req": [field],
#            "gen": [[field, const, [coef per required field]]], "pair": bool, "vpred": None | [field, mask]}
#   gen entries may carry a 4th element: the width with which the stage (re)defines the field (default: shape["w"][field]).
#   "infer": function stage whose input layout is inferred from the parameter names of the stage function (i=None).
#   kinds "bufw"/"bufr" (with "buf": index into shape["bufs"] = [{"depth": d, "field": f, "w": width}]): the stage calls
#            `write` resp. `read` of an external buffering module (BasicFifo) through which field f takes a detour; every
#            buffer's `clear` (all of them are methods named "clear") is registered with add_external_clear.
#   "vpred": the method the node's required fields are passed to validates its arguments (`validate_arguments`):
#            `(field & mask) != 0`.  On a "call" node it is the called method; on the external node in front of a
#            "pair" node it is a method called by the coupling transaction with the fields the node returned.
#   "pair": this external no_dependency node is called, together with the external node just before it, from
#           one transaction inside the DUT (the documented use of no_dependency); its arguments are then
#           (returned fields of the previous node + const) instead of caller-supplied data.
# =====================================================================================================


def fname(k: int) -> str:
    return f"f{k}"


def live_after(shape: dict) -> list[list[int]]:
    """independent transcription of the backward liveness pass (for the monitor)"""
    live: set[int] = set()
    res = []
    for nd in reversed(shape["nodes"]):
        res.append(sorted(live))
        live = (live - {g[0] for g in nd["gen"]}) | set(nd["req"])
    res.reverse()
    return res


def gen_width(shape: dict, g: list) -> int:
    """width of a generated field: a stage may (re)define a field with its own shape (4th entry of the gen spec)"""
    return g[3] if len(g) > 3 else shape["w"][g[0]]


def widths_in(shape: dict) -> list[dict]:
    """per node: width of every field generated so far, as seen in front of the node (the latest definition wins)"""
    cur: dict[int, int] = {}
    res = []
    for nd in shape["nodes"]:
        res.append(dict(cur))
        for g in nd["gen"]:
            cur[g[0]] = gen_width(shape, g)
    return res


def affine(shape: dict, nd: dict, reqvals: dict) -> dict:
    out = {}
    for g in nd["gen"]:
        f, c, coefs = g[0], g[1], g[2]
        s = c + sum(a * reqvals[k] for a, k in zip(coefs, nd["req"]))
        out[f] = s % (1 << gen_width(shape, g))
    return out


def make_dut(shape: dict):
    from amaranth import Elaboratable, Signal
    from transactron import Method, TModule, Transaction, def_method
    from transactron.lib.pipeline import PipelineBuilder

    nodes = shape["nodes"]
    win = widths_in(shape)

    def lay_req(i):
        return [(fname(k), win[i][k]) for k in nodes[i]["req"]]

    def lay_gen(i):
        return [(fname(g[0]), gen_width(shape, g)) for g in nodes[i]["gen"]]

    def mk_body(nd):
        def body(arg):
            return {fname(g[0]): g[1] + sum(a * arg[fname(k)] for a, k in zip(g[2], nd["req"])) for g in nd["gen"]}

        return body

    def mk_named(nd):
        """stage function with one parameter per required field (the builder infers the input layout from the names)"""
        names = [fname(k) for k in nd["req"]]
        ns = {"body": mk_body(nd)}
        exec(f"def fn({', '.join(names)}):\n    return body({{{', '.join(repr(x) + ': ' + x for x in names)}}})", ns)
        return ns["fn"]

    def mk_pred(vp):
        def pred(arg):
            return (arg[fname(vp[0])] & vp[1]) != 0

        return pred

    class PipeDut(Elaboratable):
        def __init__(self):
            self.clear = Method()
            self._int = types.SimpleNamespace(rdy={}, crdy={}, prdy={}, callees={}, builder=None, bufs=[])
            for i, nd in enumerate(nodes):
                self._int.rdy[i] = Signal(init=1, name=f"rdy{i}")
                if nd["kind"] == "ext":
                    meth = Method(name=f"ext{i}", i=lay_gen(i), o=lay_req(i))
                    if nd.get("pair") or (i + 1 < len(nodes) and nodes[i + 1].get("pair")):
                        self._int.callees[i] = meth  # called from the DUT's own transaction
                        if nd.get("pair"):
                            self._int.prdy[i] = Signal(init=1, name=f"prdy{i}")
                    else:
                        setattr(self, f"ext{i}", meth)
                elif nd["kind"] == "call":
                    self._int.crdy[i] = Signal(init=1, name=f"crdy{i}")

        def elaborate(self, platform):
            m = TModule()
            m.submodules.pipeline = p = PipelineBuilder(allow_unused=shape["allow_unused"], allow_empty=shape["allow_empty"])
            self._int.builder = p
            from transactron.lib.fifo import BasicFifo

            for b, bd in enumerate(shape.get("bufs", [])):
                buf = BasicFifo([(fname(bd["field"]), bd["w"])], bd["depth"])
                m.submodules[f"buf{b}"] = buf
                self._int.bufs.append(buf)
            for i, nd in enumerate(nodes):
                if nd["fifo"]:
                    p.fifo(nd["fifo"])
                gen_fields = [g[0] for g in nd["gen"]]
                rdy = self._int.rdy[i]
                if nd["kind"] == "ext":
                    meth = getattr(self, f"ext{i}", None) or self._int.callees[i]
                    p.add_external(meth, ready=rdy, no_dependency=nd["nodep"])
                elif nd["kind"] == "bufw":
                    p.call_method(self._int.bufs[nd["buf"]].write, ready=rdy)
                elif nd["kind"] == "bufr":
                    p.call_method(self._int.bufs[nd["buf"]].read, ready=rdy)
                elif nd["kind"] == "call":
                    callee = Method(name=f"callee{i}", i=lay_req(i), o=lay_gen(i))
                    self._int.callees[i] = callee

                    kw = {}
                    if nd.get("vpred"):
                        kw["validate_arguments"] = mk_pred(nd["vpred"])
                    def_method(m, callee, ready=self._int.crdy[i], **kw)(mk_body(nd))
                    p.call_method(callee, ready=rdy, no_dependency=nd["nodep"])
                else:
                    if nd.get("infer"):
                        p.stage(m, o=lay_gen(i), name=f"fn{i}", ready=rdy, no_dependency=nd["nodep"])(mk_named(nd))
                    else:
                        p.stage(m, o=lay_gen(i), i=lay_req(i), name=f"fn{i}", ready=rdy, no_dependency=nd["nodep"])(mk_body(nd))
            for i, nd in enumerate(nodes):
                if nd.get("pair"):
                    a, b = self._int.callees[i - 1], self._int.callees[i]
                    prev = nodes[i - 1]
                    chk = None
                    if prev.get("vpred"):
                        chk = Method(name=f"chk{i}", i=lay_req(i - 1))
                        def_method(m, chk, validate_arguments=mk_pred(prev["vpred"]))(lambda arg: None)
                    with Transaction(name=f"pair{i}").body(m, ready=self._int.prdy[i]):
                        got = a(m)
                        if chk is not None:
                            chk(m, got)
                        b(m, {fname(g[0]): g[1] + sum(co * got[fname(k)] for co, k in zip(g[2], prev["req"])) for g in nd["gen"]})
            for buf in self._int.bufs:
                p.add_external_clear(buf.clear)
            self.clear.provide(p.clear)
            return m

    return PipeDut()


class Built:
    """one elaborated pipeline + handles on the signals the harness observes"""

    def __init__(self, shape: dict):
        self.shape = shape
        self.sim = CompSim(lambda: make_dut(shape))
        dut = self.sim.dut
        tm = self.sim.tctx.transaction_manager
        by_name: dict[str, list] = {}
        for meth in tm.methods:
            by_name.setdefault(meth.name, []).append(meth)
        n = len(shape["nodes"])
        self.comb = []
        for i in range(n):
            ms = by_name.get(f"{i}_pipeline_combiner", [])
            if len(ms) != 1:
                raise InfraError(f"cannot identify the combiner method of pipeline node {i} by name (found {len(ms)})")
            self.comb.append(ms[0])
        self.entry_meth = {}
        for i, nd in enumerate(shape["nodes"]):
            if nd["nodep"]:
                if nd["kind"] == "ext":
                    self.entry_meth[i] = getattr(dut, f"ext{i}", None) or dut._int.callees[i]
                elif nd["kind"] == "call":
                    self.entry_meth[i] = dut._int.callees[i]
                else:
                    ms = by_name.get(f"fn{i}", [])
                    if len(ms) != 1:
                        raise InfraError(f"cannot identify the function-stage method fn{i}")
                    self.entry_meth[i] = ms[0]
        self.live_impl = [sorted(int(k[1:]) for k in d) for d in dut._int.builder.get_live_signals()]
        # signals to sample, in a fixed order
        self.sig = []
        self.idx = {}

        def add(key, s):
            self.idx[key] = len(self.sig)
            self.sig.append(s)

        for i, nd in enumerate(shape["nodes"]):
            c = self.comb[i]
            add(("run", i), c.run)
            for g in nd["gen"]:
                add(("gen", i, g[0]), c.data_in[fname(g[0])])
            for k in nd["req"]:
                add(("ret", i, k), c.data_out[fname(k)])
            if i in self.entry_meth:
                em = self.entry_meth[i]
                add(("erun", i), em.run)
                for g in nd["gen"]:
                    add(("eval", i, g[0]), em.data_in[fname(g[0])] if nd["kind"] == "ext" else em.data_out[fname(g[0])])

    def run(self, stim: list[dict]) -> list[dict]:
        shape = self.shape
        dut = self.sim.dut
        ops = []
        for s in stim:
            op = {"clear": 0 if s["clear"] else None}
            for i, nd in enumerate(shape["nodes"]):
                if hasattr(dut, f"ext{i}"):
                    a = s["args"].get(i)
                    op[f"ext{i}"] = None if a is None else {fname(k): v for k, v in a.items()}
            ops.append(op)

        def pre(ctx, k):
            s = stim[k]
            for i, sig in dut._int.rdy.items():
                ctx.set(sig, s["rdy"][i])
            for i, sig in dut._int.crdy.items():
                ctx.set(sig, s["crdy"][i])
            for i, sig in dut._int.prdy.items():
                ctx.set(sig, s["prdy"][i])

        tr = self.sim.run(ops, extra=lambda d: self.sig, pre_cycle=pre)
        res = []
        for s, r in zip(stim, tr):
            e = r["_extra"]
            cyc = {"clear": r[("clear",)] is not None, "nodes": []}
            for i, nd in enumerate(shape["nodes"]):
                o = {"fired": bool(e[self.idx[("run", i)]]), "ret": None, "gen": None, "ent": None, "ext_done": None}
                if o["fired"]:
                    o["ret"] = {k: e[self.idx[("ret", i, k)]] for k in nd["req"]}
                    o["gen"] = {g[0]: e[self.idx[("gen", i, g[0])]] for g in nd["gen"]}
                if i in self.entry_meth and e[self.idx[("erun", i)]]:
                    o["ent"] = {g[0]: e[self.idx[("eval", i, g[0])]] for g in nd["gen"]}
                if hasattr(dut, f"ext{i}"):
                    o["ext_done"] = r[(f"ext{i}",)] is not None  # the caller's view of the external method
                cyc["nodes"].append(o)
            res.append(cyc)
        return res


_built: dict[str, Built] = {}


def built(shape: dict) -> Built:
    key = json.dumps(shape, sort_keys=True)
    if key not in _built:
        if len(_built) > 400:
            _built.clear()
        _built[key] = Built(shape)
    return _built[key]


# =====================================================================================================
# line formats
# =====================================================================================================


def rec_str(d) -> str:
    if not d:
        return "-"
    return ",".join(f"{k}:{v}" for k, v in sorted(d.items()))


def parse_rec(s: str) -> dict:
    if s == "-":
        return {}
    return {int(a): int(b) for a, b in (p.split(":") for p in s.split(","))}


def cfg_line(shape: dict) -> str:
    toks = ["cfg", "w=" + ",".join(map(str, shape["w"]))]
    for i, nd in enumerate(shape["nodes"]):
        kind = "E" if nd["kind"] in ("ext", "bufr") else "C"  # bufr: the generated field comes from outside the automaton
        cap = nd["fifo"] or 1
        req = ",".join(map(str, nd["req"])) or "-"
        def wsuf(g):
            return f":{g[3]}" if len(g) > 3 else ""

        gen = ";".join(f"{g[0]}:{g[1]}:{'.'.join(map(str, g[2])) or '-'}{wsuf(g)}" for g in nd["gen"]) or "-"
        if nd["kind"] in ("ext", "bufr"):
            gen = ";".join(f"{g[0]}:0:-{wsuf(g)}" for g in nd["gen"]) or "-"
        vp = nd.get("vpred")
        toks.append(f"n{i}={kind}/{int(nd['nodep'])}/{cap}/{int(not nd['fifo'])}/{req}/{gen}/{f'{vp[0]}:{vp[1]}' if vp else '-'}")
    return " ".join(toks)


def stim_tokens(shape: dict, s: dict) -> str:
    n = len(shape["nodes"])
    t = [f"ca={int(s['clear'])}"]
    for i in sorted(s["args"]):
        a = s["args"][i]
        t.append(f"a{i}={'n' if a is None else rec_str(a)}")
    t.append("r=" + "".join(str(s["rdy"][i]) for i in range(n)))
    if s["crdy"]:
        t.append("k=" + ",".join(f"{i}:{v}" for i, v in sorted(s["crdy"].items())))
    if s["prdy"]:
        t.append("p=" + ",".join(f"{i}:{v}" for i, v in sorted(s["prdy"].items())))
    return " ".join(t)


def parse_stim(shape: dict, line: str) -> dict:
    t = dict(x.split("=", 1) for x in line.split()[1:] if "=" in x)
    n = len(shape["nodes"])
    s = {"clear": t["ca"] == "1", "args": {}, "rdy": {i: int(t["r"][i]) for i in range(n)}, "crdy": {}, "prdy": {}}
    for k, v in t.items():
        if k[0] == "a" and k[1:].isdigit():
            s["args"][int(k[1:])] = None if v == "n" else parse_rec(v)
    if "k" in t:
        s["crdy"] = {int(a): int(b) for a, b in (p.split(":") for p in t["k"].split(","))}
    if "p" in t:
        s["prdy"] = {int(a): int(b) for a, b in (p.split(":") for p in t["p"].split(","))}
    return s


def observed_tokens(shape: dict, s: dict, cyc: dict) -> str:
    """the label of the automaton step: which combiners ran, entries, environment data (from the observation)"""
    t = [f"c={int(cyc['clear'])}"]
    for i, (nd, o) in enumerate(zip(shape["nodes"], cyc["nodes"])):
        x = "-"
        if o["fired"] and nd["kind"] in ("ext", "bufr") and not nd["nodep"]:
            x = rec_str(o["gen"])  # what the caller supplied (as the combiner received it)
        ent = "n"
        if o["ent"] is not None:
            ent = rec_str(o["ent"]) if nd["kind"] == "ext" else "-"
        t.append(f"e{i}={int(o['fired'])}/{x}/{ent}")
    return " ".join(t)


def out_line(shape: dict, cyc: dict) -> str:
    t = [f"c={int(cyc['clear'])}"]
    for i, o in enumerate(cyc["nodes"]):
        if not o["fired"] and o["ent"] is None:
            t.append(f"o{i}=.")
            continue
        r = rec_str(o["ret"]) if o["fired"] else "."
        g = rec_str(o["gen"]) if o["fired"] else "."
        e = "n" if o["ent"] is None else rec_str(o["ent"])
        t.append(f"o{i}={r}/{g}/{e}")
    return " ".join(t)


def parse_out(line: str) -> tuple[bool, list[dict]]:
    res = []
    toks = line.split()
    if not toks or not toks[0].startswith("c="):
        return False, []
    for tok in toks[1:]:
        _, v = tok.split("=", 1)
        if v == ".":
            res.append({"fired": False, "ret": None, "gen": None, "ent": None})
            continue
        r, g, e = v.split("/")
        res.append(
            {
                "fired": r != ".",
                "ret": None if r == "." else parse_rec(r),
                "gen": None if g == "." else parse_rec(g),
                "ent": None if e == "n" else parse_rec(e),
            }
        )
    return toks[0] == "c=1", res


# =====================================================================================================
# implementation runner and case construction (the observed schedule is embedded into the op lines)
# =====================================================================================================


def run_real(shape: dict, stims: list[dict]):
    b = built(shape)
    return b, b.run(stims)


def make_case(shape: dict, stims: list[dict], tag: str) -> Case:
    """run the real pipeline once to obtain the schedule it chose; the op lines carry stimulus + observed label"""
    b, obs = run_real(shape, stims)
    ops = ["live"]
    for s, cyc in zip(stims, obs):
        ops.append("cyc " + stim_tokens(shape, s) + " " + observed_tokens(shape, s, cyc))
    desc = {
        "component": "PipelineBuilder",
        "shape": shape,
        "n": len(shape["nodes"]),
        "kinds": "".join(nd["kind"][0] + ("n" if nd["nodep"] else "") + (str(nd["fifo"]) if nd["fifo"] else "") for nd in shape["nodes"]),
    }
    case = Case(cfg_line(shape), ops, desc, tag, payload=shape)
    _results[case.key()] = _format(case, b, obs)
    return case


_results: dict[str, list[str]] = {}


def _format(case: Case, b: Built, obs: list[dict]) -> list[str]:
    out = ["ok"]
    it = iter(obs)
    for o in case.ops:
        if o.startswith("live"):
            out.append("live " + "|".join(",".join(map(str, l)) or "-" for l in b.live_impl))
        else:
            out.append(out_line(case.payload, next(it)))
    return out


def impl(case: Case) -> list[str]:
    if case.payload is None:
        case.payload = case.desc["shape"]
    hit = _results.get(case.key())
    if hit is not None:
        return hit
    shape = case.payload
    stims = [parse_stim(shape, o) for o in case.ops if o.startswith("cyc")]
    try:
        b, obs = run_real(shape, stims)
    except InfraError:
        raise
    except Exception as e:  # noqa: BLE001 - an exception of the real builder is an observation
        return ["ok"] + [f"raise {type(e).__name__}"] * len(case.ops)
    out = ["ok"]
    it = iter(obs)
    for o in case.ops:
        if o.startswith("live"):
            out.append("live " + "|".join(",".join(map(str, l)) or "-" for l in b.live_impl))
        else:
            out.append(out_line(shape, next(it)))
    return out


# =====================================================================================================
# property monitor: reference queues (unbounded) per link, on the implementation's observations only
# =====================================================================================================


def monitor(case: Case, out: list[str]):
    shape = case.payload if case.payload is not None else case.desc["shape"]
    nodes = shape["nodes"]
    n = len(nodes)
    live = live_after(shape)
    pend: list[list[dict]] = [[] for _ in range(n + 1)]  # pend[i]: produced by node i-1, not yet consumed by node i
    npend: list[list[dict]] = [[] for _ in range(n)]  # decoupling pipe of node i
    seq = [0] * n  # how many times each node ran since the last clear
    bufs = shape.get("bufs", [])
    refbuf: list[list[int]] = [[] for _ in bufs]  # reference content of the external buffers (cleared by the pipeline's clear)
    t = -1
    for op, o in zip(case.ops, out[1:]):
        if not op.startswith("cyc"):
            continue
        t += 1
        stim = parse_stim(shape, op)
        cleared, cyc = parse_out(o)
        if len(cyc) != n:
            return f"cycle {t}: malformed observation"
        pushes = {}
        npushes = {}
        bpush: dict[int, int] = {}
        bpop: list[int] = []
        # progress: in a cycle in which every stage, callee and coupling transaction is ready, every caller of a
        # non-source external stage attempts its call and clear is not called, the most downstream waiting item must
        # move on (its stage has its input and nothing in front of it) unless the argument validation of the stage's
        # method refuses it, its decoupling pipe is empty, or the coupled decoupling pipe behind it is occupied
        all_ready = (
            not stim["clear"]
            and all(stim["rdy"].values())
            and all(stim["crdy"].values())
            and all(stim["prdy"].values())
            and all(a is not None for i, a in stim["args"].items() if i > 0)
        )
        if all_ready:
            waiting = [j for j in range(1, n) if pend[j]]
            if waiting:
                j = max(waiting)
                ndj = nodes[j]
                vp = ndj.get("vpred")
                refused = bool(vp) and (pend[j][0].get(vp[0], 0) & vp[1]) == 0
                legit = refused or (ndj["nodep"] and not npend[j]) or (j + 1 < n and nodes[j + 1].get("pair") and bool(npend[j + 1]))
                if ndj["kind"] == "bufr":
                    legit = legit or not refbuf[ndj["buf"]]
                if ndj["kind"] == "bufw":
                    legit = legit or len(refbuf[ndj["buf"]]) >= bufs[ndj["buf"]]["depth"]
                if not legit and len(cyc) == n and not cyc[j]["fired"]:
                    return (
                        f"cycle {t}: item {pend[j][0]} waits in front of stage {j} with every stage, callee and caller ready and "
                        f"nothing in front of it, but stage {j} does not run: the item never leaves the pipeline (stuck)"
                    )
        for i, (nd, ob) in enumerate(zip(nodes, cyc)):
            genf = [g[0] for g in nd["gen"]]
            if ob["ent"] is not None:
                if not nd["nodep"]:
                    return f"cycle {t}: node {i} is not no_dependency but a decoupling entry was observed"
                if nd["kind"] == "ext" and not nd.get("pair"):
                    want = stim["args"].get(i)
                    if want is None or ob["ent"] != {k: want[k] for k in genf}:
                        return f"cycle {t}: node {i}: decoupling pipe received {ob['ent']}, caller supplied {want}"
                elif nd["kind"] != "ext":
                    want = affine(shape, nd, {})
                    if ob["ent"] != want:
                        return f"cycle {t}: node {i}: decoupling pipe received {ob['ent']}, stage function gives {want}"
                npushes[i] = ob["ent"]
            if not ob["fired"]:
                continue
            if i == 0:
                r = {}
            else:
                if not pend[i]:
                    return f"cycle {t}: stage {i} ran although every item produced by stage {i - 1} has already passed it (an item passes a stage twice / out of nothing)"
                r = pend[i][0]
            want_ret = {k: r.get(k) for k in nd["req"]}
            if nd.get("vpred") and (r.get(nd["vpred"][0], 0) & nd["vpred"][1]) == 0:
                return f"cycle {t}: stage {i} ran for the item {r} although its method's argument validation refuses it"
            if ob["ret"] != want_ret:
                return (
                    f"cycle {t}: stage {i} (run #{seq[i]} since clear) received fields {ob['ret']} but the next item in entry "
                    f"order carries {want_ret} (order / loss / wrong field values)"
                )
            if nd["nodep"]:
                if not npend[i]:
                    return f"cycle {t}: no_dependency stage {i} ran with an empty decoupling pipe"
                g = npend[i][0]
                if ob["gen"] != g:
                    return f"cycle {t}: stage {i} took {ob['gen']} from its decoupling pipe, the oldest entry is {g}"
            elif nd["kind"] == "bufr":
                b = nd["buf"]
                if not refbuf[b]:
                    return (
                        f"cycle {t}: stage {i} read {ob['gen']} from external buffer {b}, which holds nothing written since the last "
                        f"clear (an item parked in the external module survived clear / was read twice)"
                    )
                g = {bufs[b]["field"]: refbuf[b][0]}
                if ob["gen"] != g:
                    return f"cycle {t}: stage {i} read {ob['gen']} from external buffer {b}, the oldest item written to it since the last clear is {g}"
                bpop.append(b)
            elif nd["kind"] == "ext" and i + 1 < n and nodes[i + 1].get("pair"):
                g = {}  # called (without arguments) by the DUT's own coupling transaction
            elif nd["kind"] == "ext":
                g = stim["args"].get(i)
                if g is None:
                    return f"cycle {t}: external stage {i} ran without a call attempt"
                g = {k: g[k] for k in genf}
                if ob["gen"] != g:
                    return f"cycle {t}: external stage {i} took {ob['gen']}, the caller supplied {g}"
            else:
                g = affine(shape, nd, want_ret)
                if ob["gen"] != g:
                    return f"cycle {t}: stage {i} computed {ob['gen']} from {want_ret}, the stage function gives {g}"
            if nd["kind"] == "bufw":
                bpush[nd["buf"]] = want_ret[bufs[nd["buf"]]["field"]]
            pushes[i + 1] = {k: (g[k] if k in genf else r.get(k)) for k in live[i]}
        for i, ob in enumerate(cyc):
            if ob["fired"]:
                seq[i] += 1
                if i > 0:
                    pend[i].pop(0)
                if nodes[i]["nodep"]:
                    npend[i].pop(0)
        for i, v in pushes.items():
            pend[i].append(v)
        for i, v in npushes.items():
            npend[i].append(v)
        for b in bpop:
            refbuf[b].pop(0)
        for b, v in bpush.items():
            refbuf[b].append(v)
        if stim["clear"] and not cleared:
            return f"cycle {t}: clear attempted but did not run"
        if cleared:
            pend = [[] for _ in range(n + 1)]
            npend = [[] for _ in range(n)]
            seq = [0] * n
            refbuf = [[] for _ in bufs]  # the external clear hooks are part of the pipeline's clear
    return None


# =====================================================================================================
# generators
# =====================================================================================================

DIRECTED = {
    # the pipelines of test/lib/test_pipeline.py, in shape form
    "simple": {"w": [8], "nodes": [("ext", [], [[0, 0, []]]), ("func", [0], [[0, 1, [1]]]), ("ext", [0], [])]},
    "multi": {"w": [8], "nodes": [("ext", [], [[0, 0, []]]), ("func", [0], [[0, 1, [1]]]), ("func", [0], [[0, 0, [2]]]), ("ext", [0], [])]},
    "passthrough": {
        "w": [8, 8, 8],
        "nodes": [("ext", [], [[0, 0, []], [1, 0, []]]), ("func", [0, 1], [[2, 0, [1, 1]]]), ("func", [], []), ("ext", [0, 1, 2], [])],
    },
    "fifo16": {"w": [8], "nodes": [("ext", [], [[0, 0, []]]), ("func", [0], [[0, 1, [1]]]), ("func", [0], [[0, 2, [1]]], {"fifo": 16}), ("ext", [0], [])]},
    "callmethod": {"w": [8], "nodes": [("ext", [], [[0, 0, []]]), ("func", [0], [[0, 1, [1]]]), ("call", [0], [[0, 5, [1]]]), ("ext", [0], [])]},
    "two_externals": {
        "w": [8],
        "allow_empty": True,
        "nodes": [("ext", [], [[0, 0, []]]), ("ext", [0], []), ("ext", [], [[0, 1, [1]]], {"nodep": True, "pair": True}), ("ext", [0], [])],
    },
    "middle_exit": {
        "w": [8],
        "nodes": [("ext", [], [[0, 0, []]]), ("func", [0], [[0, 1, [1]]]), ("ext", [0], []), ("func", [0], [[0, 2, [1]]]), ("ext", [0], [])],
    },
    "clear_fifo5": {"w": [8], "nodes": [("ext", [], [[0, 0, []]]), ("ext", [0], [], {"fifo": 5})]},
    # no_dependency variants
    "nodep_ext": {
        "w": [8, 4],
        "nodes": [("ext", [], [[0, 0, []]]), ("ext", [], [[1, 0, []]], {"nodep": True}), ("func", [0, 1], [[0, 3, [1, 2]]], {"fifo": 2}), ("ext", [0, 1], [])],
    },
    "nodep_func_call": {
        "w": [8, 5, 3],
        "nodes": [
            ("ext", [], [[0, 0, []]]),
            ("func", [], [[1, 9, []]], {"nodep": True}),
            ("call", [], [[2, 5, []]], {"nodep": True, "fifo": 3}),
            ("call", [0, 1, 2], [[0, 1, [1, 2, 3]]]),
            ("ext", [0, 1], []),
        ],
        "allow_unused": True,
    },
    "validated_call": {
        "w": [8],
        "nodes": [("ext", [], [[0, 0, []]]), ("func", [0], [[0, 1, [1]]]), ("call", [0], [[0, 100, [1]]], {"vpred": [0, 255]}), ("ext", [0], [])],
    },
    "validated_pair": {
        "w": [8, 8],
        "allow_empty": True,
        "nodes": [
            ("ext", [], [[0, 0, []], [1, 0, []]]),
            ("ext", [0, 1], [], {"vpred": [1, 0x1D], "fifo": 2}),
            ("ext", [], [[0, 1, [1, 2]]], {"nodep": True, "pair": True}),
            ("ext", [0], []),
        ],
    },
    "widen_inferred": {  # a stage redefines a live field with a wider shape; later consumers infer their input layout
        "w": [8, 16],
        "nodes": [
            ("ext", [], [[0, 0, []]]),
            ("func", [0], [[0, 0, [300], 16]], {"infer": True}),
            ("func", [0], [[1, 1, [1]]], {"infer": True}),
            ("ext", [1], []),
        ],
    },
    "narrow_then_widen": {
        "w": [8, 8],
        "nodes": [
            ("ext", [], [[0, 0, []], [1, 0, []]]),
            ("call", [0, 1], [[0, 3, [1, 1], 4]]),
            ("func", [0, 1], [[1, 5, [77, 3], 12]], {"infer": True, "fifo": 2}),
            ("func", [0, 1], [[0, 0, [1, 1], 13]], {"infer": True}),
            ("func", [0], [[1, 9, [5]]], {"infer": True}),
            ("ext", [0, 1], []),
        ],
    },
    "detour_two_buffers": {  # seeded/C28-6 demo shape: data takes a detour through two external FIFOs, tag is carried along
        "w": [8, 8],
        "bufs": [{"depth": 4, "field": 0, "w": 8}, {"depth": 4, "field": 0, "w": 8}],
        "nodes": [
            ("ext", [], [[0, 0, []], [1, 0, []]]),
            ("bufw", [0], [], {"buf": 0}),
            ("bufr", [], [[0, 0, []]], {"buf": 0}),
            ("bufw", [0], [], {"buf": 1}),
            ("bufr", [], [[0, 0, []]], {"buf": 1}),
            ("ext", [0, 1], []),
        ],
    },
    "detour_three_buffers": {
        "w": [8, 5],
        "allow_empty": True,
        "bufs": [{"depth": 2, "field": 0, "w": 8}, {"depth": 3, "field": 1, "w": 5}, {"depth": 1, "field": 0, "w": 8}],
        "nodes": [
            ("ext", [], [[0, 0, []], [1, 0, []]]),
            ("bufw", [0], [], {"buf": 0}),
            ("bufw", [1], [], {"buf": 1, "fifo": 2}),
            ("bufr", [], [[0, 0, []]], {"buf": 0}),
            ("func", [0], [[0, 1, [1]]]),
            ("bufw", [0], [], {"buf": 2}),
            ("bufr", [], [[1, 0, []]], {"buf": 1}),
            ("bufr", [], [[0, 0, []]], {"buf": 2, "fifo": 3}),
            ("ext", [0, 1], []),
        ],
    },
    "fifo1": {"w": [3], "nodes": [("ext", [], [[0, 0, []]]), ("func", [0], [[0, 1, [1]]], {"fifo": 1}), ("ext", [0], [], {"fifo": 1})]},
    "const_source": {"w": [8, 8], "nodes": [("func", [], [[0, 7, []]]), ("ext", [0], [[1, 0, []]]), ("ext", [0, 1], [], {"fifo": 2})]},
}


def directed_shape(name: str) -> dict:
    d = DIRECTED[name]
    nodes = []
    for nd in d["nodes"]:
        extra = nd[3] if len(nd) > 3 else {}
        nodes.append(
            {"kind": nd[0], "nodep": bool(extra.get("nodep")), "fifo": extra.get("fifo", 0), "req": list(nd[1]), "gen": [list(g) for g in nd[2]], "pair": bool(extra.get("pair")),
             "vpred": extra.get("vpred"), "infer": bool(extra.get("infer")), **({"buf": extra["buf"]} if "buf" in extra else {})}
        )
    return {"w": d["w"], "bufs": d.get("bufs", []), "allow_unused": bool(d.get("allow_unused")), "allow_empty": bool(d.get("allow_empty")), "nodes": nodes}


def random_shape(rng, n: int) -> dict:
    nf = rng.randint(1, 4)
    W = [rng.choice([1, 3, 5, 8, 8]) for _ in range(nf)]
    fields = list(range(nf))
    known: list[int] = []
    nodes = []

    def gens(kind, req, fs):
        return [[f, rng.randrange(1 << W[f]), ([] if kind == "ext" else [rng.randrange(4) for _ in req])] for f in fs]

    for i in range(n):
        last = i == n - 1
        kind = rng.choice(["ext", "func", "call"]) if 0 < i < n - 1 else rng.choice(["ext", "ext", "ext", "func", "call"])
        nodep = not last and rng.random() < (0.25 if i > 0 else 0.12)
        fifo = rng.choice([0, 0, 0, 1, 2, 3, 5]) if i > 0 else 0
        if i == 0:
            req = []
            gf = sorted(rng.sample(fields, rng.randint(1, nf)))
        else:
            req = [] if nodep or not known else sorted(rng.sample(known, rng.randint(0 if not last else 1, len(known))))
            gf = [] if (last and rng.random() < 0.85) else sorted(rng.sample(fields, rng.randint(0, min(2, nf))))
        nodes.append({"kind": kind, "nodep": nodep, "fifo": fifo, "req": req, "gen": gens(kind, req, gf), "pair": False, "vpred": None})
        for f in gf:
            if f not in known:
                known.append(f)
    shape = {"w": W, "allow_unused": rng.random() < 0.3, "allow_empty": rng.random() < 0.3, "nodes": nodes}
    # the documented no_dependency use: an external node and the next (no_dependency) external node called from one transaction
    for i in range(2, n - 1):
        a, b = nodes[i - 1], nodes[i]
        if a["kind"] == "ext" and b["kind"] == "ext" and not a["nodep"] and not a["pair"] and rng.random() < 0.6:
            a["gen"] = []
            b["nodep"], b["req"], b["pair"] = True, [], True
            b["gen"] = [[g[0], g[1], [rng.randrange(4) for _ in a["req"]]] for g in b["gen"]]
    # required fields must have been generated by an earlier node (the coupling above may have removed a generator)
    seen: set[int] = set()
    for i, nd in enumerate(nodes):
        keep = [k for k in nd["req"] if k in seen]
        if keep != nd["req"]:
            nd["req"] = keep
            if nd["kind"] != "ext":
                nd["gen"] = [[g[0], g[1], [rng.randrange(4) for _ in keep]] for g in nd["gen"]]
            if i + 1 < n and nodes[i + 1]["pair"]:
                nodes[i + 1]["gen"] = [[g[0], g[1], [rng.randrange(4) for _ in keep]] for g in nodes[i + 1]["gen"]]
        seen |= {g[0] for g in nd["gen"]}
    # make the builder accept it: drop generated fields nobody uses (unless allow_unused), allow empty points if there are any
    for _ in range(3):
        live = live_after(shape)
        if not shape["allow_unused"]:
            for nd, lv in zip(nodes, live):
                nd["gen"] = [g for g in nd["gen"] if g[0] in lv]
        live = live_after(shape)
        if not all(live[:-1]):
            shape["allow_empty"] = True
    # a stage may redefine a field that already exists with another width; function stages may infer their input layout
    seen = set()
    for nd in nodes:
        for g in nd["gen"]:
            if g[0] in seen and rng.random() < 0.4:
                g.append(rng.choice([x for x in (2, 4, 6, 10, 12, 16) if x != W[g[0]]]))
                g[1] = rng.randrange(1 << g[3])
        seen |= {g[0] for g in nd["gen"]}
        nd["infer"] = nd["kind"] == "func" and rng.random() < 0.6
    win = widths_in(shape)
    # argument-validated methods: a called method, or the method an external stage's fields are fed to by the coupling transaction
    for i, nd in enumerate(nodes):
        W = win[i]
        cand = [k for k in nd["req"] if W[k] >= 3]
        target = (nd["kind"] == "call" and not nd["nodep"]) or (nd["kind"] == "ext" and i + 1 < n and nodes[i + 1]["pair"])
        if target and cand and rng.random() < 0.45:
            f = rng.choice(cand)
            full = (1 << W[f]) - 1
            mask = full if rng.random() < 0.5 else (full & (rng.getrandbits(W[f]) | 0b111))  # most values pass
            nd["vpred"] = [f, mask]
    shape["bufs"] = []
    if rng.random() < 0.3:
        insert_bufs(rng, shape, rng.choice([2, 2, 3]))
    return shape


def insert_bufs(rng, shape: dict, count: int) -> None:
    """detours of a field through external buffering modules (BasicFifo) whose `clear`s are registered as external clears"""
    nodes = shape["nodes"]
    for _ in range(count):
        win = widths_in(shape)
        pos = [p for p in range(1, len(nodes)) if not nodes[p].get("pair") and win[p]]
        if not pos:
            return
        p = rng.choice(pos)
        f = rng.choice(sorted(win[p]))
        w = win[p][f]
        b = len(shape["bufs"])
        shape["bufs"].append({"depth": rng.choice([1, 2, 4]), "field": f, "w": w})
        base = {"nodep": False, "pair": False, "vpred": None, "infer": False, "buf": b}
        wr = {"kind": "bufw", "fifo": rng.choice([0, 0, 2]), "req": [f], "gen": [], **base}
        rd = {"kind": "bufr", "fifo": rng.choice([0, 0, 3]), "req": [], "gen": [[f, 0, [], w]], **base}
        between = nodes[p]["kind"] != "ext" and p + 1 < len(nodes) and rng.random() < 0.4
        nodes.insert(p, wr)
        nodes.insert(p + 2 if between else p + 1, rd)
    shape["allow_unused"] = True
    shape["allow_empty"] = True


DRAIN = 14

PROFILES = {
    "free": dict(src=1.0, snk=1.0, mid=1.0, rdy=1.0, clear=0.0),
    "slow_sink": dict(src=1.0, snk=0.25, mid=0.9, rdy=1.0, clear=0.0),
    "slow_source": dict(src=0.3, snk=1.0, mid=0.9, rdy=1.0, clear=0.0),
    "stalls": dict(src=0.8, snk=0.7, mid=0.7, rdy=0.7, clear=0.0),
    "heavy_stalls": dict(src=0.9, snk=0.5, mid=0.5, rdy=0.4, clear=0.0),
    "clears": dict(src=0.9, snk=0.6, mid=0.8, rdy=0.85, clear=0.06),
    "bursty": dict(src=0.9, snk=0.9, mid=0.9, rdy=0.9, clear=0.01, burst=True),
}


def random_stims(rng, shape: dict, length: int, prof: dict, drain: int = 0) -> list[dict]:
    nodes = shape["nodes"]
    n = len(nodes)
    adapters = [
        i for i, nd in enumerate(nodes) if nd["kind"] == "ext" and not nd.get("pair") and not (i + 1 < n and nodes[i + 1].get("pair"))
    ]
    stims = []
    for t in range(length):
        blocked = prof.get("burst") and (t // 12) % 2 == 1
        args = {}
        for i in adapters:
            p = prof["src"] if i == 0 else prof["snk"] if i == n - 1 else prof["mid"]
            if i == n - 1 and blocked:
                p = 0.0
            args[i] = {g[0]: rng.randrange(1 << gen_width(shape, g)) for g in nodes[i]["gen"]} if rng.random() < p else None
        stims.append(
            {
                "clear": rng.random() < prof["clear"],
                "args": args,
                "rdy": {i: int(rng.random() < prof["rdy"]) for i in range(n)},
                "crdy": {i: int(rng.random() < prof["rdy"]) for i, nd in enumerate(nodes) if nd["kind"] == "call"},
                "prdy": {i: int(rng.random() < prof["mid"]) for i, nd in enumerate(nodes) if nd.get("pair")},
            }
        )
    for _ in range(drain):  # drain period: the source stops, everything else is ready, no clear
        stims.append(
            {
                "clear": False,
                "args": {i: (None if i == 0 else {g[0]: rng.randrange(1 << gen_width(shape, g)) for g in nodes[i]["gen"]}) for i in adapters},
                "rdy": {i: 1 for i in range(n)},
                "crdy": {i: 1 for i, nd in enumerate(nodes) if nd["kind"] == "call"},
                "prdy": {i: 1 for i, nd in enumerate(nodes) if nd.get("pair")},
            }
        )
    return stims


def _cases_for_shape(args) -> list[tuple]:
    """worker: build one shape, run its histories; returns picklable case tuples (or the rejection)"""
    shape, seeds, length, tag = args
    import random

    try:
        built(shape)
    except InfraError:
        raise
    except Exception as e:  # noqa: BLE001 - the builder rejected the shape (ValueError/TypeError/...)
        if tag == "directed":  # known-good shapes (the repository's own test pipelines): the exception is an observation
            c = Case(cfg_line(shape), ["live"], {"component": "PipelineBuilder", "shape": shape, "n": len(shape["nodes"]), "kinds": "rejected"}, tag)
            return [("case", c.cfg, c.ops, c.desc, c.tag, ["ok", f"raise {type(e).__name__}"])]
        return [("rejected", f"{type(e).__name__}: {str(e)[:80]}")]
    res = []
    for seed, pname in seeds:
        rng = random.Random(seed)
        c = make_case(shape, random_stims(rng, shape, length, PROFILES[pname], drain=DRAIN), tag)
        c.desc["profile"] = pname
        res.append(("case", c.cfg, c.ops, c.desc, c.tag, _results[c.key()]))
    return res


def gen_cases(ctx: Check) -> list[Case]:
    rng = ctx.rng("gen")
    length = ctx.pick(48, 110)
    profs = list(PROFILES)
    jobs = []
    for name in DIRECTED:
        shape = directed_shape(name)
        jobs.append((shape, [(rng.getrandbits(32), p) for p in ctx.pick(["stalls", "clears", "slow_sink"], profs)], length, "directed"))
    n_random = ctx.pick(22, 150)
    for k in range(n_random):
        shape = random_shape(rng, rng.choice([2, 3, 3, 4, 4, 5, 6, 7]))
        ps = [profs[(k + j) % len(profs)] for j in range(ctx.pick(3, 4))]
        jobs.append((shape, [(rng.getrandbits(32), p) for p in ps], length, "random"))
    procs = 1 if ctx.quick else min(12, __import__("os").cpu_count() or 1)
    if procs > 1:
        import multiprocessing as mp

        with mp.get_context("fork").Pool(procs) as pool:
            results = pool.map(_cases_for_shape, jobs, chunksize=4)
    else:
        results = [_cases_for_shape(j) for j in jobs]
    cases = []
    for job, res in zip(jobs, results):
        for r in res:
            if r[0] == "rejected":
                ctx.count("shapes_rejected_by_builder")
                continue
            _, cfg, ops, desc, tag, outl = r
            c = Case(cfg, ops, desc, tag, payload=desc["shape"])
            _results[c.key()] = outl
            cases.append(c)
        if res and res[0][0] == "case":
            ctx.count("shapes")
    return cases


def more_cases(case: Case, rng):
    shape = case.payload if case.payload is not None else case.desc["shape"]
    profs = list(PROFILES)
    try:
        built(shape)
    except InfraError:
        raise
    except Exception:  # noqa: BLE001 - the builder rejects this shape: nothing to run
        return
    for j in range(24):
        yield make_case(shape, random_stims(rng, shape, 50, PROFILES[profs[j % len(profs)]], drain=DRAIN), "search")


def nontrivial(case: Case, out: list[str]) -> bool:
    n = case.desc["n"]
    last = 0
    multi = False
    for o in out[1:]:
        if not o.startswith("c="):
            continue
        _, cyc = parse_out(o)
        if len(cyc) != n:
            return False
        fired = [x["fired"] for x in cyc]
        last += fired[-1]
        multi = multi or sum(fired) >= 2
    return last >= 2 and multi


def shape_mismatch_witness(ctx: Check):
    """Directed witness (seed C28-7): a field produced at 16 bits, tapped by an external node at a narrower width and then
    delivered at 16 bits. The builder either rejects the shape (ValueError) or must deliver every item intact."""
    from amaranth import Elaboratable, unsigned
    from transactron import Method, TModule
    from transactron.lib.pipeline import PipelineBuilder
    from transactron.testing import SimpleTestCircuit
    from transactron.testing.simulator import PysimSimulator
    from transactron.utils.dependencies import DependencyContext, DependencyManager

    for narrow in (8, 3, 15):
        class Dut(Elaboratable):
            def __init__(self):
                self.write = Method(i=[("x", unsigned(16))])
                self.tap = Method(o=[("x", unsigned(narrow))])
                self.read = Method(o=[("x", unsigned(16))])

            def elaborate(self, platform):
                m = TModule()
                m.submodules.pipeline = pb = PipelineBuilder()
                pb.add_external(self.write)
                pb.add_external(self.tap)
                pb.add_external(self.read)
                return m

        values = [0x0012, 0x1234, 0xBEEF, 0xFF00, 0x8001]
        got: list[int] = []
        with DependencyContext(DependencyManager()):
            circ = SimpleTestCircuit(Dut())
            try:
                sim = PysimSimulator(circ, max_cycles=400)
            except ValueError:
                ctx.count("shape_mismatch_rejected", 1)
                continue

            async def writer(sim):
                for v in values:
                    await circ.write.call(sim, x=v)

            async def tapper(sim):
                for _ in values:
                    await circ.tap.call(sim)

            async def reader(sim):
                for _ in values:
                    got.append(int((await circ.read.call(sim)).x))

            sim.add_testbench(writer)
            sim.add_testbench(tapper)
            sim.add_testbench(reader)
            try:
                sim.run()
            except Exception as e:  # noqa: BLE001
                got.append(-1)
                ctx.note(f"shape-mismatch witness: simulation raised {type(e).__name__}")
        ctx.count("shape_mismatch_accepted", 1)
        if got != values:
            ctx.violation(
                f"pipeline write(x:16) -> external tap(x:{narrow}) -> read(x:16) is accepted by the builder but items leave "
                f"with corrupted fields: delivered {[hex(g) for g in got]}, written {[hex(v) for v in values]}",
                {"kind": "shape_mismatch_witness", "narrow": narrow, "values": values, "delivered": got},
            )



def run(ctx: Check):
    ctx.rule = (
        "cases = (pipeline shape accepted by the builder, history of call attempts / stage readiness / clears); the real "
        "pipeline chooses the schedule; non-trivial = at least two items left the pipeline and some cycle had two or more "
        "stage combiners running at once"
    )
    ctx.proof_stage()
    cases = gen_cases(ctx)
    kinds = {}
    for c in cases:
        for nd in c.desc["shape"]["nodes"]:
            key = nd["kind"] + ("_nodep" if nd["nodep"] else "") + ("_pair" if nd.get("pair") else "")
            kinds[key] = kinds.get(key, 0) + 1
            if nd.get("vpred"):
                kinds["validated"] = kinds.get("validated", 0) + 1
            if nd.get("infer"):
                kinds["inferred_input"] = kinds.get("inferred_input", 0) + 1
            if any(len(g) > 3 for g in nd["gen"]) and nd["kind"] != "bufr":
                kinds["redefines_width"] = kinds.get("redefines_width", 0) + 1
            if nd["fifo"]:
                kinds[f"fifo_depth_{nd['fifo']}"] = kinds.get(f"fifo_depth_{nd['fifo']}", 0) + 1
    for k, v in sorted(kinds.items()):
        ctx.count(f"nodes_{k}", v)
    ctx.count("cycles", sum(len(c.ops) - 1 for c in cases))
    ctx.count("clears_run", sum(1 for c in cases for o in _results[c.key()] if o.startswith("c=1")))
    ctx.note("trace inclusion: the op lines carry the schedule the real circuit chose; the Lean driver rejects a line whose "
             "label is not enabled in the specification automaton")
    shape_mismatch_witness(ctx)
    lockstep(ctx, "pipeline-trace-inclusion", "C28", cases, impl, monitor, more_cases, nontrivial, procs=1)


def replay(ctx: Check, body: dict):
    case = Case(body["cfg"], list(body["ops"]), body.get("desc", {}), "replay", payload=body["desc"]["shape"])
    return monitor(case, impl(case))
