"""C25 — PriorityEncoderAllocator never double-allocates
(transactron/lib/allocators.py:13-91, transactron/utils/amaranth_ext/elaboratables.py:250-387)."""

from __future__ import annotations

import itertools

from ..common import Check
from ..lockstep import Case, lockstep
from ..simrun import CompSim

META = {
    "id": "C25",
    "design_ref": "DESIGN.md §7 C25, §9 C38, Appendix F",
    "technique": "Lean 4 theorems over a hand-written step model of PriorityEncoderAllocator whose encoder is a "
    "transcription of MultiPriorityEncoder._build_tree (proved equal to 'first K set bits'); invariant/refinement "
    "to a set of free identifiers; lock-step correspondence of the model with the real component in pysim",
    "level_text": "c25_encoder/c25_no_double/c25_distinct/c25_ready/c25_peek/c25_replace_clear/c25_update/c25_history are proved "
    "for every (entries, alloc_ways, free_ways, init) and every call history that only frees allocated identifiers; "
    "the model (with the real encoder tree inside) is tied to the code by cycle-exact comparison of done bits, "
    "returned identifiers, peeked masks and alloc ready bits over entries 1..9,16,17 x alloc_ways 1..entries+1 x "
    "free_ways 0..3 x init masks (-1, 0, non-negative, negative two's-complement), random/directed histories, a malformed stream (double frees, out-of-range "
    "identifiers), thorough: every single step from every mask on small configurations",
    "level_note": "trusted: Lean kernel, axioms propext/Quot.sound/Classical.choice; Amaranth semantics and pysim; "
    "the harness glue. replace and clear conflict (clear calls replace) with no declared priority: the winner of "
    "simultaneous attempts is read off the elaborated design (cfg cf=), the monitor demands that exactly one executes. alloc_ways=0 raises IndexError in the encoder "
    "constructor path and is outside the configuration space.",
}

_sims: dict[tuple, CompSim] = {}


def _sim(n: int, aw: int, fw: int, init: int) -> CompSim:
    k = (n, aw, fw, init)
    if k not in _sims:
        from transactron.lib.allocators import PriorityEncoderAllocator

        _sims[k] = CompSim(lambda: PriorityEncoderAllocator(n, aw, fw, init=init))
    return _sims[k]


_cf: dict[tuple, int] = {}


def _clear_first(n: int, aw: int, fw: int, init: int) -> int:
    """Which of the conflicting transactions (adapter of replace / clear, whose body calls the exclusive
    replace) has priority in the elaborated design: read off the real circuit.  1 = clear.  If both
    execute the answer is arbitrary; the monitor reports that."""
    k = (n, aw, fw, init)
    if k not in _cf:
        tr = _sim(*k).run([{"replace": 0, "clear": 0}])
        _cf[k] = 1 if (tr[0][("clear",)] is not None and tr[0][("replace",)] is None) else 0
    return _cf[k]


def _kv(line: str) -> dict:
    return dict(x.split("=", 1) for x in line.split()[1:])


def _flist(v: str) -> list:
    return [] if v == "" else [None if x == "-" else int(x) for x in v.split(",")]


def impl(case: Case) -> list[str]:
    d = case.desc
    n, aw, fw, init = d["n"], d["aw"], d["fw"], d["init"]
    sim = _sim(n, aw, fw, init)
    ops = []
    for line in case.ops:
        o = _kv(line)
        op = {}
        for k, ch in enumerate(o["a"]):
            op[("alloc", k)] = 0 if ch == "1" else None
        for k, v in enumerate(_flist(o["f"])):
            op[("free", k)] = v
        op["peek"] = 0 if o["p"] == "1" else None
        op["replace"] = None if o["r"] == "-" else int(o["r"])
        op["clear"] = 0 if o["c"] == "1" else None
        ops.append(op)
    tr = sim.run(ops, extra=lambda dut: [m.ready for m in dut.alloc])
    out = ["ok"]
    for r in tr:
        a = ",".join("-" if r[("alloc", k)] is None else str(r[("alloc", k)]) for k in range(aw))
        f = "".join("0" if r[("free", k)] is None else "1" for k in range(fw))
        p = "-" if r[("peek",)] is None else str(r[("peek",)])
        out.append(
            f"a={a} f={f} p={p} r={0 if r[('replace',)] is None else 1} c={0 if r[('clear',)] is None else 1} "
            f"rdy={''.join(str(x) for x in r['_extra'])}"
        )
    return out


def monitor(case: Case, out: list[str]):
    """The property sentence on the implementation's observations (reference: the set of free identifiers).
    Returns None as soon as the history leaves the environment hypotheses: a free of an identifier that is
    not allocated (or twice in one cycle).  replace and clear attempted together: exactly one may execute."""
    d = case.desc
    n, aw, fw = d["n"], d["aw"], d["fw"]
    initm = d["init"] & ((1 << n) - 1)
    free = {k for k in range(n) if (initm >> k) & 1}
    for k, (op, o) in enumerate(zip(case.ops, out[1:])):
        i = _kv(op)
        f = _kv("x " + o)
        att = [ch == "1" for ch in i["a"]]
        fr = _flist(i["f"])
        both = i["r"] != "-" and i["c"] == "1"
        if both and f["r"] == "1" and f["c"] == "1":
            return f"cycle {k}: replace and clear both executed in one cycle (clear calls the exclusive method replace)"
        ids = [x for x in fr if x is not None]
        if any(x >= n or x in free for x in ids) or len(set(ids)) != len(ids):
            return None  # environment frees something that is not allocated
        mask = sum(1 << x for x in free)
        # peek reports the free mask
        if (f["p"] != "-") != (i["p"] == "1"):
            return f"cycle {k}: peek attempted={i['p']} executed={f['p'] != '-'}"
        if f["p"] != "-" and int(f["p"]) != mask:
            return f"cycle {k}: peek reports mask {int(f['p']):#b} but the free identifiers are {sorted(free)}"
        # i-th alloc way ready iff at least i+1 identifiers are free
        want_rdy = "".join("1" if len(free) >= w + 1 else "0" for w in range(aw))
        if f["rdy"] != want_rdy:
            return f"cycle {k}: alloc ready bits {f['rdy']} with {len(free)} free identifiers (expected {want_rdy})"
        got = [None if x == "-" else int(x) for x in f["a"].split(",")]
        for w in range(aw):
            if (got[w] is not None) != (att[w] and len(free) >= w + 1):
                return f"cycle {k}: alloc way {w} attempted={att[w]} executed={got[w] is not None} with {len(free)} free"
        ret = [x for x in got if x is not None]
        for x in ret:
            if x not in free:
                return f"cycle {k}: alloc returned identifier {x}, which is currently allocated (free: {sorted(free)})"
        if len(set(ret)) != len(ret):
            return f"cycle {k}: identifiers returned in one cycle are not distinct: {ret}"
        if f["f"] != "".join("1" if x is not None else "0" for x in fr):
            return f"cycle {k}: free ways attempted {fr} executed {f['f']}"
        if both:
            okrc = (f["r"] == "1") != (f["c"] == "1")  # exactly one of the two conflicting calls is granted
        else:
            okrc = (f["r"] == "1") == (i["r"] != "-") and (f["c"] == "1") == (i["c"] == "1")
        if not okrc:
            return f"cycle {k}: replace/clear attempted r={i['r']} c={i['c']}, executed r={f['r']} c={f['c']}"
        # replace / clear (whichever executed) set the mask, otherwise returned ids become allocated and freed ones free
        if f["r"] == "1":
            m = int(i["r"])
            free = {x for x in range(n) if (m >> x) & 1}
        elif f["c"] == "1":
            free = {x for x in range(n) if (initm >> x) & 1}
        else:
            free = (free - set(ret)) | set(ids)
    return None


# ------------------------------------------------------------------ generators
def _corpus() -> list[Case]:
    """directed cases and minimised past failures kept under corpus/C25 (run first, monitored)"""
    import json

    from ..common import CORPUS

    out = []
    for path in sorted((CORPUS / "C25").glob("*.json")):
        b = json.loads(path.read_text())
        out.append(Case(b["cfg"], list(b["ops"]), b.get("desc", {}), "corpus"))
    return out


def _mk(n, aw, fw, init, ops, tag) -> Case:
    """ops: (attempt bits list, free list, peek, replace or None, clear)"""
    cfg = f"cfg n={n} aw={aw} fw={fw} init={init & ((1 << n) - 1)} cf={_clear_first(n, aw, fw, init)}"
    lines = []
    for a, f, p, r, c in ops:
        fs = ",".join("-" if x is None else str(x) for x in f)
        lines.append(f"cyc a={''.join(str(int(x)) for x in a)} f={fs} p={int(p)} r={'-' if r is None else r} c={int(c)}")
    return Case(cfg, lines, {"component": "PriorityEncoderAllocator", "n": n, "aw": aw, "fw": fw, "init": init}, tag)


def _ref_step(n, initm, free: set, a, f, r, c, cf=0) -> set:
    """reference used by the generators only: lowest free identifiers first (to know what is allocated)"""
    order = sorted(free)
    ret = {order[w] for w in range(len(a)) if a[w] and w < len(order)}
    if r is not None and c:  # conflicting attempts: the design's priority decides
        if cf:
            r = None
        else:
            c = False
    if r is not None:
        return {x for x in range(n) if (r >> x) & 1}
    if c:
        return {x for x in range(n) if (initm >> x) & 1}
    return (free - ret) | {x for x in f if x is not None}


def _valid_stream(rng, n, aw, fw, init, length, pa, pf, pr, pc, pp=0.9):
    initm = init & ((1 << n) - 1)
    cf = _clear_first(n, aw, fw, init)
    free = {k for k in range(n) if (initm >> k) & 1}
    ops = []
    for _ in range(length):
        a = [rng.random() < pa for _ in range(aw)]
        used = sorted(set(range(n)) - free)
        rng.shuffle(used)
        f = []
        for _ in range(fw):
            f.append(used.pop() if used and rng.random() < pf else None)
        r = rng.randrange(1 << n) if rng.random() < pr else None
        c = rng.random() < (pc if r is None else 0.3)  # with a replace: 30% also clear (conflict, one is granted)
        ops.append((a, f, rng.random() < pp, r, c))
        free = _ref_step(n, initm, free, a, f, r, c, cf)
    return ops


def _directed(n, aw, fw, init):
    """allocate on all ways until exhausted (and two more cycles), free everything back way by way while
    allocating, replace with alternating masks together with alloc and free, clear together with alloc/free"""
    initm = init & ((1 << n) - 1)
    free = {k for k in range(n) if (initm >> k) & 1}
    ops = []

    def push(a, f, r=None, c=False):
        nonlocal free
        ops.append((a, f, True, r, c))
        free = _ref_step(n, initm, free, a, f, r, c, _clear_first(n, aw, fw, init))

    none_f = [None] * fw
    for _ in range(n // max(aw, 1) + 3):
        push([True] * aw, none_f)
    for _ in range(n + 2):
        used = sorted(set(range(n)) - free, reverse=True)
        f = [used[j] if j < len(used) else None for j in range(fw)]
        push([True] + [False] * (aw - 1), f)
    alt = sum(1 << k for k in range(0, n, 2))
    push([True] * aw, none_f, r=alt)
    used = sorted(set(range(n)) - free)
    push([True] * aw, [used[j] if j < len(used) else None for j in range(fw)], r=((1 << n) - 1) ^ alt)
    push([False, True][: aw] + [True] * max(0, aw - 2), none_f)
    used = sorted(set(range(n)) - free)
    push([True] * aw, [used[j] if j < len(used) else None for j in range(fw)], c=True)
    push([True] * aw, none_f, r=0)
    push([True] * aw, none_f)
    used = sorted(set(range(n)) - free)
    push([True] * aw, [used[j] if j < len(used) else None for j in range(fw)])
    push([True] * aw, none_f, r=alt, c=True)  # replace and clear together: exactly one is granted
    push([True] * aw, none_f)
    used = sorted(set(range(n)) - free)
    push([False] * aw, [used[j] if j < len(used) else None for j in range(fw)], r=0, c=True)
    push([True] * aw, none_f)
    push([False] * aw, none_f, c=True)
    push([False] * aw, none_f)
    return ops


def _configs(ctx: Check, rng):
    """quick: ~50 configurations (elaborating the encoder tree costs 0.2-2 s each); thorough: a few hundred"""
    out = []
    if ctx.quick:
        for n in [1, 2, 3, 4, 5, 6, 7, 8, 9, 16, 17]:
            full = (1 << n) - 1
            cfgs = [(1, 1, -1), (2, 2, rng.randrange(full + 1)), (rng.randint(1, min(n, 6) + 1), rng.randint(0, 3), rng.randrange(full + 1))]
            if n <= 5:
                cfgs.append((n + 1, 0, -1))
                cfgs.append((n, 2, rng.randrange(full + 1)))
            elif n <= 8:
                cfgs.append((n + 1, 0, -1) if n % 2 else (n, 2, rng.randrange(full + 1)))
            else:
                cfgs.append((3, 1, -1))
            if n in (3, 8):
                cfgs.append((2, 1, 0))
            if n == 16:
                cfgs = [(2, 2, rng.randrange(full + 1)), (16, 1, -1)]
            if n == 17:
                cfgs = [(1, 1, -1), (3, 2, rng.randrange(full + 1)), (6, 0, -1)]
            # negative masks other than -1 (two's complement: "everything except ..."), e.g. ~0b101, -1 << k
            neg = ~rng.randrange(full + 1) if n % 2 else (-1 << rng.randint(1, n))
            cfgs.append((rng.randint(1, min(n, 3)), 1, neg))
            for aw, fw, init in cfgs:
                if (n, aw, fw, init) not in out:
                    out.append((n, aw, fw, init))
        return out
    for n in list(range(1, 13)) + [16, 17, 24, 32, 33]:
        full = (1 << n) - 1
        ways = {(1, 1), (2, 2), (3, 1), (rng.randint(1, min(n, 8) + 1), rng.randint(0, 3)), (2, 1), (1, 2), (4, 3), (5, 2)}
        if n <= 12:
            ways |= {(n + 1, 0), (n, 2), (n, n), (max(1, n - 1), 3)}
        for aw, fw in sorted(ways):
            neg = ~rng.randrange(full + 1) if (aw + fw) % 2 else -1 << rng.randint(1, n)
            for init in (-1, rng.randrange(full + 1), neg) + ((0,) if (aw, fw) == (2, 2) else ()):
                out.append((n, aw, fw, init))
    return out


def gen_cases(ctx: Check):
    rng = ctx.rng("gen")
    valid, malformed = [], []
    length = ctx.pick(80, 150)
    for n, aw, fw, init in _configs(ctx, rng):
        valid.append(_mk(n, aw, fw, init, _directed(n, aw, fw, init), "directed"))
        regimes = [(0.9, 0.3, 0.01, 0.01), (0.3, 0.9, 0.02, 0.01), (0.7, 0.7, 0.03, 0.03), (1.0, 1.0, 0.0, 0.0)]
        for pa, pf, pr, pc in rng.sample(regimes, ctx.pick(2, 3)):
            valid.append(_mk(n, aw, fw, init, _valid_stream(rng, n, aw, fw, init, length, pa, pf, pr, pc), "random"))
        # malformed: arbitrary identifiers on the free ways (double frees, frees of free identifiers,
        # identifiers >= entries that still fit the argument signal); no property claim
        w = (n - 1).bit_length()
        ops = []
        for _ in range(length // 2):
            r = rng.randrange(1 << n) if rng.random() < 0.05 else None
            ops.append(
                (
                    [rng.random() < 0.6 for _ in range(aw)],
                    [rng.randrange(1 << w) if rng.random() < 0.6 else None for _ in range(fw)],
                    True,
                    r,
                    rng.random() < (0.03 if r is None else 0.3),
                )
            )
        malformed.append(_mk(n, aw, fw, init, ops, "malformed"))
    return valid, malformed


def exhaustive_cases(ctx: Check):
    """thorough: every single step (all attempt patterns, all free arguments that fit the signal, replace,
    clear) from every mask, entered through replace(mask) and observed through peek"""
    cases = []
    for n, aw, fw in [(1, 1, 1), (2, 2, 1), (2, 3, 2), (3, 2, 2), (3, 3, 1), (4, 2, 1), (5, 3, 1)]:
        w = (n - 1).bit_length()
        fvals = [None, *range(1 << w)]
        rvals = [None, *range(1 << n)] if n <= 3 else [None, 0, (1 << n) - 1, 0b0101 & ((1 << n) - 1)]
        for m in range(1 << n):
            for a in itertools.product([False, True], repeat=aw):
                for f in itertools.product(fvals, repeat=fw):
                    for r in rvals:
                        for c in (False, True):
                            ops = [([False] * aw, [None] * fw, True, m, False), (list(a), list(f), True, r, c), ([False] * aw, [None] * fw, True, None, False)]
                            cases.append(_mk(n, aw, fw, -1, ops, "exhaustive-step"))
    return cases


def more_cases(case: Case, rng):
    d = case.desc
    n, aw, fw, init = d["n"], d["aw"], d["fw"], d["init"]
    yield _mk(n, aw, fw, init, _directed(n, aw, fw, init), "search")
    for _ in range(40):
        yield _mk(n, aw, fw, init, _valid_stream(rng, n, aw, fw, init, 150, rng.choice([0.3, 0.7, 1.0]), rng.choice([0.3, 0.7, 1.0]), 0.03, 0.02), "search")


def nontrivial(case: Case, out: list[str]) -> bool:
    """at least two identifiers are handed out in one cycle or the allocator runs dry while a way is
    attempted, and a free/replace/clear coincides with an executed alloc"""
    fs = [_kv("x " + o) for o in out[1:]]
    multi = any(sum(x != "-" for x in f["a"].split(",")) >= 2 for f in fs)
    dry = any("1" in _kv(op)["a"] and f["rdy"][0] == "0" for op, f in zip(case.ops, fs))
    mix = any(any(x != "-" for x in f["a"].split(",")) and ("1" in f["f"] or f["r"] == "1" or f["c"] == "1") for f in fs)
    return (multi or dry) and mix


def run(ctx: Check):
    ctx.rule = (
        "cases = (entries, alloc_ways, free_ways, init, history of attempted alloc ways/free(ident)/peek/"
        "replace(mask)/clear); non-trivial = two or more identifiers handed out in one cycle or the allocator "
        "runs dry under an attempted alloc, and some free/replace/clear executes together with an alloc"
    )
    ctx.proof_stage()
    procs = ctx.pick(1, 4)  # tiny cases: a large fork pool costs more than it saves
    valid, malformed = gen_cases(ctx)
    valid = _corpus() + valid
    lockstep(ctx, "pe-allocator", "C25", valid, impl, monitor, more_cases, nontrivial, procs=procs)
    lockstep(ctx, "pe-allocator-malformed", "C25", malformed, impl, None, None, nontrivial, procs=procs)
    lockstep(ctx, "pe-allocator-two-callers", "C25", gen_cases2(ctx), impl2, monitor2, more_cases2,
             lambda c, o: any(x != "-" for l in o[1:] for x in _kv("x " + l)["a"].split(",")), procs=1)
    ctx.count("configurations", len({(c.desc["n"], c.desc["aw"], c.desc["fw"], c.desc["init"]) for c in valid}))
    if ctx.thorough:
        cases = exhaustive_cases(ctx)
        lockstep(ctx, "pe-allocator-single-step", "C25", cases, impl, monitor, more_cases, lambda c, o: True, procs=1)
        ctx.note("thorough: all single steps from all masks for 7 small configurations (entered via replace, observed via peek)")
    ctx.note("replace+clear in the same cycle: both transactions call the exclusive method replace, no priority is "
             "declared; the winner is read off the elaborated design (cfg cf=) and the monitor demands exactly one. "
             "init masks include negative ones other than -1 (two's complement, init & (2^entries-1))")


# ------------------------------------------------------------------ two callers per method
_sims2: dict[tuple, tuple] = {}


def _sim2(n, aw, fw, init):
    """real allocator with every alloc way and every free way called by two independent transactions; plus the
    static priority among the two callers of each way, read off the real scheduler"""
    k = (n, aw, fw, init)
    if k not in _sims2:
        from transactron.lib.allocators import PriorityEncoderAllocator

        from ..alloc2 import make_two

        def mk():
            d = PriorityEncoderAllocator(n, aw, fw, init=init)
            twice = {f"alloc_w{i}": d.alloc[i] for i in range(aw)} | {f"free_w{j}": d.free[j] for j in range(fw)}
            return make_two(d, twice, {"peek": d.peek, "replace": d.replace, "clear": d.clear})

        sim = CompSim(mk)
        tr = sim.run([
            {"replace": (1 << n) - 1},
            {(f"alloc_w{i}", c): 0 for i in range(aw) for c in (0, 1)},
            {(f"free_w{j}", c): 0 for j in range(fw) for c in (0, 1)},
        ])
        first = lambda r, name: 1 if (r[(name, 0)] is None and r[(name, 1)] is not None) else 0  # noqa: E731
        pa = [first(tr[1], f"alloc_w{i}") for i in range(aw)]
        pf = [first(tr[2], f"free_w{j}") for j in range(fw)]
        _sims2[k] = (sim, [[v, 1 - v] for v in pa], [[v, 1 - v] for v in pf])
    return _sims2[k]


def impl2(case: Case) -> list[str]:
    """two-caller run projected onto the single-caller observation format; `dbl=<ways>` is appended when both
    callers of an exclusive way executed in one cycle"""
    from ..alloc2 import executed

    d = case.desc
    n, aw, fw, init = d["n"], d["aw"], d["fw"], d["init"]
    sim = _sim2(n, aw, fw, init)[0]
    ops = []
    for line in case.ops:
        o = _kv(line)
        a2 = o["a2"].split("|")
        f2 = [_flist(x) for x in o["f2"].split("|")]
        op = {"peek": 0 if o["p"] == "1" else None, "replace": None if o["r"] == "-" else int(o["r"]),
              "clear": 0 if o["c"] == "1" else None}
        for c in (0, 1):
            for i in range(aw):
                op[(f"alloc_w{i}", c)] = 0 if a2[c][i] == "1" else None
            for j in range(fw):
                op[(f"free_w{j}", c)] = f2[c][j]
        ops.append(op)
    tr = sim.run(ops, extra=lambda w: [m.ready for m in w.inner.alloc])
    out = ["ok"]
    for r in tr:
        av = [executed(r, f"alloc_w{i}") for i in range(aw)]
        fv = [executed(r, f"free_w{j}") for j in range(fw)]
        dbl = ",".join([f"alloc[{i}]" for i in range(aw) if av[i][1]] + [f"free[{j}]" for j in range(fw) if fv[j][1]])
        a = ",".join("-" if v is None else str(v) for v, _ in av)
        f = "".join("0" if v is None else "1" for v, _ in fv)
        p = "-" if r[("peek",)] is None else str(r[("peek",)])
        out.append(
            f"a={a} f={f} p={p} r={0 if r[('replace',)] is None else 1} c={0 if r[('clear',)] is None else 1} "
            f"rdy={''.join(str(x) for x in r['_extra'])}" + (f" dbl={dbl}" if dbl else "")
        )
    return out


def monitor2(case: Case, out: list[str]):
    """at most one caller of an exclusive way executes per cycle; the property holds on the executed calls"""
    for k, o in enumerate(out[1:]):
        if " dbl=" in o:
            return (f"cycle {k}: both callers of the exclusive method(s) {o.split('dbl=')[1]} executed in one cycle "
                    f"(attempts {case.ops[k]}; an alloc way would hand the same identifier to two callers)")
    return monitor(case, out)


def _stream2(rng, n, aw, fw, init, length) -> Case:
    """two callers per alloc way and per free way attempting independently; every freed identifier is allocated
    and the identifiers served in one cycle are distinct"""
    from ..alloc2 import first_of

    _, oa, of = _sim2(n, aw, fw, init)
    initm = init & ((1 << n) - 1)
    cf = _clear_first(n, aw, fw, init)
    free = {k for k in range(n) if (initm >> k) & 1}
    lines = []
    for _ in range(length):
        a2 = [[rng.random() < 0.6 for _ in range(aw)] for _ in range(2)]
        used = sorted(set(range(n)) - free)
        rng.shuffle(used)
        f2 = [[None] * fw, [None] * fw]
        for j in range(fw):
            if used and rng.random() < 0.6:
                x = used.pop()  # both callers of this way ask for the same or (if available) another allocated identifier
                y = used.pop() if used and rng.random() < 0.5 else x
                f2[0][j], f2[1][j] = (x if rng.random() < 0.8 else None), (y if rng.random() < 0.8 else None)
        r = rng.randrange(1 << n) if rng.random() < 0.03 else None
        c = rng.random() < 0.02
        a = [a2[0][i] or a2[1][i] for i in range(aw)]
        f = [first_of(of[j], [f2[0][j], f2[1][j]]) for j in range(fw)]
        fs = lambda l: ",".join("-" if x is None else str(x) for x in l)  # noqa: E731
        bits = lambda l: "".join(str(int(x)) for x in l)  # noqa: E731
        lines.append(f"cyc a={bits(a)} f={fs(f)} p=1 r={'-' if r is None else r} c={int(c)} "
                     f"a2={bits(a2[0])}|{bits(a2[1])} f2={fs(f2[0])}|{fs(f2[1])}")
        free = _ref_step(n, initm, free, a, f, r, c, cf)
    cfg = f"cfg n={n} aw={aw} fw={fw} init={initm} cf={cf}"
    return Case(cfg, lines, {"component": "PriorityEncoderAllocator", "n": n, "aw": aw, "fw": fw, "init": init, "callers": 2}, "random")


def gen_cases2(ctx: Check) -> list[Case]:
    rng = ctx.rng("two-callers")
    cfgs = ctx.pick([(1, 1, 1, -1), (3, 2, 2, -1), (5, 3, 1, 0b10110), (8, 2, 2, -1)],
                    [(n, aw, fw, i) for n in (1, 2, 3, 4, 5, 8, 9) for aw, fw in ((1, 1), (2, 2), (3, 1)) for i in (-1, ~1)])
    out = []
    for n, aw, fw, init in cfgs:
        for _ in range(ctx.pick(2, 4)):
            out.append(_stream2(rng, n, aw, fw, init, ctx.pick(80, 300)))
    return out


def more_cases2(case: Case, rng):
    d = case.desc
    for _ in range(20):
        yield _stream2(rng, d["n"], d["aw"], d["fw"], d["init"], 100)


def replay(ctx: Check, body: dict):
    from ..lockstep import replay_case

    if body.get("desc", {}).get("callers") == 2:
        return replay_case(body, impl2, monitor2)
    return replay_case(body, impl, monitor)
