"""C37 — shifters and rotators are correct (transactron/utils/amaranth_ext/shifter.py:25-433)."""

from __future__ import annotations

import itertools

from ..common import Check
from ..lockstep import Case, lockstep, replay_case
from ..combeval import CombDesign, evaluate, kv, ints, show_list, corner_values

META = {
    "id": "C37",
    "design_ref": "DESIGN.md §9 C37",
    "technique": "Lean 4 theorems for every width / vector length / offset about a hand-written model that mirrors "
    "the source (Cat(value, fill).bit_select(offset, width); left = reversed right; vector variants by bit planes); "
    "correspondence of the model with the real Amaranth expressions in pysim, exhaustively at small sizes and "
    "randomly up to 64 bits / 9 entries",
    "level_text": "20 theorems: generic_shift_right/left bit by bit for every offset; shift_right/shift_left with placeholder 0 for every offset; with any placeholder and "
    "rotate_right/rotate_left modulo the width under offset <= width (the *_partial theorems; the unrestricted "
    "statements are refuted by four *_counterexample theorems = finding F10: positions past 2*width read 0); the "
    "bit-plane construction of the *_vec_* functions equals the same generic shift on whole entries for every entry "
    "width, so shift_vec_*/rotate_vec_* inherit the statements",
    "level_note": "trusted: Lean kernel, axioms propext/Classical.choice/Quot.sound; Amaranth Cat/bit_select/slice "
    "semantics (out-of-range bits of a variable shift read 0) and pysim; the harness glue (number <-> bit list, "
    "flattening of structured entries with Value.cast). Structured entries are compared as their flattened bit "
    "pattern; layout handling itself is C40/C41.",
}

CHUNK = 2500
SCALAR = ["shr", "shl", "ror", "rol"]
VEC = ["vshr", "vshl", "vror", "vrol"]


# --------------------------------------------------------------------------- implementation side
_shape_cache: dict = {}


def _shape_class(style: str, ew: int):
    """entry shapes whose DEFAULT constant is not all-zero: a data.Struct subclass with non-zero field defaults
    (ew >= 2), an Enum whose first member is non-zero (0 is a later member).  The documented default placeholder
    of shift_vec_* is still the all-zero entry."""
    import types
    from amaranth import unsigned, signed
    from amaranth.lib import data, enum

    if (style, ew) not in _shape_cache:
        if style == "struct":
            a, b = ew // 2, ew - ew // 2
            cls = type("Entry", (data.Struct,), {"__annotations__": {"p": unsigned(a), "q": signed(b)}, "p": (1 << a) - 1, "q": -1 if b > 1 else -1})
        else:
            def body(ns):
                ns["A"] = (1 << ew) - 1
                ns["B"] = 0
                if ew > 1:
                    ns["C"] = 1

            cls = types.new_class("E", (enum.Enum,), {"shape": unsigned(ew)}, body)
        _shape_cache[(style, ew)] = cls
    return _shape_cache[(style, ew)]


def _entries(n: int, ew: int, style: str, prefix: str):
    """n entries of width ew: plain signals or views of a two-field struct; returns (objects, input signals)"""
    from amaranth import Signal, signed
    from amaranth.lib import data

    objs, sigs = [], []
    for j in range(n):
        if style in ("struct", "enum"):
            v = Signal(_shape_class(style, ew), name=f"{prefix}{j}")
            objs.append(v)
            sigs.append(v.as_value())
        elif style in ("view", "sview") and ew >= 2:
            # "sview": both fields of the struct are signed
            lo, hi = (signed(ew // 2), signed(ew - ew // 2)) if style == "sview" else (ew // 2, ew - ew // 2)
            v = Signal(data.StructLayout({"p": lo, "q": hi}), name=f"{prefix}{j}")
            objs.append(v)
            sigs.append(v.as_value())
        else:
            s = Signal(signed(ew) if style in ("signed", "sview") else ew, name=f"{prefix}{j}")
            objs.append(s)
            sigs.append(s)
    return objs, sigs


def build(desc: dict) -> CombDesign:
    from amaranth import Signal, Cat, Value, signed
    from transactron.utils.amaranth_ext import shifter as S

    g = desc["g"]
    off = Signal(desc["ow"], name="off")
    sg = desc.get("sg", 0)  # signed operands: the functions work on the bit pattern
    if g == "scalar":
        w = desc["w"]
        x, ph = Signal(signed(w) if sg else w, name="x"), Signal(1, name="ph")
        outs = {
            "shr": (S.shift_right(x, off, ph), None),
            "ror": (S.rotate_right(x, off), None),
            "rol": (S.rotate_left(x, off), None),
            "shr_default": (S.shift_right(x, off), None),  # placeholder omitted
        }
        if desc.get("shl", 1):
            # pysim needs ~w^3 expression nodes for shift_left (per-bit reversal of a replicated placeholder);
            # at large widths the design is built without it (generic_shift_left is still covered up to 64 bits)
            outs["shl"] = (S.shift_left(x, off, ph), None)
            outs["shl_default"] = (S.shift_left(x, off), None)
        return CombDesign([x, off, ph], outs)
    if g == "generic":
        w = desc["w"]
        a, b = Signal(signed(w) if sg else w, name="a"), Signal(signed(w) if sg else w, name="b")
        return CombDesign([a, b, off], {"gsr": (S.generic_shift_right(a, b, off), None), "gsl": (S.generic_shift_left(a, b, off), None)})
    n, ew, style = desc["n"], desc["ew"], desc["style"]

    entry_lens: dict = {}

    def pack(name, entries):
        entry_lens[name] = [len(Value.cast(e)) for e in entries]
        return Cat(*[Value.cast(e) for e in entries])

    d, dsig = _entries(n, ew, style, "d")
    if desc.get("cf") == "tuple":  # the data arguments are `Sequence`s: tuples as well as lists
        d = tuple(d)
    if g == "vec":
        (ph,), phsig = _entries(1, ew, style, "ph")
        outs = {
            "vshr": (pack("vshr", S.shift_vec_right(d, off, ph)), None),
            "vshl": (pack("vshl", S.shift_vec_left(d, off, ph)), None),
            "vror": (pack("vror", S.rotate_vec_right(d, off)), None),
            "vrol": (pack("vrol", S.rotate_vec_left(d, off)), None),
            "vshr_default": (pack("vshr_default", S.shift_vec_right(d, off)), None),  # placeholder=None
            "vshl_default": (pack("vshl_default", S.shift_vec_left(d, off)), None),
        }
        des = CombDesign(dsig + [off] + phsig, outs)
        des.entry_lens = entry_lens
        return des
    if g == "gvec":
        e, esig = _entries(n, ew, style, "e")
        if desc.get("cf") == "tuple":
            e = tuple(e)
        outs = {
            "gvsr": (pack("gvsr", S.generic_shift_vec_right(d, e, off)), None),
            "gvsl": (pack("gvsl", S.generic_shift_vec_left(d, e, off)), None),
        }
        des = CombDesign(dsig + esig + [off], outs)
        des.entry_lens = entry_lens
        return des
    raise ValueError(g)


def vector(desc: dict, f: dict) -> list[int]:
    g = desc["g"]
    if f["op"] == "len":
        return [0] * ({"scalar": 3, "generic": 3, "vec": desc.get("n", 0) + 2, "gvec": 2 * desc.get("n", 0) + 1}[g])
    if g == "scalar":
        return [int(f["x"]), int(f["off"]), int(f.get("ph", 0))]
    if g == "generic":
        return [int(f["a"]), int(f["b"]), int(f["off"])]
    if g == "vec":
        return ints(f["d"]) + [int(f["off"]), int(f.get("ph", 0))]
    if g == "gvec":
        return ints(f["d"]) + ints(f["e"]) + [int(f["off"])]
    raise ValueError(g)


def _outname(f: dict) -> str:
    op = f["op"]
    if f.get("dflt") == "1":  # placeholder argument omitted in the call (ph must be 0 on the line)
        return op + "_default"
    return op


def impl(case: Case) -> list[str]:
    desc = case.desc
    try:
        design = build(desc)
        fs = [kv(line) for line in case.ops]
        res = evaluate(design, [vector(desc, f) for f in fs])
    except Exception as e:  # noqa: BLE001 - an exception of the real code is an observation
        return ["ok"] + [f"raise {type(e).__name__}"] * len(case.ops)
    out = ["ok"]
    for f, r in zip(fs, res):
        if f["op"] == "len":  # width(s) of the returned Value(s)
            out.append("r=" + (show_list(design.entry_lens[f["f"]]) if desc["g"] in ("vec", "gvec") else str(design.lens[f["f"]])))
            continue
        v = r[_outname(f)]
        if desc["g"] in ("vec", "gvec"):
            ew, n = desc["ew"], desc["n"]
            # the last entry keeps whatever lies above position n*ew (stray high bits would show up there)
            out.append("r=" + show_list([(v >> (j * ew)) & ((1 << ew) - 1) if j < n - 1 else v >> (j * ew) for j in range(n)]))
        else:
            out.append(f"r={v}")
    return out


# --------------------------------------------------------------------------- property monitor
def _shift_right(v: list, off: int, ph):
    return [v[i + off] if i + off < len(v) else ph for i in range(len(v))]


def _shift_left(v: list, off: int, ph):
    return [v[i - off] if i >= off else ph for i in range(len(v))]


def _rot_right(v: list, off: int):
    return [v[(i + off) % len(v)] for i in range(len(v))]


def _rot_left(v: list, off: int):
    r = [None] * len(v)
    for i in range(len(v)):
        r[(i + off) % len(v)] = v[i]
    return r


def _bits(x: int, w: int) -> list[int]:
    return [(x >> i) & 1 for i in range(w)]


def _num(bits: list[int]) -> int:
    return sum(b << i for i, b in enumerate(bits))


def in_domain(f: dict) -> bool:
    """Region of the theorems: offset <= width (length), or a zero placeholder for the plain shifts."""
    if f["op"] == "len":
        return True
    op, off = f["op"], int(f["off"])
    size = int(f["w"]) if "w" in f else len(ints(f["d"]))
    if op in ("shr", "shl", "vshr", "vshl"):
        return off <= size or int(f["ph"]) == 0
    return off <= size


def reference(f: dict):
    """The documented function in plain Python: shift and fill with the placeholder / rotate modulo the size."""
    if f["op"] == "len":  # "the same width as value" / "the same length as data", entries keep their width
        return f["w"] if "w" in f else show_list([int(f["ew"])] * int(f["n"]))
    op, off = f["op"], int(f["off"])
    if op in SCALAR:
        w = int(f["w"])
        v = _bits(int(f["x"]), w)
        if op == "shr":
            return str(_num(_shift_right(v, off, int(f["ph"]))))
        if op == "shl":
            return str(_num(_shift_left(v, off, int(f["ph"]))))
        return str(_num(_rot_right(v, off) if op == "ror" else _rot_left(v, off)))
    if op in ("gsr", "gsl"):  # shift value1, fill the freed space with the neighbouring bits of value2 (off <= width)
        w = int(f["w"])
        a, b = _bits(int(f["a"]), w), _bits(int(f["b"]), w)
        if op == "gsr":
            return str(_num((a + b)[off : off + w]))
        return str(_num((b + a)[w - off : 2 * w - off]))
    d = ints(f["d"])
    if op == "vshr":
        return show_list(_shift_right(d, off, int(f["ph"])))
    if op == "vshl":
        return show_list(_shift_left(d, off, int(f["ph"])))
    if op == "vror":
        return show_list(_rot_right(d, off))
    if op == "vrol":
        return show_list(_rot_left(d, off))
    e = ints(f["e"])
    n = len(d)
    if op == "gvsr":
        return show_list((d + e)[off : off + n])
    if op == "gvsl":
        return show_list((e + d)[n - off : 2 * n - off])
    raise ValueError(op)


def monitor(case: Case, out: list[str]):
    for line, o in zip(case.ops, out[1:]):
        f = kv(line)
        if not in_domain(f):
            continue
        exp = reference(f)
        if o != f"r={exp}":
            return f"{line}: implementation returned {o[2:] if o.startswith('r=') else o}, documented function gives {exp}"
    return None


def nontrivial(case: Case, out: list[str]) -> bool:
    """some line of the case moves data: offset not 0 and the result differs from the input value"""
    for line, o in zip(case.ops, out[1:]):
        f = kv(line)
        if f["op"] == "len":
            continue
        src = f.get("x") or f.get("a") or f.get("d")
        if int(f["off"]) != 0 and o != f"r={src}":
            return True
    return False


# --------------------------------------------------------------------------- generators
def _cfg(desc: dict) -> str:
    return "cfg " + " ".join(f"{k}={v}" for k, v in desc.items())


def _cases(desc: dict, ops: list[str], tag: str) -> list[Case]:
    return [Case(_cfg(desc), ops[i : i + CHUNK], dict(desc), tag) for i in range(0, len(ops), CHUNK)]


def scalar_desc(w: int, shl: int = 1, sg: int = 0) -> dict:
    return {"g": "scalar", "w": w, "ow": (2 * w + 3).bit_length(), "shl": shl, "sg": sg}


def scalar_ops(w: int, xs, offs_in, offs_far, shl: int = 1) -> list[str]:
    """offs_in: offsets <= w (all four functions, both placeholders); offs_far: offsets > w (placeholder 0 only)"""
    ops = [f"op=len f={f} w={w}" for f in (SCALAR if shl else ["shr", "ror", "rol"])]
    for x in xs:
        for off in offs_in:
            ops.append(f"op=ror w={w} x={x} off={off}")
            ops.append(f"op=rol w={w} x={x} off={off}")
            for ph in (0, 1):
                ops.append(f"op=shr w={w} x={x} off={off} ph={ph}")
                if shl:
                    ops.append(f"op=shl w={w} x={x} off={off} ph={ph}")
            ops.append(f"op=shr w={w} x={x} off={off} ph=0 dflt=1")
            if shl:
                ops.append(f"op=shl w={w} x={x} off={off} ph=0 dflt=1")
        for off in offs_far:
            ops.append(f"op=shr w={w} x={x} off={off} ph=0")
            if shl:
                ops.append(f"op=shl w={w} x={x} off={off} ph=0")
    return ops


def generic_ops(w: int, triples) -> list[str]:
    return [f"op=len f=gsr w={w}", f"op=len f=gsl w={w}"] + [f"op={op} w={w} a={a} b={b} off={off}" for a, b, off in triples for op in ("gsr", "gsl")]


def vec_desc(n: int, ew: int, style: str, g: str = "vec") -> dict:
    return {"g": g, "n": n, "ew": ew, "ow": (2 * n + 3).bit_length(), "style": style, "cf": "tuple" if (n + ew) % 2 else "list"}


def vec_ops(n: int, ew: int, datas, offs_in, offs_far, phs) -> list[str]:
    ops = [f"op=len f={f} ew={ew} n={n}" for f in VEC]
    for d in datas:
        ds = show_list(d)
        for off in offs_in:
            ops.append(f"op=vror ew={ew} d={ds} off={off}")
            ops.append(f"op=vrol ew={ew} d={ds} off={off}")
            for ph in phs:
                ops.append(f"op=vshr ew={ew} d={ds} off={off} ph={ph}")
                ops.append(f"op=vshl ew={ew} d={ds} off={off} ph={ph}")
            ops.append(f"op=vshr ew={ew} d={ds} off={off} ph=0 dflt=1")
            ops.append(f"op=vshl ew={ew} d={ds} off={off} ph=0 dflt=1")
        for off in offs_far:
            ops.append(f"op=vshr ew={ew} d={ds} off={off} ph=0")
            ops.append(f"op=vshl ew={ew} d={ds} off={off} ph=0 dflt=1")
    return ops


def gvec_ops(ew: int, triples) -> list[str]:
    n = len(triples[0][0])
    return [f"op=len f=gvsr ew={ew} n={n}", f"op=len f=gvsl ew={ew} n={n}"] + [f"op={op} ew={ew} d={show_list(d)} e={show_list(e)} off={off}" for d, e, off in triples for op in ("gvsr", "gvsl")]


def _rand_vals(w: int, rng, n: int) -> list[int]:
    vals = corner_values(w)
    while len(vals) < n:
        vals.append(rng.getrandbits(w))
    return vals


def gen_cases(ctx: Check) -> list[Case]:
    rng = ctx.rng("gen")
    cases: list[Case] = []
    small = ctx.pick(range(1, 7), range(1, 9))
    wide = ctx.pick([7, 8, 9, 13, 16, 17, 24, 31, 32, 33, 48, 63, 64], [7, 9, 10, 11, 12, 13, 15, 16, 17, 20, 24, 31, 32, 33, 40, 48, 56, 63, 64])
    shl_max = ctx.pick(16, 24)  # widest design that includes shift_left (see build)
    nrand = ctx.pick(2000, 30000)

    # ---- scalar shifts / rotates: every value, every offset 0..w (and the larger offsets for placeholder 0)
    for w in small:
        d = scalar_desc(w)
        cases += _cases(d, scalar_ops(w, range(1 << w), range(w + 1), range(w + 1, 1 << d["ow"])), "exhaustive")
        if w <= ctx.pick(5, 8):  # signed operands (the documented result is on the bit pattern)
            ds = scalar_desc(w, 1, 1)
            cases += _cases(ds, scalar_ops(w, range(1 << w), range(w + 1), sorted({w + 1, 2 * w, (1 << ds["ow"]) - 1})), "exhaustive")
            gs = {"g": "generic", "w": w, "ow": d["ow"], "sg": 1}
            tr = [(a, b, off) for a in range(1 << w) for b in range(1 << w) for off in range(w + 2)] if w <= 3 else [(rng.getrandbits(w), rng.getrandbits(w), off) for off in range(w + 2) for _ in range(30)]
            cases += _cases(gs, generic_ops(w, tr), "exhaustive" if w <= 3 else "random")
        d = {"g": "generic", "w": w, "ow": d["ow"]}
        if w <= ctx.pick(3, 5):
            triples = [(a, b, off) for a in range(1 << w) for b in range(1 << w) for off in range(1 << d["ow"])]
        else:
            triples = [(rng.getrandbits(w), rng.getrandbits(w), off) for off in range(1 << d["ow"]) for _ in range(40)]
        cases += _cases(d, generic_ops(w, triples), "exhaustive" if w <= ctx.pick(3, 5) else "random")
    per = max(2, nrand // (len(wide) * 12))
    for wi, w in enumerate(wide):
        shl = int(w <= shl_max)
        d = scalar_desc(w, shl, wi % 2)  # every other wide design has signed operands
        ops = []
        for x in _rand_vals(w, rng, per):
            offs_in = sorted({0, 1, w - 1, w, rng.randrange(w + 1), rng.randrange(w + 1)})
            offs_far = sorted({w + 1, 2 * w, 2 * w + 1, (1 << d["ow"]) - 1, rng.randrange(w + 1, 1 << d["ow"])})
            ops += scalar_ops(w, [x], offs_in, offs_far, shl)
        cases += _cases(d, ops, "random")
        if ctx.quick and w in (31, 33, 63):
            continue
        g = {"g": "generic", "w": w, "ow": d["ow"], "sg": 1 - wi % 2}
        triples = [(rng.getrandbits(w), rng.getrandbits(w), rng.choice([0, 1, w - 1, w, rng.randrange(w + 1), rng.randrange(1 << d["ow"])])) for _ in range(per * 6)]
        cases += _cases(g, generic_ops(w, triples), "random")

    # ---- vector variants: every content while n*ew is small, all placeholders, offsets 0..n (+ larger for ph 0)
    lim = ctx.pick(6, 8)
    j = 0
    for ew in range(1, lim + 1):
        for n in range(1, lim // ew + 1):
            style = ["flat", "view", "signed", "sview", "struct", "enum"][j % 6]
            if ew < 2 and style in ("view", "sview", "struct"):
                style = "enum" if style == "struct" else "signed"
            j += 1
            d = vec_desc(n, ew, style)
            datas = [list(v) for v in itertools.product(range(1 << ew), repeat=n)]
            phs = list(range(1 << ew)) if ew <= 2 else sorted({0, 1, (1 << ew) - 1, rng.getrandbits(ew)})
            far = range(n + 1, 1 << d["ow"]) if ctx.thorough else sorted({n + 1, 2 * n, 2 * n + 1, (1 << d["ow"]) - 1})
            cases += _cases(d, vec_ops(n, ew, datas, range(n + 1), far, phs), "exhaustive")
            if n * ew <= 3:
                g = vec_desc(n, ew, style, "gvec")
                triples = [(list(a), list(b), off) for a in itertools.product(range(1 << ew), repeat=n) for b in itertools.product(range(1 << ew), repeat=n) for off in range(1 << g["ow"])]
                cases += _cases(g, gvec_ops(ew, triples), "exhaustive")
    for n, ew, style in ctx.pick(
        [(4, 3, "view"), (5, 8, "signed"), (7, 5, "sview"), (8, 8, "struct"), (9, 8, "view"), (3, 33, "signed"), (2, 64, "sview"), (16, 2, "flat"), (5, 8, "struct"), (3, 2, "struct"), (4, 4, "enum"), (2, 3, "struct")],
        [(n, ew, s) for n in (2, 3, 4, 5, 7, 8, 9, 16) for ew, s in ((2, "signed"), (3, "view"), (8, "flat"), (16, "sview"), (33, "signed"), (64, "view"), (4, "struct"), (9, "struct"), (3, "enum"))],
    ):
        d = vec_desc(n, ew, style)
        ops = []
        for _ in range(ctx.pick(12, 50)):
            data = [rng.choice([rng.getrandbits(ew), rng.choice(corner_values(ew))]) for _ in range(n)]
            offs_in = sorted({0, 1, n - 1, n, rng.randrange(n + 1)})
            offs_far = sorted({n + 1, 2 * n, rng.randrange(n + 1, 1 << d["ow"])})
            ops += vec_ops(n, ew, [data], offs_in, offs_far, [0, rng.getrandbits(ew), (1 << ew) - 1])
        cases += _cases(d, ops, "random")
        g = vec_desc(n, ew, style, "gvec")
        triples = [([rng.getrandbits(ew) for _ in range(n)], [rng.getrandbits(ew) for _ in range(n)], rng.choice([0, 1, n, rng.randrange(n + 1), rng.randrange(1 << g["ow"])])) for _ in range(ctx.pick(30, 300))]
        cases += _cases(g, gvec_ops(ew, triples), "random")
    return cases


def more_cases(case: Case, rng):
    d = case.desc
    g = d["g"]
    if g == "scalar":
        w = d["w"]
        xs = range(1 << w) if w <= 8 else _rand_vals(w, rng, 60)
        yield from _cases(d, scalar_ops(w, xs, range(w + 1), range(w + 1, min(1 << d["ow"], 2 * w + 4)), d.get("shl", 1)), "search")
    elif g == "generic":
        w = d["w"]
        triples = [(rng.getrandbits(w), rng.getrandbits(w), off) for off in range(min(1 << d["ow"], 2 * w + 4)) for _ in range(20)]
        yield from _cases(d, generic_ops(w, triples), "search")
    elif g == "vec":
        n, ew = d["n"], d["ew"]
        datas = [[rng.getrandbits(ew) for _ in range(n)] for _ in range(60)]
        yield from _cases(d, vec_ops(n, ew, datas, range(n + 1), range(n + 1, min(1 << d["ow"], 2 * n + 3)), [0, rng.getrandbits(ew), (1 << ew) - 1]), "search")
    elif g == "gvec":
        n, ew = d["n"], d["ew"]
        triples = [([rng.getrandbits(ew) for _ in range(n)], [rng.getrandbits(ew) for _ in range(n)], off) for off in range(min(1 << d["ow"], 2 * n + 3)) for _ in range(20)]
        yield from _cases(d, gvec_ops(ew, triples), "search")


# --------------------------------------------------------------------------- findings
F10_WITNESS = {
    "cfg": "cfg g=scalar w=5 ow=4 shl=1",
    "ops": ["op=ror w=5 x=19 off=7", "op=shr w=5 x=19 off=6 ph=1"],
    "desc": {"g": "scalar", "w": 5, "ow": 4, "shl": 1},
}


def desc_of_cfg(cfg: str) -> dict:
    """inverse of `_cfg` (a witness may carry only the cfg line)"""
    return {k: (int(v) if v.isdigit() else v) for k, v in kv(cfg).items()}


def replay_witness(w: dict):
    """a finding witness: the documented function (for any offset) evaluated on the real code"""
    case = Case(w["cfg"], list(w["ops"]), w.get("desc") or desc_of_cfg(w["cfg"]), "witness")
    out = impl(case)
    for line, o in zip(case.ops, out[1:]):
        exp = reference(kv(line))
        if o != f"r={exp}":
            return f"{line}: implementation returned {o}, documented function gives {exp}"
    return None


def outside_region(ctx: Check):
    """offset > width with rotation / non-zero placeholder (excluded from generation; F10).  Informational only:
    model and implementation are compared there, no property claim, never an alarm."""
    cases = []
    for w in (1, 2, 3, 5):
        d = scalar_desc(w)
        ops = []
        for x in range(1 << w):
            for off in range(w + 1, 1 << d["ow"]):
                ops += [f"op=ror w={w} x={x} off={off}", f"op=rol w={w} x={x} off={off}", f"op=shr w={w} x={x} off={off} ph=1", f"op=shl w={w} x={x} off={off} ph=1"]
        cases += _cases(d, ops, "outside")
    d = vec_desc(3, 2, "flat")
    ops = []
    for data in itertools.product(range(4), repeat=3):
        for off in range(4, 1 << d["ow"]):
            ds = show_list(list(data))
            ops += [f"op=vror ew=2 d={ds} off={off}", f"op=vrol ew=2 d={ds} off={off}", f"op=vshr ew=2 d={ds} off={off} ph=3", f"op=vshl ew=2 d={ds} off={off} ph=2"]
    cases += _cases(d, ops, "outside")
    lines, outs, wrong = [], [], 0
    for c in cases:
        o = impl(c)
        outs += o
        lines += c.lines()
        wrong += sum(1 for line, r in zip(c.ops, o[1:]) if r != f"r={reference(kv(line))}")
    model = ctx.lean_batch("C37", lines)
    agree = sum(1 for a, b in zip(outs, model) if a == b)
    ctx.count("outside_region_lines", len(lines))
    ctx.count("outside_region_model_agrees", agree)
    ctx.count("outside_region_impl_differs_from_documented", wrong)
    ctx.note(
        f"offset > width with rotate_* / non-zero placeholder: {len(lines)} lines, model = implementation on {agree}, "
        f"implementation differs from the documented function on {wrong} inputs (finding F10; excluded from generation)"
    )


# --------------------------------------------------------------------------- entry points
def run(ctx: Check):
    ctx.rule = (
        "case = one configuration (scalar width / vector length x entry width, plain or structured entries) with a "
        "batch of (value, offset, placeholder) vectors, one evaluation per (function, vector); exhaustive over all "
        "values and offsets at small sizes, corner and seeded random values up to 64 bits; non-trivial = a non-zero "
        "offset that changes the value"
    )
    ctx.proof_stage()
    ctx.replay_findings(replay_witness)
    cases = gen_cases(ctx)
    for c in cases:
        for line in c.ops:
            ctx.count("op_" + line.split()[0][3:])
    lockstep(ctx, "shifter", "C37", cases, impl, monitor, more_cases, nontrivial, procs=ctx.pick(4, None))
    outside_region(ctx)
    ctx.note("signed operands (Signal(signed(w)), signed entries, structs with signed fields) are included; every result is "
             "observed at the width of the returned Value plus 4 bits and len(result) is compared with the operand width")
    ctx.note("exhaustive part: every value x offset (x placeholder) at widths 1..%d and vectors with n*ew <= %d" % (ctx.pick(6, 8), ctx.pick(6, 8)))


def replay(ctx: Check, body: dict):
    return replay_case(body, impl, monitor)
