"""C34 — hardware logs and assertions fire exactly when triggered
(transactron/utils/logging.py, transactron/testing/logging.py)."""

from __future__ import annotations

import json
import logging as pylog
import os
import re
import string

from ..common import Check
from ..ctxtree import Top, TreeDesign, Watchdog, gen_tree, interp, leaf_conds
from ..lockstep import Case, lockstep

META = {
    "id": "C34",
    "design_ref": "DESIGN.md §8 C34",
    "technique": "Lean 4 theorems over a model of record selection, the simulation logging process (handle_logs, "
    "combined-trigger short-cut, on_error) and LogRecordInfo.format at the chunk level; lock-step correspondence "
    "with generated log statements simulated in pysim with the real logging process",
    "level_text": "c34_fires_iff, c34_selected_iff, c34_fire_iff, c34_no_error_all (a message is reported iff its record "
    "is selected, its trigger holds in context and no earlier record of the cycle fired at ERROR level; registration "
    "order), c34_format_chunks/_format_defined/_s_decode (i-th format chunk renders the i-th field, packed strings, "
    "concatenation), c34_error_cycle/c34_error_stops (first ERROR-level firing ends the run, nothing afterwards) are "
    "proved for every record list and history; the model is tied to the code by comparing, per cycle, the messages "
    "(record, level, logger, text = LogRecord.getMessage() as a handler sees it; a raising getMessage is the observation "
    "`record lost`) emitted through Python logging by the real process, and the failing cycle",
    "level_note": "PARTIAL by design: Python's format mini-language is NOT modelled - `format(value, spec)` for a single "
    "value is a parameter (`Render`) of every theorem and is tabulated by the harness with Python's own format() for the "
    "Lean driver; what is proved is selection, order, field-chunk pairing, `s` decoding, concatenation and the stop. The "
    "independent monitor applies str.format to the whole original format string. Also trusted: Python's re (namespace "
    "match is an input bit, generated patterns are literal/prefix so the harness decides it with `in`/startswith), "
    "Python's logging module (root level set to 1 by the harness; level-0 records are dropped by logging itself and "
    "are not generated; in the `pyquiet` cases the harness configures logging.disable(level) and per-namespace "
    "Logger.setLevel around the simulation and restores them: this filters which MESSAGES reach the handler - an "
    "input bit per record, `py=` - while the failure of the simulation is required and compared regardless), Amaranth's Format parsing at registration, Amaranth semantics and pysim; transactions in "
    "generated designs never conflict (run iff requested); on_error is the raising callback used by "
    "TestCaseWithSimulatorBase. Not generated: `c` specifiers, `s` fields holding invalid UTF-8 (the process raises "
    "UnicodeDecodeError there).",
}

LEVELS = [10, 20, 30, 20, 30, 30, 5, 15, 35]
ERR_LEVELS = [40, 40, 45, 50]
LOGGERS = ["core.alu", "core.lsu.q", "mem", "core"]
_sims: dict = {}


# ----------------------------------------------------------------------------- generation
def gen_fmt(rng, nfields_max: int):
    """a format string, the index of the argument used by each replacement field, and per field whether it is `s`"""
    lits = ["", "", " ", "x=", ", ", " | ", "v:", "{{", "}}", "100% ", "é→", "[", "] ", "a b", "%d", "%s ", "%%", "50%% of %(x)s"]
    parts = []
    kinds = []  # per argument: "n" numeric or "s" string
    nargs = 0
    nrep = rng.randint(0, nfields_max)
    explicit = nrep >= 2 and rng.random() < 0.2
    uses = []
    for k in range(nrep):
        parts.append(rng.choice(lits))
        if rng.random() < 0.18:
            fill_align = rng.choice(["", "", "<", ">", "*<", " >", "_>"])
            width = rng.choice(["", "", "1", "6", "12"])
            spec = f"{fill_align}{width}s"
            kind = "s"
        else:
            fill_align = rng.choice(["", "", "", "<", ">", "=", "*>", "0=", " <", "é>", "x="])
            sign = rng.choice(["", "", "+", "-", " "])
            alt = rng.choice(["", "", "#"])
            zero = rng.choice(["", "", "0"])
            width = rng.choice(["", "", "1", "5", "12", "20"])
            grp = rng.choice(["", "", "", "_"])
            typ = rng.choice(["", "d", "x", "X", "b", "o", "d", "x"])
            spec = f"{fill_align}{sign}{alt}{zero}{width}{grp}{typ}"
            kind = "n"
        if explicit and k > 0 and rng.random() < 0.5 and kinds[uses[0]] == kind:
            arg = uses[0]  # reuse an earlier argument
        else:
            arg = nargs
            nargs += 1
            kinds.append(kind)
        uses.append(arg)
        name = str(arg) if explicit else ""
        parts.append("{" + name + (":" + spec if spec or rng.random() < 0.3 else "") + "}")
    parts.append(rng.choice(lits))
    return "".join(parts), kinds


def fmt_valid(fmt: str, kinds) -> bool:
    """accepted by Python's format and by Amaranth's Format (registration would raise otherwise)"""
    from amaranth import Signal
    from amaranth.hdl import Format

    try:
        fmt.format(*[("a" if k == "s" else 5) for k in kinds])
        Format(fmt, *[Signal(8) for _ in kinds])
        return True
    except (ValueError, IndexError, KeyError):
        return False


def chunks_of(fmt: str, fields):
    """[("L", text) | ("F", spec, argindex)] with adjacent literals merged, empty literals dropped
    (what Amaranth's Format keeps in `_chunks`); a plain Python int argument is formatted at
    registration and becomes literal text"""
    out = []
    auto = 0

    def lit_(t):
        if t:
            if out and out[-1][0] == "L":
                out[-1] = ("L", out[-1][1] + t)
            else:
                out.append(("L", t))

    for lit, name, spec, conv in string.Formatter().parse(fmt):
        lit_(lit)
        if name is not None:
            if name == "":
                idx = auto
                auto += 1
            else:
                idx = int(name)
            if fields[idx][0] == "c":
                lit_(format(fields[idx][1], spec or ""))
            else:
                out.append(("F", spec or "", idx))
    return out


def py_enabled(spec, r) -> bool:
    """does Python's logging let a record of logger r["logger"] and level r["level"] through under the Python-side
    configuration of this case (`logging.disable(D)`, per-namespace `Logger.setLevel`; root level is 1)?
    Python-side filtering decides only whether the MESSAGE is emitted - never whether the simulation fails."""
    py = spec.get("pylog")
    if not py:
        return True
    if r["level"] <= py["disable"]:
        return False
    name = LOGGERS[r["logger"]]
    levels = {LOGGERS[int(k)]: v for k, v in py["levels"].items()}
    while name:
        if levels.get(name):
            return r["level"] >= levels[name]
        name = name.rpartition(".")[0]
    return r["level"] >= 1


def gen_spec(rng, small: bool = False, pyquiet: bool = False) -> dict:
    nrec = rng.randint(1, 3) if small else rng.randint(2, 6)
    forced_err = rng.randrange(nrec) if pyquiet else -1
    tree = gen_tree(rng, nrec)
    fsigs: list = []
    tsigs: list = []
    recs = []
    for i in range(nrec):
        r = rng.random()
        if i == forced_err:
            r = rng.choice([0.05, 0.15])
        is_assert = r < 0.1
        is_err = (not is_assert) and r < 0.2
        level = 40 if is_assert else (rng.choice(ERR_LEVELS) if is_err else rng.choice(LEVELS))
        fmt, kinds = gen_fmt(rng, 3)
        while not fmt_valid(fmt, kinds):
            fmt, kinds = gen_fmt(rng, 3)
        fields = []
        for kd in kinds:
            if kd == "s":
                fsigs.append(["u", rng.choice([8, 16, 24, 32, 64])])
                fields.append(["s", len(fsigs) - 1])
            else:
                q = rng.random()
                if q < 0.7:
                    fsigs.append([rng.choice("us"), rng.choice([1, 2, 4, 7, 8, 13, 32, 33, 64, 70])])
                    fields.append(["s", len(fsigs) - 1])
                elif q < 0.85 and any(not f[2:] for f in fsigs):
                    cand = [j for j, f in enumerate(fsigs) if not f[2:]]
                    fields.append(["s", rng.choice(cand)])
                else:
                    fields.append(["c", rng.choice([0, 1, 42, -1, -77, 255, 2**35 + 1])])
            if kd == "s":
                fsigs[-1].append("str")
        q = rng.random()
        if q < 0.2 and not (is_assert or is_err):
            trig = None
        else:
            tsigs.append(1 if q < 0.7 else rng.randint(2, 3))
            trig = len(tsigs) - 1
        recs.append(
            {
                "level": level,
                "logger": rng.choice([0, 0, 1, 2, 3]),
                "assert": is_assert,
                "top": rng.random() < 0.2,
                "api": rng.choice(["log", "named", "named", "global"]),
                "trig": trig,
                "fmt": fmt,
                "fields": fields,
            }
        )
    regexp = rng.choice([["all"]] * 6 + [["lit", "core"], ["lit", "core"], ["lit", "lsu"], ["prefix", "core.a"], ["lit", "m"], ["prefix", "mem"], ["prefix", "co"]])
    level = rng.choice([0, 0, 0, 1, 5, 10, 10, 15, 20, 30])
    spec = {"tree": tree, "level": level, "regexp": regexp, "fsigs": fsigs, "tsigs": tsigs, "recs": recs}
    if pyquiet:
        # Python-side message filtering that silences (at least) the forced ERROR-level record, which the
        # hardware log level and namespace still select
        spec["level"] = rng.choice([0, 10, 20, 40])
        spec["regexp"] = ["all"]
        er = recs[forced_err]
        kind = rng.choice(["disable", "logger", "parent", "both"])
        py = {"disable": 0, "levels": {}}
        if kind in ("disable", "both"):
            py["disable"] = rng.choice([lv for lv in (40, 45, 50) if lv >= er["level"]])
        if kind in ("logger", "both"):
            py["levels"][str(er["logger"])] = rng.choice([lv for lv in (45, 50, 60) if lv > er["level"]] or [60])
        if kind == "parent":
            er["logger"] = rng.choice([0, 1])
            py["levels"]["3"] = 60  # logger "core" is the parent of "core.alu" and "core.lsu.q"
        if rng.random() < 0.5:
            py["levels"].setdefault(str(rng.randrange(len(LOGGERS))), rng.choice([20, 30, 35]))
        spec["pylog"] = py
        spec["perr"] = 0.12
    return spec


def regexp_str(rx) -> str:
    if rx[0] == "all":
        return ".*"
    esc = rx[1].replace(".", r"\.")
    return ("^" + esc) if rx[0] == "prefix" else esc


def name_ok(rx, name: str) -> bool:
    if rx[0] == "all":
        return True
    return name.startswith(rx[1]) if rx[0] == "prefix" else rx[1] in name


def hx(s: str) -> str:
    return s.encode().hex()


def cfg_line(spec) -> str:
    toks = [f"cfg level={spec['level']} n={len(spec['recs'])}"]
    for i, r in enumerate(spec["recs"]):
        name = LOGGERS[r["logger"]]
        ch = ";".join(("L" + hx(c[1])) if c[0] == "L" else ("F" + hx(c[1])) for c in chunks_of(r["fmt"], r["fields"])) or "N"
        toks.append(f"r{i}={r['level']}/{int(name_ok(spec['regexp'], name))}/{int(r['top'])}/{int(r['assert'])}/{hx(name)}/{ch}")
    toks.append("py=" + "".join(str(int(py_enabled(spec, r))) for r in spec["recs"]))
    return " ".join(toks)


def field_shape(spec, src):
    if src[0] == "s":
        t, w = spec["fsigs"][src[1]][:2]
        return w, t == "s"
    return None


def s_bytes(v: int) -> bytes:
    """non-zero bytes of v, least significant first"""
    out = bytearray()
    while v:
        if v & 0xFF:
            out.append(v & 0xFF)
        v >>= 8
    return bytes(out)


def gen_trace(rng, spec, ncycles: int, style: str) -> list[str]:
    tree = spec["tree"]
    pc = {"dense": 0.9, "sparse": 0.3, "mixed": 0.65}[style]
    perr = spec.get("perr") or {"dense": 0.04, "sparse": 0.01, "mixed": 0.03}[style]
    err_sigs = {}
    for r in spec["recs"]:
        if r["trig"] is not None and r["level"] >= 40:
            err_sigs[r["trig"]] = "assert" if r["assert"] else "err"
    ops = []
    for _ in range(ncycles):
        cv = [int(rng.random() < pc) for _ in range(tree["nconds"])]
        rv = [int(rng.random() < pc) for _ in range(tree["nreqs"])]
        tv = []
        for j, w in enumerate(spec["tsigs"]):
            kind = err_sigs.get(j)
            if kind == "err":
                tv.append(rng.getrandbits(w) | 1 if rng.random() < perr else 0)
            elif kind == "assert":
                tv.append(0 if rng.random() < perr else (rng.getrandbits(w) | 1))
            else:
                tv.append(rng.getrandbits(w) if rng.random() < pc + 0.1 else 0)
        fv = []
        for f in spec["fsigs"]:
            w = f[1]
            if f[2:]:
                n = w // 8
                bs = bytearray()
                alphabet = "abXY z09%{}-_"
                while len(bs) < n:
                    q = rng.random()
                    if q < 0.2:
                        bs.append(0)
                    elif q < 0.27 and len(bs) + 2 <= n:
                        bs += "é".encode()
                    elif q < 0.4 and len(bs) + 2 <= n:
                        bs += rng.choice(["%d", "%s", "%%", "%("]).encode()
                    else:
                        bs.append(ord(rng.choice(alphabet)))
                fv.append(int.from_bytes(bytes(bs[:n]), "little"))
            else:
                q = rng.random()
                fv.append((1 << w) - 1 if q < 0.1 else (1 << (w - 1)) if q < 0.2 else rng.getrandbits(w))
        ops.append(op_line(spec, cv, rv, tv, fv))
    return ops


def rec_values(spec, r, fv):
    """sampled values of the arguments of record r"""
    vals = []
    for src in r["fields"]:
        if src[0] == "s":
            w, sg = field_shape(spec, src)
            vals.append(interp(w, sg, fv[src[1]]))
        else:
            vals.append(src[1])
    return vals


def op_line(spec, cv, rv, tv, fv) -> str:
    conds = leaf_conds(spec["tree"], cv, rv)
    toks = ["cyc v=" + "/".join(",".join(str(x) for x in l) or "N" for l in (cv, rv, tv, fv))]
    tab = {}
    for i, r in enumerate(spec["recs"]):
        cs = conds[i]
        trig = 1 if r["trig"] is None else tv[r["trig"]]
        args = rec_values(spec, r, fv)
        vals = []
        for c in chunks_of(r["fmt"], r["fields"]):
            if c[0] != "F":
                continue
            v = args[c[2]]
            vals.append(v)
            sp = c[1]
            if sp.endswith("s"):
                bs = s_bytes(v)
                tab[(hx(sp[:-1]), "s" + bs.hex())] = hx(format(bs.decode(), sp[:-1]))
            else:
                tab[(hx(sp), f"i{v}")] = hx(format(v, sp))
        toks.append(f"r{i}=" + ("".join(str(int(c)) for c in cs) or "N") + f"/{trig}/" + (",".join(str(v) for v in vals) or "N"))
    toks.append("tab=" + (",".join(f"{a}:{b}:{c}" for (a, b), c in tab.items()) or "N"))
    return " ".join(toks)


# ----------------------------------------------------------------------------- implementation runner
class _Capture(pylog.Handler):
    def __init__(self, mod):
        super().__init__(level=0)
        self.mod = mod
        self.recs = []

    def emit(self, r):
        # the text a handler would print: record.getMessage(); if that raises the record is lost for every
        # handler (logging swallows the error) - that is the observation then
        try:
            text = r.getMessage()
        except Exception:  # noqa: BLE001
            text = None
        self.recs.append((self.mod._sim_cycle, r.levelno, r.name, text))


class _Built:
    def __init__(self, spec):
        from amaranth import Signal, signed, unsigned
        from amaranth.sim import Simulator

        from transactron.core.context import TransactronContextElaboratable
        from transactron.testing import logging as tl
        from transactron.testing.tick_count import make_tick_count_process
        from transactron.utils import logging as tlog
        from transactron.utils.dependencies import DependencyContext, DependencyManager

        self.spec = spec
        self.tl = tl
        self.pid = os.getpid()
        self.fsig = [Signal(signed(f[1]) if f[0] == "s" else unsigned(f[1]), name=f"f{i}") for i, f in enumerate(spec["fsigs"])]
        self.tsig = [Signal(w, name=f"t{i}") for i, w in enumerate(spec["tsigs"])]
        loggers = [tlog.HardwareLogger(n) for n in LOGGERS]
        named = {10: "debug", 20: "info", 30: "warning", 40: "error"}

        def leaf(m, i, d):
            r = spec["recs"][i]
            lg = loggers[r["logger"]]
            trig = True if r["trig"] is None else self.tsig[r["trig"]]
            args = [self.fsig[s[1]] if s[0] == "s" else s[1] for s in r["fields"]]
            loc = ("gen", i)
            if r["assert"]:
                if r["api"] == "global":
                    if r["top"]:
                        tlog.top_assertion(trig, r["fmt"], *args, name=lg.name, src_loc=loc)
                    else:
                        tlog.assertion(m, trig, r["fmt"], *args, name=lg.name, src_loc=loc)
                elif r["top"]:
                    lg.top_assertion(trig, r["fmt"], *args, src_loc=loc)
                else:
                    lg.assertion(m, trig, r["fmt"], *args, src_loc=loc)
            elif r["api"] != "log" and r["level"] in named:
                fn = getattr(lg, ("top_" if r["top"] else "") + named[r["level"]])
                if r["top"]:
                    fn(trig, r["fmt"], *args, src_loc=loc)
                else:
                    fn(m, trig, r["fmt"], *args, src_loc=loc)
            elif r["top"]:
                lg.top_log(r["level"], trig, r["fmt"], *args, src_loc=loc)
            else:
                lg.log(m, r["level"], trig, r["fmt"], *args, src_loc=loc)

        def on_error():
            assert False, "Simulation finished due to an error"

        self.dm = DependencyManager()
        with DependencyContext(self.dm):
            self.design = TreeDesign(spec["tree"], leaf)
            self.sim = Simulator(Top(TransactronContextElaboratable(self.design, dependency_manager=self.dm)))
            self.sim.add_clock(1e-6)
            self.sim.add_process(make_tick_count_process())
            self.sim.add_process(tl.make_logging_process(spec["level"], regexp_str(spec["regexp"]), on_error))
            self.records = tlog.get_log_records(0)
        self.first = True
        self.broken = False

    def real_chunks(self):
        return [[("F", c.fmt_or_str) if c.is_fmt else ("L", c.fmt_or_str) for c in r.format_spec] for r in self.records]

    async def _tb(self, ctx):
        d = self.design
        for cv, rv, tv, fv in self._job:
            for s, v in zip(d.c, cv):
                ctx.set(s, v)
            for s, v in zip(d.r, rv):
                ctx.set(s, v)
            for s, v in zip(self.tsig, tv):
                ctx.set(s, v)
            for s, v in zip(self.fsig, fv):
                ctx.set(s, v)
            await ctx.tick()

    def run(self, inputs):
        """returns (captured log records, exception or None, cycle of the exception)"""
        from transactron.utils.dependencies import DependencyContext

        self._job = inputs
        root = pylog.getLogger()
        cap = _Capture(self.tl)
        old_level, old_handlers = root.level, root.handlers[:]
        root.handlers = [cap]
        root.setLevel(1)
        py = self.spec.get("pylog") or {"disable": 0, "levels": {}}
        touched = [pylog.getLogger(LOGGERS[int(k)]) for k in py["levels"]]
        for k, lv in py["levels"].items():
            pylog.getLogger(LOGGERS[int(k)]).setLevel(lv)
        pylog.disable(py["disable"])
        exc = None
        self.tl._sim_cycle = 0
        try:
            with DependencyContext(self.dm):
                if self.first:
                    self.sim.add_testbench(self._tb)
                    self.first = False
                else:
                    self.sim.reset()
                with Watchdog(20):
                    self.sim.run()
        except Exception as e:  # noqa: BLE001 - the failure of the simulation is the observation
            exc = e
            self.broken = True
        finally:
            pylog.disable(pylog.NOTSET)
            for lg in touched:
                lg.setLevel(pylog.NOTSET)
            root.handlers = old_handlers
            root.setLevel(old_level)
        return cap.recs, exc, self.tl._sim_cycle


def _get(spec) -> _Built:
    key = json.dumps(spec, sort_keys=True)
    b = _sims.get(key)
    if b is None or b.pid != os.getpid() or b.broken:
        if len(_sims) > 40:
            _sims.clear()
        b = _sims[key] = _Built(spec)
    return b


def _ints(s):
    return [] if s in ("N", "") else [int(x) for x in s.split(",")]


def impl(case: Case) -> list[str]:
    spec = case.desc["spec"]
    try:
        b = _get(spec)
    except Exception as e:  # noqa: BLE001
        return ["raise " + type(e).__name__] * len(case.lines())
    want = [[(c[0], c[1]) for c in chunks_of(r["fmt"], r["fields"])] for r in spec["recs"]]
    if b.real_chunks() != want:
        return ["ok"] + ["spec-mismatch"] * len(case.ops)
    inputs = []
    for o in case.ops:
        t = dict(x.split("=", 1) for x in o.split()[1:])
        inputs.append([_ints(p) for p in t["v"].split("/")])
    recs, exc, exc_cycle = b.run(inputs)
    by_cycle: dict[int, list] = {}
    for cyc, lv, name, text in recs:
        m = re.match(r"\[gen:(\d+)\] (.*)\Z", text, re.S) if text is not None else None
        if text is None:
            ent = f"x.{lv}.{hx(name)}.lost"
        elif m is None:
            ent = f"x.{lv}.{hx(name)}.{hx(text)}"
        else:
            ent = f"{m.group(1)}.{lv}.{hx(name)}.{hx(m.group(2))}"
        by_cycle.setdefault(cyc, []).append(ent)
    out = ["ok"]
    for k in range(len(case.ops)):
        if exc is not None and k > exc_cycle:
            out.append("dead" if isinstance(exc, AssertionError) else "raise " + type(exc).__name__)
        elif exc is not None and k == exc_cycle:
            if isinstance(exc, AssertionError):
                out.append(f"m={';'.join(by_cycle.get(k, [])) or '-'} err=1")
            else:
                out.append("raise " + type(exc).__name__)
        else:
            out.append(f"m={';'.join(by_cycle.get(k, [])) or '-'} err=0")
    return out


# ----------------------------------------------------------------------------- monitor
def monitor(case: Case, out: list[str]):
    """The property sentence on the implementation's observations: a record is reported in exactly the cycles
    where its trigger holds within its context, with the message Python's str.format gives for the sampled
    fields; an ERROR-level record ends the simulation with a failure."""
    spec = case.desc["spec"]
    dead = False
    for k, (op, o) in enumerate(zip(case.ops, out[1:])):
        if o.startswith("raise") or o == "spec-mismatch":
            return f"cycle {k}: the implementation answered {o}"
        if dead:
            if o != "dead":
                return f"cycle {k}: the simulation went on ({o[:80]}) after an ERROR-level record had fired"
            continue
        t = dict(x.split("=", 1) for x in op.split()[1:])
        cv, rv, tv, fv = [_ints(p) for p in t["v"].split("/")]
        conds = leaf_conds(spec["tree"], cv, rv)
        exp = []
        err = False
        for i, r in enumerate(spec["recs"]):
            name = LOGGERS[r["logger"]]
            if r["level"] < spec["level"] or not name_ok(spec["regexp"], name):
                continue
            tval = 1 if r["trig"] is None else tv[r["trig"]]
            holds = (tval == 0) if r["assert"] else (tval != 0)
            if not (holds and (r["top"] or all(conds[i]))):
                continue
            args = rec_values(spec, r, fv)
            pyargs = []
            uses = {c[2]: c[1] for c in chunks_of(r["fmt"], r["fields"]) if c[0] == "F"}
            for a, v in enumerate(args):
                pyargs.append(s_bytes(v).decode() if uses.get(a, "").endswith("s") else v)
            if py_enabled(spec, r):  # Python-side filtering drops the message only
                exp.append(f"{i}.{r['level']}.{hx(name)}.{hx(r['fmt'].format(*pyargs))}")
            if r["level"] >= 40:
                err = True
                break
        if o == "dead":
            return f"cycle {k}: the simulation had already ended although no ERROR-level record fired before"
        f = dict(x.split("=", 1) for x in o.split())
        got = [] if f["m"] == "-" else f["m"].split(";")
        if got != exp:
            bad = sorted({int(e.split(".")[0]) for e in exp if e not in got})
            fmts = {i: spec["recs"][i]["fmt"] for i in bad}
            return (
                f"cycle {k}: reported {_pretty(got)} but the records whose trigger holds in context, formatted by "
                f"str.format, are {_pretty(exp)}; format strings of the lost/altered records: {fmts}"
            )
        if err and f["err"] != "1":
            return f"cycle {k}: an ERROR-level record fired but the simulation did not end with a failure"
        if not err and f["err"] != "0":
            return f"cycle {k}: the simulation failed although no ERROR-level record fired"
        dead = err
    return None


def _pretty(ms):
    out = []
    for m in ms:
        i, lv, name, msg = m.split(".")
        text = "<record lost: getMessage() raised>" if msg == "lost" else bytes.fromhex(msg).decode()
        out.append((i if i == "x" else int(i), int(lv), bytes.fromhex(name).decode(), text))
    return out


# ----------------------------------------------------------------------------- cases
def mk_case(spec, ops, tag) -> Case:
    desc = {"component": "hwlogging", "nrecs": len(spec["recs"]), "level": spec["level"], "spec": spec}
    return Case(cfg_line(spec), ops, desc, tag)


def directed_specs():
    t1 = {"nconds": 1, "nreqs": 0, "top": [{"k": "if", "conds": [0], "else": False, "branches": [[{"k": "leaf", "id": 0}]]}, {"k": "leaf", "id": 1}, {"k": "leaf", "id": 2}, {"k": "leaf", "id": 3}], "methods": []}
    s1 = {
        "tree": t1, "level": 10, "regexp": ["all"], "fsigs": [["u", 7], ["u", 8], ["u", 32, "str"]], "tsigs": [1, 1, 1],
        "recs": [
            {"level": 30, "logger": 0, "assert": False, "top": False, "api": "named", "trig": None, "fmt": "Log triggered under Amaranth If value+3=0x{:x}", "fields": [["s", 0]]},
            {"level": 20, "logger": 0, "assert": False, "top": False, "api": "named", "trig": 0, "fmt": "Input is even! input={1}, counter={0} {0:#06b}", "fields": [["s", 1], ["s", 0]]},
            {"level": 40, "logger": 2, "assert": True, "top": False, "api": "global", "trig": 1, "fmt": "String value is {:>6s}", "fields": [["s", 2]]},
            {"level": 10, "logger": 1, "assert": False, "top": True, "api": "log", "trig": 2, "fmt": "after", "fields": []},
        ],
    }
    return [s1]


def gen_cases(ctx: Check) -> list[Case]:
    rng = ctx.rng("gen")
    cases = []
    for spec in directed_specs():
        for style in ("dense", "mixed"):
            cases.append(mk_case(spec, gen_trace(rng, spec, 30, style), "directed"))
    for k in range(ctx.pick(95, 2500)):
        spec = gen_spec(rng, small=(k % 5 == 0))
        for style in (("dense", "mixed", "sparse") if ctx.thorough else (rng.choice(["dense", "mixed"]),)):
            cases.append(mk_case(spec, gen_trace(rng, spec, rng.choice([4, 10, 20, 30]), style), "random"))
    # Python logging configured around the simulation so that it drops messages (per-namespace logger level,
    # logging.disable): an ERROR-level record / failed assertion must still end the simulation
    for k in range(ctx.pick(30, 600)):
        spec = gen_spec(rng, small=(k % 3 == 0), pyquiet=True)
        cases.append(mk_case(spec, gen_trace(rng, spec, rng.choice([10, 20]), rng.choice(["dense", "mixed"])), "pyquiet"))
    return cases


def more_cases(case: Case, rng):
    spec = case.desc["spec"]
    for _ in range(20):
        yield mk_case(spec, gen_trace(rng, spec, 16, rng.choice(["dense", "mixed"])), "search")
    for k in range(60):
        sp = gen_spec(rng, small=True, pyquiet=(k % 3 == 0))
        yield mk_case(sp, gen_trace(rng, sp, 12, "dense"), "search")


def nontrivial(case: Case, out: list[str]) -> bool:
    """some cycle reports >= 2 messages, some record with a holding trigger is silenced by its context or by the
    selection, and at least one message has a format chunk"""
    spec = case.desc["spec"]
    multi = any(o.startswith("m=") and o.split()[0].count(";") >= 1 for o in out[1:])
    hasfmt = any("{" in r["fmt"].replace("{{", "") for r in spec["recs"])
    silenced = False
    for op in case.ops:
        for tok in op.split()[2:]:
            if tok.startswith("r"):
                cs, trig, _ = tok.split("=", 1)[1].split("/")
                if cs != "N" and "0" in cs and trig != "0":
                    silenced = True
    return multi and hasfmt and silenced


def load_corpus() -> list[Case]:
    from ..common import CORPUS

    out = []
    for f in sorted((CORPUS / "C34").glob("*.json")):
        b = json.loads(f.read_text())
        out.append(Case(b["cfg"], b["ops"], b["desc"], "corpus"))
    return out


def run(ctx: Check):
    ctx.rule = (
        "cases = (generated design: 1-6 log statements with levels 5-50 (ERROR-level ones and assertions fire rarely), "
        "registered through log/debug/info/warning/error/assertion and their top_* / module-level variants inside nested "
        "If/Elif/Else, transaction bodies and method bodies, triggers absent/1-bit/multi-bit, format strings from the "
        "grammar [[fill]align][sign][#][0][width][_][d|x|X|b|o] and [[fill]align][width]s with literal text incl. "
        "{{ }} % %d %s %% %(x)s and non-ASCII (also inside `s` fields), auto or explicit argument numbering; a minimum level and a namespace pattern; a trace of "
        "condition/request/trigger/field values; in `pyquiet` cases additionally a Python-side logging configuration "
        "(logging.disable, namespace logger levels) that drops the messages of a forced ERROR-level record); non-trivial = a cycle with >= 2 messages, a record with holding trigger "
        "silenced by its context, and a format chunk present"
    )
    ctx.assumptions.append(
        "Python's format(value, spec) for one value is a parameter of the theorems (Render); the Lean driver gets it as a "
        "table computed with Python's own format(); the independent monitor uses str.format on the whole format string"
    )
    ctx.proof_stage()
    cases = load_corpus() + gen_cases(ctx)
    for c in cases:
        ctx.count("records_total", c.desc["nrecs"])
    lockstep(ctx, "hwlogging", "C34", cases, impl, monitor, more_cases, nontrivial, procs=1 if ctx.quick else None)


def replay(ctx: Check, body: dict):
    from ..lockstep import replay_case

    return replay_case(body, impl, monitor)
