"""C21 — MemoryBank returns what an ideal memory holds (transactron/lib/storage.py:17-208)."""

from __future__ import annotations

import itertools

import json

from ..common import CORPUS, Check
from ..lockstep import Case, lockstep
from ..simrun import CompSim

META = {
    "id": "C21",
    "design_ref": "DESIGN.md §7 C21, §11 F5",
    "technique": "Lean 4 refinement proof: hand-written register-level model of MemoryBank (memory read-port register, "
    "read_output/overflow tracking registers, OneHotMux write tracking) refines 'ideal memory + per-port queue of at "
    "most two pending responses'; lock-step correspondence of the model with the real component in pysim in all "
    "four transparent x read_on_resp modes",
    "level_text": "c21_refines_partial (all outputs of every history equal those of the ideal-memory-plus-queues "
    "specification), c21_resp_value, c21_order, c21_req_ready are proved for every depth, every number of read and "
    "write ports, all four modes and every history with distinct write rows per cycle, under the added hypothesis "
    "'granularity is None, or one chunk per word (mask width 1), or not read_on_resp' - exactly the complement of the "
    "open finding F5, whose region violates the property (witness kept) - and request addresses below depth; the model is tied to the code by "
    "cycle-exact comparison of done bits, returned data and ready bits for depths 1..9, 1..3 read/write ports, with "
    "and without granularity, incl. the F5 region and same-row writes (model-vs-implementation agreement only there)",
    "level_note": "partial: theorem hypothesis excludes read_on_resp together with a granularity of >= 2 chunks (F5). trusted: Lean "
    "kernel, axioms propext/Quot.sound/Classical.choice; amaranth.lib.memory.Memory port semantics as modelled in "
    "TxV/Model/BankMem.lean and MemoryBank.lean (read register with enable, transparency, granularity; exercised, "
    "not verified); pysim; harness glue. memory_type: default amaranth Memory in the theorems; MultiReadMemory, "
    "MultiportXORMemory, MultiportXORILVTMemory, MultiportOneHotILVTMemory (2 and 3 write ports, no granularity) and "
    "MultiReadMemory with granularity and partial masks is run against the same ideal-memory "
    "model and monitor (their own refinement is C23; MultiportXORMemory rejects granularity, ILVT classes with "
    "granularity are the open C23 finding F9 and are not generated).",
}

_sims: dict[tuple, CompSim] = {}


def _sim(d: dict) -> CompSim:
    two = d.get("callers") == 2
    key = (d["depth"], d["g"], d["n"], d["gran"], d["t"], d["r"], d["rp"], d["wp"], d.get("memory_type", "Memory"), two)
    if key not in _sims:
        from transactron.lib.storage import MemoryBank

        from ..memtypes_b5 import memory_kwargs

        kw = memory_kwargs(d.get("memory_type", "Memory"))
        mk = lambda: MemoryBank(  # noqa: E731
            shape=d["g"] * d["n"],
            depth=d["depth"],
            granularity=d["g"] if d["gran"] else None,
            transparent=bool(d["t"]),
            read_on_resp=bool(d["r"]),
            read_ports=d["rp"],
            write_ports=d["wp"],
            **kw,
        )
        if not two:
            _sims[key] = CompSim(mk)
        else:
            from ..twocall_b5 import probe, wrap

            sim = CompSim(lambda: wrap(mk(), ["read_req", "read_resp", "write"]))
            wv = {"addr": 0, "data": 1, "mask": 1} if d["gran"] else {"addr": 0, "data": 1}
            both = {}
            for c in "ab":
                for i in range(d["rp"]):
                    both[f"read_req_{c}[{i}]"] = {"addr": 0}
                    both[f"read_resp_{c}[{i}]"] = 0
                for j in range(d["wp"]):
                    both[f"write_{c}[{j}]"] = wv
            inst = [(m, i) for m in ("read_req", "read_resp") for i in range(d["rp"])] + [("write", j) for j in range(d["wp"])]
            sim.prio = probe(sim, [both, both, both], inst)
            _sims[key] = sim
    return _sims[key]


def _lst1(t):
    return [None if x == "-" else int(x) for x in t.split(",")] if t else []


def _lst3(t):
    return [None if x == "-" else tuple(int(y) for y in x.split(":")) for x in t.split(",")] if t else []


def _wop(d, x):
    if x is None:
        return None
    return {"addr": x[0], "data": x[1], "mask": x[2]} if d["gran"] else {"addr": x[0], "data": x[1]}


def impl2(case: Case) -> list[str]:
    """two callers per method (tokens qa= qb= sa= sb= wa= wb=); merged into the single-caller observation format,
    with an `anomaly=` token when a method served both callers (or the one without priority) in one cycle"""
    from ..twocall_b5 import merge

    d = case.desc
    sim = _sim(d)
    rp, wp = d["rp"], d["wp"]
    ops, atts = [], []
    for line in case.ops:
        t = dict(x.split("=") for x in line.split()[1:])
        o = {k: _lst1(t[k]) for k in ("qa", "qb", "sa", "sb")}
        o.update({k: _lst3(t[k]) for k in ("wa", "wb")})
        op = {}
        for c in "ab":
            for i in range(rp):
                a = o["q" + c][i]
                op[f"read_req_{c}[{i}]"] = None if a is None else {"addr": a}
                op[f"read_resp_{c}[{i}]"] = 0 if o["s" + c][i] else None
            for j in range(wp):
                op[f"write_{c}[{j}]"] = _wop(d, o["w" + c][j])
        ops.append(op)
        atts.append(o)
    tr = sim.run(
        ops, extra=lambda dut: [s for i in range(rp) for s in (dut.inner.read_req[i].ready, dut.inner.read_resp[i].ready)]
    )
    out = ["ok"]
    for res, o in zip(tr, atts):
        an, q, s_, w = [], [], [], []
        for i in range(rp):
            v, a = merge(res, "read_req", i, o["qa"][i] is not None, o["qb"][i] is not None, sim.prio[("read_req", i)])
            q.append("0" if v is None else "1")
            an += [a] if a else []
            v, a = merge(res, "read_resp", i, bool(o["sa"][i]), bool(o["sb"][i]), sim.prio[("read_resp", i)])
            s_.append("-" if v is None else str(v))
            an += [a] if a else []
        for j in range(wp):
            v, a = merge(res, "write", j, o["wa"][j] is not None, o["wb"][j] is not None, sim.prio[("write", j)])
            w.append("0" if v is None else "1")
            an += [a] if a else []
        e = res["_extra"]
        rdy = ",".join(f"{e[2 * i]}{e[2 * i + 1]}" for i in range(rp))
        out.append(f"q={','.join(q)} s={','.join(s_)} w={','.join(w)} rdy={rdy}" + (f" anomaly={'+'.join(an)}" if an else ""))
    return out


def two_line(rng, line: str, d: dict, prio: dict) -> str:
    """distribute the attempted calls of an effective single-caller line over two callers (twocall_b5.split)"""
    from ..twocall_b5 import split

    qs, ss, ws = parse_op(line)
    width = d["g"] * d["n"]
    o = {k: [] for k in ("qa", "qb", "sa", "sb", "wa", "wb")}
    for i in range(d["rp"]):
        x, y = split(rng, qs[i], rng.randrange(d["depth"]), prio[("read_req", i)])
        o["qa"].append(x)
        o["qb"].append(y)
        x, y = split(rng, 1 if ss[i] else None, 1, prio[("read_resp", i)])
        o["sa"].append(x)
        o["sb"].append(y)
    for j in range(d["wp"]):
        junk = (rng.randrange(d["depth"]), rng.getrandbits(width), (rng.getrandbits(d["n"]) | 1) if d["gran"] else 1)
        x, y = split(rng, ws[j], junk, prio[("write", j)])
        o["wa"].append(x)
        o["wb"].append(y)
    f1 = lambda l: ",".join("-" if x is None else str(x) for x in l)  # noqa: E731
    fb = lambda l: ",".join("1" if x else "0" for x in l)  # noqa: E731
    f3 = lambda l: ",".join("-" if x is None else f"{x[0]}:{x[1]}:{x[2]}" for x in l)  # noqa: E731
    return f"{line} qa={f1(o['qa'])} qb={f1(o['qb'])} sa={fb(o['sa'])} sb={fb(o['sb'])} wa={f3(o['wa'])} wb={f3(o['wb'])}"


def parse_op(line: str):
    """`cyc q=1,- s=0,1 w=1:171:3,-` -> ([1,None], [False,True], [(1,171,3),None])"""
    t = dict(x.split("=") for x in line.split()[1:])
    qs = [None if x == "-" else int(x) for x in t["q"].split(",")] if t["q"] else []
    ss = [x == "1" for x in t["s"].split(",")] if t["s"] else []
    ws = [None if x == "-" else tuple(int(y) for y in x.split(":")) for x in t["w"].split(",")] if t["w"] else []
    return qs, ss, ws


def fmt_op(qs, ss, ws) -> str:
    q = ",".join("-" if x is None else str(x) for x in qs)
    s = ",".join("1" if x else "0" for x in ss)
    w = ",".join("-" if x is None else f"{x[0]}:{x[1]}:{x[2]}" for x in ws)
    return f"cyc q={q} s={s} w={w}"


def impl(case: Case) -> list[str]:
    d = case.desc
    if d.get("callers") == 2:
        return impl2(case)
    sim = _sim(d)
    ops = []
    for line in case.ops:
        qs, ss, ws = parse_op(line)
        op = {}
        for i, a in enumerate(qs):
            op[f"read_req[{i}]"] = None if a is None else {"addr": a}
        for i, b in enumerate(ss):
            op[f"read_resp[{i}]"] = 0 if b else None
        for j, x in enumerate(ws):
            if x is None:
                op[f"write[{j}]"] = None
            elif not d["gran"]:
                op[f"write[{j}]"] = {"addr": x[0], "data": x[1]}
            else:
                op[f"write[{j}]"] = {"addr": x[0], "data": x[1], "mask": x[2]}
        ops.append(op)
    rp, wp = d["rp"], d["wp"]
    tr = sim.run(ops, extra=lambda dut: [s for i in range(rp) for s in (dut.read_req[i].ready, dut.read_resp[i].ready)])
    out = ["ok"]
    for res in tr:
        q = ",".join("0" if res[("read_req", i)] is None else "1" for i in range(rp))
        s = ",".join("-" if res[("read_resp", i)] is None else str(res[("read_resp", i)]) for i in range(rp))
        w = ",".join("0" if res[("write", j)] is None else "1" for j in range(wp))
        e = res["_extra"]
        rdy = ",".join(f"{e[2 * i]}{e[2 * i + 1]}" for i in range(rp))
        out.append(f"q={q} s={s} w={w} rdy={rdy}")
    return out


class Ideal:
    """ideal memory: rows of `n` chunks of `g` bits, initially 0; writes outside `depth` are dropped"""

    def __init__(self, d):
        self.g, self.n, self.depth, self.gran = d["g"], d["n"], d["depth"], d["gran"]
        self.rows: dict[int, int] = {}

    def read(self, a):
        return self.rows.get(a, 0)

    def after(self, ws):
        nxt = Ideal.__new__(Ideal)
        nxt.__dict__.update(self.__dict__)
        nxt.rows = dict(self.rows)
        for x in ws:
            if x is None or x[0] >= self.depth:
                continue
            a, data, mask = x
            if not self.gran:
                nxt.rows[a] = data
                continue
            old = nxt.rows.get(a, 0)
            for c in range(self.n):
                if (mask >> c) & 1:
                    cm = ((1 << self.g) - 1) << (self.g * c)
                    old = (old & ~cm) | (data & cm)
            nxt.rows[a] = old
        return nxt


def monitor(case: Case, out: list[str]):
    """The property sentence on the implementation's observations: an ideal memory plus, per read port, the list of
    pending requests; each executed read_resp answers the oldest pending request of its port with what the ideal
    memory held at request time (response time with read_on_resp), counting same-cycle writes iff transparent;
    read_req is ready iff fewer than two responses are pending."""
    d = case.desc
    T, R, rp = bool(d["t"]), bool(d["r"]), d["rp"]
    mem = Ideal(d)
    pending: list[list] = [[] for _ in range(rp)]  # per port: [addr, value-at-request-time]
    for k, (line, o) in enumerate(zip(case.ops, out[1:])):
        qs, ss, ws = parse_op(line)
        f = dict(x.split("=") for x in o.split())
        if "anomaly" in f:
            return f"cycle {k}: {f['anomaly']} (two callers of one exclusive method served in one cycle)"
        addrs = [x[0] for x in ws if x is not None]
        if len(set(addrs)) != len(addrs):
            return None  # two write ports address the same row: outside the property's hypothesis from here on
        got_q, got_s, got_w, rdy = f["q"].split(","), f["s"].split(","), f["w"].split(",") if f["w"] else [], f["rdy"].split(",")
        for j, x in enumerate(ws):
            if (x is None) != (got_w[j] == "0"):
                return f"cycle {k}: write[{j}] attempted={x is not None} executed={got_w[j]} (always ready)"
        nxt = mem.after(ws)
        seen = nxt if T else mem  # same-cycle writes count exactly when the bank is transparent
        for i in range(rp):
            np_ = len(pending[i])
            if rdy[i] != f"{int(np_ < 2)}{int(np_ > 0)}":
                return f"cycle {k}: port {i} ready bits (read_req,read_resp)={rdy[i]} with {np_} responses pending"
            # response: oldest pending request
            resp_exp = ss[i] and np_ > 0
            if (got_s[i] != "-") != resp_exp:
                return f"cycle {k}: read_resp[{i}] attempted={ss[i]} executed={got_s[i] != '-'} with {np_} pending"
            req_exp = qs[i] is not None and np_ < 2
            if (got_q[i] == "1") != req_exp:
                return f"cycle {k}: read_req[{i}] attempted={qs[i] is not None} executed={got_q[i]} with {np_} pending"
            if resp_exp:
                a, v = pending[i].pop(0)
                exp = seen.read(a) if R else v
                if int(got_s[i]) != exp:
                    when = "response" if R else "request"
                    return (
                        f"cycle {k}: read_resp[{i}] returned {got_s[i]} for the request of address {a}; the ideal "
                        f"memory held {exp} at {when} time ({'counting' if T else 'not counting'} same-cycle writes)"
                    )
            if req_exp:
                pending[i].append([qs[i], seen.read(qs[i])])
        mem = nxt
    return None


def _monitor(case: Case, out: list[str]):
    return None if case.tag in ("malformed", "f5-region", "oor") else monitor(case, out)


def _desc(depth, g, n, gran, t, r, rp, wp, memory_type="Memory") -> dict:
    d = {
        "component": "MemoryBank",
        "depth": depth,
        "g": g,
        "n": n,
        "gran": int(bool(gran)),
        "t": int(t),
        "r": int(r),
        "rp": rp,
        "wp": wp,
        "f5": bool(gran and r and n >= 2),  # read_on_resp tracking ignores the write mask (candidate defect F5)
    }
    if memory_type != "Memory":
        d["memory_type"] = memory_type
    return d


def _cfg(d: dict) -> str:
    return f"cfg depth={d['depth']} gran={d['gran']} g={d['g']} n={d['n']} t={d['t']} r={d['r']} rp={d['rp']}"


def gen_ops(rng, d: dict, cycles: int, pq: float, ps: float, pw: float, distinct=True, hot=True, oor=False) -> list[str]:
    depth, g, n = d["depth"], d["g"], d["n"]
    amax = 1 << max(0, (depth - 1).bit_length())  # representable addresses
    width = g * n
    # requests stay below depth (an ideal memory has no row for an address >= depth; `oor` streams exercise those
    # addresses for model/implementation agreement only)
    rpool = list(range(amax if oor else depth))
    wpool = list(range(amax))
    if hot and len(rpool) > 2:
        hotset = rng.sample(rpool, 2)
        rpool = hotset
        wpool = hotset + [rng.choice(wpool)]
    ops = []
    burst = 0
    for _ in range(cycles):
        # bursts of requests without responses fill the overflow buffer; otherwise steady streaming
        if burst == 0 and rng.random() < 0.1:
            burst = rng.choice([2, 3, 4])
        stall = burst > 0
        burst = max(0, burst - 1)
        qs = [rng.choice(rpool) if rng.random() < pq else None for _ in range(d["rp"])]
        ss = [(rng.random() < (ps * 0.2 if stall else ps)) for _ in range(d["rp"])]
        ws = []
        used = set()
        for _j in range(d["wp"]):
            if rng.random() >= pw:
                ws.append(None)
                continue
            free = [x for x in wpool if x not in used] if distinct else wpool
            if not free:
                ws.append(None)
                continue
            a = rng.choice(free)
            used.add(a)
            data = rng.choice([rng.getrandbits(width), (1 << width) - 1, rng.getrandbits(width)])
            mask = 1 if not d["gran"] else rng.choice([rng.getrandbits(n), (1 << n) - 1, rng.getrandbits(n), 1 << rng.randrange(n)])
            ws.append((a, data, mask))
        ops.append(fmt_op(qs, ss, ws))
    return ops


SHAPES = [(8, 1, 0), (1, 1, 0), (4, 2, 1), (1, 4, 1), (3, 3, 1), (8, 1, 1), (33, 1, 0), (2, 5, 1), (5, 1, 1)]
REGIMES = [(0.9, 0.9, 0.6), (0.9, 0.3, 0.8), (0.4, 0.9, 0.5), (1.0, 1.0, 1.0), (0.7, 0.5, 0.3)]


def configs(ctx: Check) -> list[dict]:
    rng = ctx.rng("cfg")
    out = []
    depths = ctx.pick([1, 2, 3, 4, 5, 7, 8, 9], list(range(1, 18)) + [31, 32, 33])
    ports = [(1, 1), (2, 2), (3, 1), (1, 3), (3, 3), (2, 1), (1, 2), (2, 3)]
    # every mode x (granular or not) x a spread of depths/ports
    modes = [(t, r) for t in (0, 1) for r in (0, 1)]
    reps = ctx.pick(1, 3)
    for _ in range(reps):
        for t, r in modes:
            for gran in (0, 1):
                for _k in range(ctx.pick(3, 4)):
                    g, n, gr = rng.choice([s for s in SHAPES if s[2] == gran])
                    rp, wp = rng.choice(ports)
                    out.append(_desc(rng.choice(depths), g, n, gr, t, r, rp, wp))
    # smallest and a wide one in every mode
    for t, r in modes:
        out.append(_desc(1, 1, 1, 0, t, r, 1, 1))
        out.append(_desc(2, 1, 2, 1, t, r, 1, 1))
        out.append(_desc(6, 16, 2, 1, t, r, 2, 2))
    return out


def directed(d: dict) -> list[str]:
    """fill both response slots, write to the pending addresses while they wait, drain; then steady streaming with
    a write to the requested row in the request cycle and in the response cycle"""
    rp, wp = d["rp"], d["wp"]
    width = d["g"] * d["n"]
    full = (1 << d["n"]) - 1 if d["gran"] else 1
    part = (1 << (d["n"] - 1)) if d["gran"] else 1
    a0, a1 = 0, min(1, d["depth"] - 1)
    W = lambda a, v, m: [(a, v & ((1 << width) - 1), m)] + [None] * (wp - 1)  # noqa: E731
    N = [None] * wp
    ops = [
        fmt_op([None] * rp, [False] * rp, W(a0, 0xA5A5A5A5A5, full)),
        fmt_op([None] * rp, [False] * rp, W(a1, 0x3C3C3C3C3C, full)),
        fmt_op([a0] * rp, [True] * rp, W(a0, 0x1111111111, full)),  # request + write the same row
        fmt_op([a1] * rp, [False] * rp, N),  # second request: the first moves to the overflow buffer
        fmt_op([a0] * rp, [False] * rp, W(a0, 0x7777777777, part)),  # blocked request; partial write to a pending row
        fmt_op([None] * rp, [False] * rp, W(a1, 0x0F0F0F0F0F, part)),
        fmt_op([None] * rp, [True] * rp, W(a0, 0x5555555555, full)),  # response + write the same row
        fmt_op([a0] * rp, [True] * rp, W(a1, 0x6666666666, full)),
        fmt_op([a1] * rp, [True] * rp, W(a1, 0x2222222222, part)),
        fmt_op([None] * rp, [True] * rp, N),
        fmt_op([None] * rp, [True] * rp, N),
    ]
    return ops


def f5_witness() -> Case:
    """F5: read_on_resp with granularity; the response-time tracking of a pending response in the overflow buffer
    ignores the write mask (storage.py:126-146: select = en[0] & address match, data = the whole write word)."""
    d = _desc(4, 4, 2, 1, 0, 1, 1, 1)
    ops = [
        "cyc q=- s=0 w=1:171:3",
        "cyc q=1 s=0 w=-",
        "cyc q=2 s=0 w=-",
        "cyc q=- s=0 w=1:205:2",
        "cyc q=- s=1 w=-",
    ]
    return Case(_cfg(d), ops, d, "witness")


def gen_cases(ctx: Check):
    rng = ctx.rng("gen")
    cases = []
    cyc = ctx.pick(70, 800)
    f5_on = ctx.is_known({"component": "MemoryBank", "f5": True})
    for d in configs(ctx):
        cfg = _cfg(d)
        tag_extra = "f5-region" if (d["f5"] and not f5_on) else None
        cases.append(Case(cfg, directed(d), d, tag_extra or "directed"))
        if d["f5"] and f5_on:
            # failures and divergences of cases whose descriptor matches the open finding are suppressed; keep the
            # model-vs-implementation agreement in that region checked through an unmonitored copy of the directed case
            d2 = dict(d, f5=False, f5_region_agreement_only=True)
            cases.append(Case(cfg, directed(d) + gen_ops(rng, d, 40, 0.8, 0.5, 0.8), d2, "f5-region"))
        regs = rng.sample(REGIMES, ctx.pick(2, 5))
        for pq, ps, pw in regs:
            cases.append(Case(cfg, gen_ops(rng, d, cyc, pq, ps, pw, hot=rng.random() < 0.7), d, tag_extra or "random"))
        if d["wp"] > 1 and rng.random() < 0.5:
            cases.append(Case(cfg, gen_ops(rng, d, cyc // 2, 0.8, 0.6, 0.9, distinct=False), d, "malformed"))
        if d["depth"] & (d["depth"] - 1) and rng.random() < 0.7:
            cases.append(Case(cfg, gen_ops(rng, d, cyc // 2, 0.8, 0.6, 0.9, oor=True, hot=False), d, "oor"))
    # other memory_type values (their own refinement is C23's subject; here the bank on top of them must still be
    # the ideal memory + queues): 2 and 3 write ports, no granularity, power-of-two depth (all addresses are rows),
    # the four modes sampled; histories write through every port - the highest-index one in particular - and read
    # the row back
    mts = ["MultiReadMemory", "MultiportXORMemory", "MultiportXORILVTMemory", "MultiportOneHotILVTMemory"]
    modes = [(0, 0), (1, 0), (0, 1), (1, 1)]
    for mi, mt in enumerate(mts):
        for wp in ((1,) if mt == "MultiReadMemory" else (2, 3)):
            for t, r in (modes if ctx.thorough else [modes[(mi + wp) % 4], modes[(mi + wp + 2) % 4]]):
                # address width > number of write ports (one-hot ILVT bypass compares whole addresses)
                depth = {1: rng.choice([4, 8]), 2: rng.choice([8, 16]), 3: 16}[wp]
                d = _desc(depth, 8, 1, 0, t, r, rng.choice([1, 2]), wp, memory_type=mt)
                ops = []
                # aliasing rows: row A = B + 2**wp written through port p; later row B (same low address bits)
                # through another port q in cycle t; read_req of A in cycle t+1, response after it
                if wp >= 2:
                    idle = fmt_op([None] * d["rp"], [True] * d["rp"], [None] * wp)
                    for p_ in range(wp):
                        q_ = (p_ + 1) % wp
                        B = p_ + 1 if p_ + 1 < (1 << wp) else p_  # B below 2**wp, A = B + 2**wp: the same low bits
                        A = B + (1 << wp)
                        ops.append(fmt_op([None] * d["rp"], [False] * d["rp"], [(A, 0xC1 + p_, 1) if k == p_ else None for k in range(wp)]))
                        ops += [idle, idle]
                        ops.append(fmt_op([None] * d["rp"], [False] * d["rp"], [(B, 0x3E - p_, 1) if k == q_ else None for k in range(wp)]))
                        ops.append(fmt_op([A] * d["rp"], [False] * d["rp"], [None] * wp))
                        ops += [idle, idle]
                        ops.append(fmt_op([B] * d["rp"], [False] * d["rp"], [None] * wp))
                        ops += [idle, idle]
                for j in range(wp):  # write row j+1 through port j alone, then read every written row back
                    ops.append(fmt_op([None] * d["rp"], [False] * d["rp"], [(j + 1, 0x51 + 0x11 * j, 1) if k == j else None for k in range(wp)]))
                for rnd in range(2):
                    for j in range(wp):
                        ops.append(fmt_op([j + 1] * d["rp"], [True] * d["rp"], [None] * wp))
                    ops.append(fmt_op([None] * d["rp"], [True] * d["rp"], [((j + 1) % wp + 1, 0xA0 + j + rnd, 1) for j in range(wp)]))
                ops += [fmt_op([None] * d["rp"], [True] * d["rp"], [None] * wp)] * 2
                ops += gen_ops(rng, d, ctx.pick(60, 600), 0.8, 0.7, 0.6, hot=True)
                cases.append(Case(_cfg(d), ops, d, "multiport"))
    # other constructors of the default Amaranth memory (functools.partial, subclass, wrapper function)
    from ..memtypes_b5 import ALIASES

    for k, mt in enumerate(ALIASES):
        t, r = modes[(k + ctx.seed) % 4]
        g, n, gr = [(8, 1, 0), (4, 2, 1), (8, 1, 0)][k] if not r else (8, 1, 0)
        d = _desc(rng.choice([3, 4, 8]), g, n, gr, t, r, 1 + k % 2, 1 + (k + 1) % 2, memory_type=mt)
        cases.append(Case(_cfg(d), directed(d) + gen_ops(rng, d, cyc, 0.8, 0.6, 0.6, hot=True), d, "memory-type"))
    # granularity together with the non-default memory_type value that supports it: MultiReadMemory (1 write port).
    # MultiportXORMemory rejects granularity (ValueError); the ILVT classes with granularity are the open C23
    # finding F9 (a partial write redirects the whole row) and are not generated here; read_on_resp with >= 2 chunks is F5 (those
    # descriptors carry f5=true and are handled exactly like the default-memory F5 region).  Directed prefix: full
    # write, a partial write with enable bit 0 clear, one with only bit 0 set, each read back; then random masks.
    gshapes = [(4, 3), (4, 2), (2, 4)]
    gi = 0
    for mt, wp in (("MultiReadMemory", 1), ("MultiReadMemory", 1)):
        gmodes = [(0, 0, None), (1, 0, None), (0, 1, (8, 1)), (1, 1, (8, 1))]  # with read_on_resp: one chunk per word
        for t, r, shp in (gmodes if ctx.thorough else [gmodes[gi % 2], gmodes[(gi + 1) % 2], gmodes[2 + gi % 2]]):
            g, n = shp or gshapes[gi % len(gshapes)]
            gi += 1
            d = _desc(rng.choice([4, 8]), g, n, 1, t, r, rng.choice([1, 2]), wp, memory_type=mt)
            rp, width, full = d["rp"], g * n, (1 << n) - 1
            W = lambda a, v, m: [(a, v & ((1 << width) - 1), m)] + [None] * (wp - 1)  # noqa: E731
            ops = [fmt_op([None] * rp, [False] * rp, W(1, 0xABC, full))]
            for mask, v in ((1 << (n - 1), 0x555), (1, 0xFFF), (full & ~1, 0x000), (1, 0x123)):
                ops.append(fmt_op([None] * rp, [False] * rp, W(1, v, mask)))
                ops.append(fmt_op([1] * rp, [False] * rp, [None] * wp))
                ops.append(fmt_op([None] * rp, [True] * rp, [None] * wp))
                ops.append(fmt_op([None] * rp, [True] * rp, [None] * wp))
            ops += gen_ops(rng, d, ctx.pick(60, 600), 0.8, 0.7, 0.7, hot=True)
            cases.append(Case(_cfg(d), ops, d, "multiport-granular"))
    # two callers per method: an exclusive method serves at most one of them per cycle; the union of the executed
    # calls is the single-caller history the property (and the model) talks about
    for k, (t, r) in enumerate(modes):
        g, n, gr = [(8, 1, 0), (4, 2, 1)][k % 2] if not r else (8, 1, 0)
        d = dict(_desc(rng.choice([2, 4, 5]), g, n, gr, t, r, 1 + k % 2, 1 + (k + 1) % 2), callers=2)
        prio = _sim(d).prio
        for pq, ps, pw in (REGIMES[0], REGIMES[1]):
            eff = gen_ops(rng, d, cyc, pq, ps, pw, hot=True)
            cases.append(Case(_cfg(d), [two_line(rng, ln, d, prio) for ln in eff], d, "two-callers"))
    if ctx.thorough:
        # all histories of length <= 4 of a 2-row, 1-bit, 1r1w bank in every mode
        for t in (0, 1):
            for r in (0, 1):
                d = _desc(2, 1, 1, 0, t, r, 1, 1)
                alpha = [fmt_op([q], [s], [w]) for q in (None, 0, 1) for s in (False, True) for w in (None, (0, 0, 1), (0, 1, 1), (1, 1, 1))]
                for L in (1, 2, 3):
                    for seq in itertools.product(alpha, repeat=L):
                        cases.append(Case(_cfg(d), list(seq), d, "exhaustive"))
                rr = ctx.rng(f"ex4-{t}{r}")
                for _ in range(10000):
                    cases.append(Case(_cfg(d), [rr.choice(alpha) for _ in range(5)], d, "exhaustive-sample"))
    return cases


def _corpus() -> list[Case]:
    """directed cases and minimised past failures (mutation runs), run first on every invocation"""
    out = []
    for f in sorted((CORPUS / "C21").glob("*.json")):
        body = json.loads(f.read_text())
        out.append(Case(body["cfg"], list(body["ops"]), body["desc"], "corpus"))
    return out


def more_cases(case: Case, rng):
    d = case.desc
    for _ in range(40):
        pq, ps, pw = rng.choice(REGIMES)
        ops = gen_ops(rng, d, 200, pq, ps, pw, hot=rng.random() < 0.8)
        if d.get("callers") == 2:
            ops = [two_line(rng, ln, d, _sim(d).prio) for ln in ops]
        yield Case(case.cfg, ops, d, "search")


def nontrivial(case: Case, out: list[str]) -> bool:
    """the overflow buffer was used (read_req not ready at some point) and a write addressed a row with a pending
    response"""
    rp = case.desc["rp"]
    pending: list[list[int]] = [[] for _ in range(rp)]
    full = hit = False
    for line, o in zip(case.ops, out[1:]):
        qs, ss, ws = parse_op(line)
        f = dict(x.split("=") for x in o.split())
        got_q, got_s, rdy = f["q"].split(","), f["s"].split(","), f["rdy"].split(",")
        wa = {x[0] for x in ws if x is not None}
        for i in range(rp):
            full = full or rdy[i][0] == "0"
            hit = hit or any(a in wa for a in pending[i])
            if got_s[i] != "-" and pending[i]:
                pending[i].pop(0)
            if got_q[i] == "1":
                pending[i].append(qs[i])
    return full and hit


def replay_witness(w: dict):
    case = Case(w["cfg"], list(w["ops"]), w.get("desc", {}), "witness")
    return monitor(case, impl(case))


def run(ctx: Check):
    ctx.rule = (
        "cases = (depth, chunk width g, chunks n, granularity, transparent, read_on_resp, read ports, write ports; "
        "history of attempted read_req/read_resp/write calls with pairwise distinct write rows per cycle, request "
        "bursts and response stalls); non-trivial = the overflow buffer was used and a write addressed a row with a "
        "pending response"
    )
    ctx.proof_stage()
    ctx.replay_findings(replay_witness)
    cases = _corpus() + gen_cases(ctx)
    for c in cases:
        ctx.count(f"mode_t{c.desc['t']}r{c.desc['r']}{'_gran' if c.desc['gran'] else ''}")
    # one batch; cases tagged malformed (same-row writes), oor (request addresses >= depth) and f5-region
    # (read_on_resp with >= 2 chunks, candidate defect F5) are compared model-vs-implementation only
    lockstep(ctx, "memorybank", "C21", cases, impl, _monitor, more_cases, nontrivial, procs=ctx.pick(1, None))
    # the F5 witness: reported in the evidence, not as a violation (candidate defect, see findings_proposed.txt)
    w = f5_witness()
    fail = monitor(w, impl(w))
    ctx.extra_coverage["f5_witness"] = {"cfg": w.cfg, "ops": w.ops, "still_fails": bool(fail), "what": fail}
    ctx.note(
        "read_on_resp together with granularity >= 2 chunks (candidate defect F5) is excluded from monitored "
        "generation; that region is compared model-vs-implementation only and its witness is re-run every time: "
        + ("still fails: " + fail if fail else "no longer fails")
    )
    ctx.note("same-row simultaneous writes and request addresses >= depth are outside the hypotheses: model-vs-implementation agreement only")


def replay(ctx: Check, body: dict):
    from ..lockstep import replay_case

    return replay_case(body, impl, monitor)
