"""C30 — InputSampler and OutputBuffer follow their trigger (transactron/lib/basicio.py)."""

from __future__ import annotations

import itertools

from ..common import Check
from ..lockstep import Case, lockstep, replay_case
from ..simrun import CompSim

META = {
    "id": "C30",
    "design_ref": "DESIGN.md §7 C30",
    "technique": "Lean 4 theorems over a hand-written step model of BasicIOBase._trigger, InputSampler and OutputBuffer "
    "(register invariant by induction over the cycle number, finite table of the eight settings by cases); "
    "lock-step correspondence of the model with the real components in pysim, trigger/data driven as plain wires",
    "level_text": "c30_get_ready/c30_put_ready (ready and executed bits = level/edge predicate on the optionally delayed "
    "trigger history, pre-reset trigger 0), c30_table (predicate written out for all eight settings), c30_get_data, "
    "c30_put_next_cycle/c30_put_initial, c30_run are proved for every history, every cycle and all eight configurations; "
    "the model is tied to the code by cycle-exact comparison of ready, done, returned data and the data port for all "
    "eight settings x both components x several layouts (incl. the zero-width layout) over directed and random histories "
    "(thorough: every trigger history up to length 7)",
    "level_note": "trusted: Lean kernel, axioms propext/Quot.sound; Amaranth semantics and pysim; the harness glue. "
    "Data is the flattened layout value (layout handling is C40/C41). OutputBuffer declares its `data` port with "
    "direction In (basicio.py:197 passes direction=False) although it drives it; this does not affect the property.",
}

LAYOUTS = {
    "w0": [],  # zero-width layout: pure-event use (docs/_code/rpn.py: InputSampler([], synchronize=True, ...))
    "w1": [("d", 1)],
    "w5": [("d", 5)],
    "a3b2": [("a", 3), ("b", 2)],
    "w8": [("d", 8)],
}
WIDTH = {"w0": 0, "w1": 1, "w5": 5, "a3b2": 5, "w8": 8}

_sims: dict[tuple, CompSim] = {}


def _sim(comp: str, edge: int, pol: int, sync: int, lay: str) -> CompSim:
    key = (comp, edge, pol, sync, lay)
    if key not in _sims:
        from transactron.lib.basicio import InputSampler, OutputBuffer

        cls = InputSampler if comp == "in" else OutputBuffer
        _sims[key] = CompSim(lambda: cls(LAYOUTS[lay], edge=bool(edge), polarity=bool(pol), synchronize=bool(sync)))
    return _sims[key]


def _parse(op: str) -> dict:
    return dict(x.split("=") for x in op.split()[1:])


def impl(case: Case) -> list[str]:
    d = case.desc
    sim = _sim(d["comp"], d["edge"], d["pol"], d["sync"], d["layout"])
    dut = sim.dut
    ins = [_parse(o) for o in case.ops]
    out = ["ok"]
    if d["comp"] == "in":

        def pre(ctx, k):
            ctx.set(dut.trigger, int(ins[k]["t"]))
            ctx.set(dut.data.as_value(), int(ins[k]["d"]))

        tr = sim.run([{"get": 0 if i["g"] == "1" else None} for i in ins], extra=lambda x: [x.get.ready], pre_cycle=pre)
        for r in tr:
            g = r[("get",)]
            out.append(f"rdy={r['_extra'][0]} g={'-' if g is None else g}")
    else:

        def pre(ctx, k):
            ctx.set(dut.trigger, int(ins[k]["t"]))

        tr = sim.run(
            [{"put": None if i["p"] == "-" else int(i["p"])} for i in ins],
            extra=lambda x: [x.put.ready, x.data],
            pre_cycle=pre,
        )
        for r in tr:
            out.append(f"rdy={r['_extra'][0]} p={0 if r[('put',)] is None else 1} data={r['_extra'][1]}")
    return out


def monitor(case: Case, out: list[str]):
    """The property sentence on the implementation's observations: ready(t) is the level/edge predicate on
    the (optionally one cycle delayed) trigger history, get returns the (delayed) data, put shows on `data`
    from the next cycle."""
    d = case.desc
    ins = [_parse(o) for o in case.ops]
    obs = [dict(x.split("=") for x in o.split()) for o in out[1:]]
    trig = [int(i["t"]) for i in ins]
    pol = d["pol"]

    def at(hist, t):  # history with pre-reset value 0
        return hist[t] if t >= 0 else 0

    def eff(t):
        return at(trig, t - 1) if d["sync"] else at(trig, t)

    last_put = 0
    for t, (i, o) in enumerate(zip(ins, obs)):
        if d["edge"]:
            want = int(eff(t) == pol and eff(t - 1) != pol)
        else:
            want = int(eff(t) == pol)
        if int(o["rdy"]) != want:
            return f"cycle {t}: ready={o['rdy']} but trigger predicate={want} (edge={d['edge']} pol={pol} sync={d['sync']}, trigger history {trig[: t + 1]})"
        if d["comp"] == "in":
            executed = o["g"] != "-"
            if executed != (i["g"] == "1" and want == 1):
                return f"cycle {t}: get attempted={i['g']} executed={int(executed)} ready={want}"
            if executed:
                data = [int(x["d"]) for x in ins]
                exp = at(data, t - 1) if d["sync"] else data[t]
                if int(o["g"]) != exp:
                    return f"cycle {t}: get returned {o['g']}, expected {'previous-cycle' if d['sync'] else 'current'} data {exp}"
        else:
            executed = o["p"] == "1"
            if executed != (i["p"] != "-" and want == 1):
                return f"cycle {t}: put attempted={i['p']} executed={o['p']} ready={want}"
            if int(o["data"]) != last_put:
                return f"cycle {t}: data port={o['data']} but last executed put argument={last_put}"
            if executed:
                last_put = int(i["p"])
    return None


def _mk(comp, edge, pol, sync, lay, trig, rng, pcall, tag) -> Case:
    w = WIDTH[lay]
    ops = []
    for t in trig:
        if comp == "in":
            ops.append(f"cyc t={t} d={rng.randrange(1 << w)} g={int(rng.random() < pcall)}")
        else:
            ops.append(f"cyc t={t} p={rng.randrange(1 << w) if rng.random() < pcall else '-'}")
    return Case(
        f"cfg comp={comp} edge={edge} pol={pol} sync={sync}",
        ops,
        {"component": "InputSampler" if comp == "in" else "OutputBuffer", "comp": comp, "edge": edge, "pol": pol, "sync": sync, "layout": lay},
        tag,
    )


def _trig_patterns(rng, n):
    yield [0] * 6
    yield [1] * 6
    yield [1, 0] * 6  # edge relative to the pre-reset value in the very first cycle
    yield [0, 1] * 6
    yield [1, 1, 0, 0, 1, 0, 0, 0, 1, 1, 1, 0]
    for p in (0.5, 0.15, 0.85):
        yield [int(rng.random() < p) for _ in range(n)]


def gen_cases(ctx: Check) -> list[Case]:
    rng = ctx.rng("gen")
    cases = []
    lays = ctx.pick(["w0", "w1", "a3b2", "w8"], ["w0", "w1", "w5", "a3b2", "w8"])
    n = ctx.pick(120, 600)
    for comp, edge, pol, sync in itertools.product(("in", "out"), (0, 1), (0, 1), (0, 1)):
        for lay in lays:
            for k, trig in enumerate(_trig_patterns(rng, n)):
                pcall = 1.0 if k % 2 == 0 else 0.6
                cases.append(_mk(comp, edge, pol, sync, lay, trig, rng, pcall, "directed" if k < 5 else "random"))
    if ctx.thorough:
        for comp, edge, pol, sync in itertools.product(("in", "out"), (0, 1), (0, 1), (0, 1)):
            for L in range(1, 8):
                for trig in itertools.product((0, 1), repeat=L):
                    cases.append(_mk(comp, edge, pol, sync, "w5", list(trig), rng, 1.0, "exhaustive"))
    return cases


def more_cases(case: Case, rng):
    d = case.desc
    for _ in range(30):
        p = rng.choice([0.5, 0.2, 0.8])
        yield _mk(d["comp"], d["edge"], d["pol"], d["sync"], d["layout"], [int(rng.random() < p) for _ in range(60)], rng, 0.8, "search")


def nontrivial(case: Case, out: list[str]) -> bool:
    rd = [o.split()[0] for o in out[1:]]
    if not ("rdy=1" in rd and "rdy=0" in rd):
        return False
    if case.desc["comp"] == "in":
        return any("g=-" not in o for o in out[1:])
    return any(" p=1 " in o for o in out[1:])


def run(ctx: Check):
    ctx.rule = (
        "cases = (component, edge, polarity, synchronize, layout, history of trigger/data/call attempts); "
        "non-trivial = history in which ready is both 1 and 0 and the method executes at least once"
    )
    ctx.proof_stage()
    cases = gen_cases(ctx)
    ctx.count("configurations", len({(c.desc["comp"], c.desc["edge"], c.desc["pol"], c.desc["sync"], c.desc["layout"]) for c in cases}))
    ctx.count("cycles", sum(len(c.ops) for c in cases))
    if ctx.thorough:
        ctx.note("exhaustive part: every trigger history of length 1..7 for all 16 component/setting pairs (call attempted every cycle)")
    lockstep(ctx, "basicio", "C30", cases, impl, monitor, more_cases, nontrivial, procs=1 if ctx.quick else None)


def replay(ctx: Check, body: dict):
    return replay_case(body, impl, monitor)
