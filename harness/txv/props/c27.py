"""C27 — CircularAllocator hands out identifiers in ring order
(transactron/lib/allocators.py:178-334, transactron/utils/amaranth_ext/functions.py:58-68)."""

from __future__ import annotations

import itertools

from ..common import Check
from ..lockstep import Case, lockstep
from ..simrun import CompSim

META = {
    "id": "C27",
    "design_ref": "DESIGN.md §7 C27",
    "technique": "Lean 4 theorems over a hand-written step model of CircularAllocator and mod_add (invariant, "
    "refinement to a queue of identifiers, history induction); lock-step correspondence of the model with the "
    "real component in pysim",
    "level_text": "c27_inv/c27_alloc/c27_alloc_fresh/c27_free/c27_refines/c27_count/c27_history/c27_validated_safe/c27_accept are proved for every "
    "(entries>=1, max_alloc, max_free, with_validate_arguments) and every call history whose counts stay within "
    "range(max+1) (and, without validation, within the free/allocated amount); the model is tied to the code by "
    "cycle-exact comparison of done bits, returned identifiers, new pointers, ready bits and the three registers "
    "over entries 1..9,16,17 x several (max_alloc,max_free) incl. max>entries x validation on/off, random and "
    "directed histories, a malformed stream (out-of-range counts, no validation), thorough: all histories up to "
    "length 3 on the smallest configurations and exhaustive single steps from every register valuation",
    "level_note": "trusted: Lean kernel, axioms propext/Quot.sound/Classical.choice; Amaranth semantics and pysim; "
    "the harness glue. Environment hypothesis of the theorems: count <= max_alloc/max_free (the declared argument "
    "range; a larger count that still fits the argument signal can corrupt end_idx when entries is not a power "
    "of two - outside the property, exercised only for model/implementation agreement).",
}

_sims: dict[tuple, CompSim] = {}


def _sim(n: int, ma: int, mf: int, val: int) -> CompSim:
    k = (n, ma, mf, val)
    if k not in _sims:
        from transactron.lib.allocators import CircularAllocator

        _sims[k] = CompSim(lambda: CircularAllocator(n, ma, mf, with_validate_arguments=bool(val)))
    return _sims[k]


def _kv(line: str) -> dict:
    return dict(x.split("=") for x in line.split()[1:])


def _opt(v: str):
    return None if v == "-" else int(v)


def _decode(word, k: int, idw: int) -> str:
    if word is None:
        return "-"
    mask = (1 << idw) - 1
    ids = [(word >> (i * idw)) & mask for i in range(k)]
    nxt = (word >> (k * idw)) & mask
    return f"{','.join(map(str, ids)) if ids else '-'}/{nxt}"


def impl(case: Case) -> list[str]:
    d = case.desc
    n, ma, mf, val = d["n"], d["ma"], d["mf"], d["val"]
    sim = _sim(n, ma, mf, val)
    idw = (n - 1).bit_length()
    ops = []
    for line in case.ops:
        o = _kv(line)
        ops.append({"alloc": _opt(o["a"]), "free": _opt(o["f"]), "clear": 0 if o["c"] == "1" else None})
    preset = d.get("preset")

    def setup(ctx):
        dut = sim.dut
        ctx.set(dut.start_idx, preset[0])
        ctx.set(dut.end_idx, preset[1])
        ctx.set(dut.allocated, preset[2])

    tr = sim.run(
        ops,
        extra=lambda dut: [dut.start_idx, dut.end_idx, dut.allocated, dut.alloc.ready, dut.free.ready],
        setup=setup if preset else None,
    )
    out = ["ok"]
    for r in tr:
        e = r["_extra"]
        out.append(
            f"a={_decode(r[('alloc',)], ma, idw)} f={_decode(r[('free',)], mf, idw)} "
            f"c={0 if r[('clear',)] is None else 1} s={e[0]} e={e[1]} cnt={e[2]} rdy={e[3]}{e[4]}"
        )
    return out


def _res(v: str):
    if v == "-":
        return None
    ids, nxt = v.split("/")
    return ([] if ids == "-" else [int(x) for x in ids.split(",")]), int(nxt)


def monitor(case: Case, out: list[str]):
    """The property sentence on the implementation's observations only (reference: a Python list of the
    allocated identifiers, oldest first, and the ring position of the next identifier).  Returns None as
    soon as the history leaves the environment hypotheses (count outside range(max+1); without
    validation: count beyond the free/allocated amount)."""
    d = case.desc
    n, ma, mf, val = d["n"], d["ma"], d["mf"], d["val"]
    if d.get("preset"):
        return None
    q: list[int] = []  # allocated identifiers, oldest first
    nxt = 0  # identifier right after the newest allocated one
    for k, (op, o) in enumerate(zip(case.ops, out[1:])):
        i = _kv(op)
        f = _kv("x " + o)
        ac, fc = _opt(i["a"]), _opt(i["f"])
        if ((ac is not None and ac > ma) or (fc is not None and fc > mf)) and not d.get("strict"):
            return None  # outside the declared argument range (judged only for finding witnesses, desc.strict)
        ra, rf = _res(f["a"]), _res(f["f"])
        cnt = int(f["cnt"])
        oldest = (nxt - len(q)) % n
        if cnt != len(q):
            return f"cycle {k}: allocated={cnt} but {len(q)} identifiers are allocated ({q})"
        if int(f["s"]) != oldest or int(f["e"]) != nxt:
            return f"cycle {k}: start_idx={f['s']} end_idx={f['e']} but oldest={oldest} next={nxt} (allocated {q})"
        if f["rdy"] != f"{int(len(q) != n)}{int(len(q) != 0)}":
            return f"cycle {k}: ready bits {f['rdy']} with {len(q)} of {n} allocated"
        if (f["c"] == "1") != (i["c"] == "1"):
            return f"cycle {k}: clear attempted={i['c']} executed={f['c']}"
        # ---- acceptance
        a_over = ac is not None and len(q) + ac > n
        f_under = fc is not None and fc > len(q)
        if ra is not None and a_over:
            if val:
                return f"cycle {k}: alloc({ac}) accepted with {len(q)} of {n} allocated (overflow) despite validation"
            return None  # caller's obligation without validation
        if rf is not None and f_under:
            if val:
                return f"cycle {k}: free({fc}) accepted with {len(q)} allocated (underflow) despite validation"
            return None
        a_exp = ac is not None and len(q) != n and not (val and ma > 1 and a_over)
        f_exp = fc is not None and len(q) != 0 and not (val and mf > 1 and f_under)
        if (ra is not None) != a_exp:
            return f"cycle {k}: alloc({ac}) executed={ra is not None} with {len(q)} of {n} allocated"
        if (rf is not None) != f_exp:
            return f"cycle {k}: free({fc}) executed={rf is not None} with {len(q)} allocated"
        # ---- results
        newq = list(q)
        if rf is not None:
            ids, ns = rf
            if ids[:fc] != q[:fc][:mf]:
                return f"cycle {k}: free({fc}) returned {ids[:fc]} but the {fc} oldest allocated are {q[:fc]}"
            if ns != (oldest + fc) % n:
                return f"cycle {k}: free({fc}) new_start_idx={ns}, expected {(oldest + fc) % n}"
            newq = newq[fc:]
        if ra is not None:
            ids, ne = ra
            want = [(nxt + j) % n for j in range(ac)]
            if ids[:ac] != want[:ma]:
                return f"cycle {k}: alloc({ac}) returned {ids[:ac]} but the identifiers after the newest one are {want}"
            if ne != (nxt + ac) % n:
                return f"cycle {k}: alloc({ac}) new_end_idx={ne}, expected {(nxt + ac) % n}"
            if set(want) & set(q):
                return f"cycle {k}: alloc({ac}) returned {want}, of which {sorted(set(want) & set(q))} are still allocated"
            newq = newq + want
            nxt = (nxt + ac) % n
        q = newq
        if f["c"] == "1":
            q, nxt = [], 0
    return None


# ------------------------------------------------------------------ generators
def _corpus() -> list[Case]:
    """directed cases and minimised past failures kept under corpus/C27 (run first, monitored)"""
    import json

    from ..common import CORPUS

    out = []
    for path in sorted((CORPUS / "C27").glob("*.json")):
        b = json.loads(path.read_text())
        out.append(Case(b["cfg"], list(b["ops"]), b.get("desc", {}), "corpus"))
    return out


def _mk(n, ma, mf, val, ops, tag, preset=None) -> Case:
    cfg = f"cfg n={n} ma={ma} mf={mf} val={val}"
    if preset:
        cfg += f" s={preset[0]} e={preset[1]} cnt={preset[2]}"
    fmt = lambda v: "-" if v is None else str(v)  # noqa: E731
    desc = {"component": "CircularAllocator", "n": n, "ma": ma, "mf": mf, "val": val}
    if preset:
        desc["preset"] = list(preset)
    return Case(cfg, [f"cyc a={fmt(a)} f={fmt(f)} c={c}" for a, f, c in ops], desc, tag)


def _valid_stream(rng, n, ma, mf, val, length, pa, pf, pc, pbad):
    """Attempted calls within the environment hypotheses.  A reference count of allocated identifiers
    tells which counts are legal; with effective validation a fraction `pbad` of the calls asks for
    too much (they must be rejected)."""
    cnt = 0
    ops = []
    for _ in range(length):
        a = f = None
        a_run = f_run = False
        if rng.random() < pa:
            room = n - cnt
            if val and ma > 1 and rng.random() < pbad:
                a = rng.randint(0, ma)
            else:
                a = rng.randint(0, min(ma, room)) if rng.random() < 0.7 else min(ma, room)
            a_run = cnt != n and cnt + a <= n
        if rng.random() < pf:
            if val and mf > 1 and rng.random() < pbad:
                f = rng.randint(0, mf)
            else:
                f = rng.randint(0, min(mf, cnt)) if rng.random() < 0.7 else min(mf, cnt)
            f_run = cnt != 0 and f <= cnt
        c = int(rng.random() < pc)
        ops.append((a, f, c))
        cnt = cnt + (a if a_run else 0) - (f if f_run else 0)
        if c:
            cnt = 0
    return ops


def _directed(n, ma, mf, val):
    """fill in maximal steps, overfill attempts, drain in maximal steps (the pointers wrap), underflow
    attempts, steady state with simultaneous alloc+free at every pointer value, clear with everything."""
    ops = []
    cnt = 0

    def alloc_max():
        nonlocal cnt
        c = min(ma, n - cnt)
        ops.append((c, None, 0))
        cnt += c if cnt != n else 0

    def free_max():
        nonlocal cnt
        c = min(mf, cnt)
        ops.append((None, c, 0))
        cnt -= c if cnt != 0 else 0

    for _ in range(2):
        while cnt < n and ma > 0:
            alloc_max()
        if ma > 0:
            ops.append((min(ma, 1), None, 0))  # full: not ready
        if val and ma > 1:
            free_max()
            ops.append((ma, None, 0) if cnt + ma > n else (0, None, 0))  # must be rejected by validation
        while cnt > 0 and mf > 0:
            free_max()
        if mf > 0:
            ops.append((None, min(mf, 1), 0))  # empty: not ready
        if ma > 0:
            alloc_max()
        if val and mf > 1 and cnt < mf:
            ops.append((None, mf, 0))  # underflow attempt, rejected
    if ma > 0 and mf > 0:
        for _ in range(2 * n + 2):  # walk both pointers around the ring together
            a = min(ma, n - cnt)
            f = min(mf, cnt)
            ops.append((a, f, 0))
            cnt = cnt + (a if cnt != n else 0) - (f if cnt != 0 else 0)
    ops.append((min(ma, n - cnt), min(mf, cnt), 1))
    ops.append((min(ma, n), None, 0))
    ops.append((None, None, 1))
    ops.append((0, 0, 0))
    return ops


def _configs(ctx: Check, rng):
    ns = ctx.pick([1, 2, 3, 4, 5, 6, 7, 8, 9, 16, 17], list(range(1, 13)) + [16, 17, 31, 32, 33])
    out = []
    for n in ns:
        pairs = {(1, 1), (2, 2), (n, n), (n + 1, 2), (3, n + 2)}
        if ctx.thorough or n % 2:
            pairs.add((rng.randint(1, n + 1), rng.randint(1, n + 1)))
        if ctx.thorough:
            pairs |= {(0, 1), (1, 0), (2, 1), (4, 3), (2 * n + 1, 2 * n + 1)}
        elif n == 3:
            pairs |= {(0, 1), (1, 0)}
        for ma, mf in sorted(pairs):
            for val in (1, 0):
                out.append((n, ma, mf, val))
    return out


def gen_cases(ctx: Check) -> tuple[list[Case], list[Case]]:
    rng = ctx.rng("gen")
    valid, malformed = [], []
    length = ctx.pick(100, 300)
    for n, ma, mf, val in _configs(ctx, rng):
        valid.append(_mk(n, ma, mf, val, _directed(n, ma, mf, val), "directed"))
        regimes = [(0.9, 0.3, 0.01, 0.3), (0.3, 0.9, 0.01, 0.3), (0.8, 0.8, 0.03, 0.2), (1.0, 1.0, 0.0, 0.1)]
        for pa, pf, pc, pbad in ctx.pick(rng.sample(regimes, 2), regimes):
            valid.append(_mk(n, ma, mf, val, _valid_stream(rng, n, ma, mf, val, length, pa, pf, pc, pbad), "random"))
        # malformed: any count that fits the argument signal, validation or not (no property claim)
        wa, wf = ma.bit_length(), mf.bit_length()
        ops = [
            (
                rng.randrange(1 << wa) if rng.random() < 0.7 else None,
                rng.randrange(1 << wf) if rng.random() < 0.7 else None,
                int(rng.random() < 0.05),
            )
            for _ in range(length // 2)
        ]
        malformed.append(_mk(n, ma, mf, val, ops, "malformed"))
    return valid, malformed


def exhaustive_cases(ctx: Check) -> tuple[list[Case], list[Case]]:
    """thorough tier: every history of length <= 3 with in-range counts on the smallest configurations
    (monitored), and every single step from every register valuation with every argument that fits the
    signals (model/implementation agreement only)."""
    hist, single = [], []
    for n, ma, mf in [(1, 1, 1), (2, 1, 1), (3, 2, 2)]:
        for val in (1, 0):
            alph = [
                (a, f, c)
                for a in [None, *range(ma + 1)]
                for f in [None, *range(mf + 1)]
                for c in (0, 1)
            ]
            for L in (1, 2, 3):
                for seq in itertools.product(alph, repeat=L):
                    hist.append(_mk(n, ma, mf, val, list(seq), "exhaustive"))
    for n, ma, mf in [(1, 1, 1), (2, 2, 2), (3, 2, 2), (3, 4, 1), (5, 2, 1)]:
        idw, cw = (n - 1).bit_length(), n.bit_length()
        wa, wf = ma.bit_length(), mf.bit_length()
        for val in (1, 0):
            for s in range(1 << idw):
                for e in range(1 << idw):
                    for cnt in range(1 << cw):
                        ops = [
                            (a, f, c)
                            for a in [None, *range(1 << wa)]
                            for f in [None, *range(1 << wf)]
                            for c in (0, 1)
                        ]
                        # one case per state: each op is run as its own single step by presetting again
                        for op in ops:
                            single.append(_mk(n, ma, mf, val, [op, (None, None, 0)], "exhaustive-step", preset=(s, e, cnt)))
    return hist, single


def more_cases(case: Case, rng):
    d = case.desc
    n, ma, mf, val = d["n"], d["ma"], d["mf"], d["val"]
    yield _mk(n, ma, mf, val, _directed(n, ma, mf, val), "search")
    for _ in range(40):
        yield _mk(n, ma, mf, val, _valid_stream(rng, n, ma, mf, val, 200, rng.choice([0.3, 0.8, 1.0]), rng.choice([0.3, 0.8, 1.0]), 0.02, 0.2), "search")


def nontrivial(case: Case, out: list[str]) -> bool:
    """the end pointer wraps around and the allocator is seen both full and empty-after-use, or a call is
    rejected by validation, or alloc and free execute in the same cycle"""
    n = case.desc["n"]
    fs = [_kv("x " + o) for o in out[1:]]
    cnts = [int(f["cnt"]) for f in fs]
    es = [int(f["e"]) for f in fs]
    wrapped = any(b < a for a, b in zip(es, es[1:])) or n == 1
    both = any(f["a"] != "-" and f["f"] != "-" for f in fs)
    rejected = any(
        (_kv(op)["a"] != "-" and f["a"] == "-" and f["rdy"][0] == "1") or (_kv(op)["f"] != "-" and f["f"] == "-" and f["rdy"][1] == "1")
        for op, f in zip(case.ops, fs)
    )
    return (wrapped and n in cnts and 0 in cnts[1:]) or both or rejected


def run(ctx: Check):
    ctx.rule = (
        "cases = (entries, max_alloc, max_free, with_validate_arguments, history of attempted alloc(count)/"
        "free(count)/clear); non-trivial = the end pointer wraps and the allocator is seen full and empty again, "
        "or alloc and free execute in the same cycle, or a ready method rejects a call by validation"
    )
    ctx.proof_stage()
    ctx.replay_findings(replay_witness)
    procs = ctx.pick(1, 4)  # tiny cases: a large fork pool costs more than it saves
    valid, malformed = gen_cases(ctx)
    valid = _corpus() + valid
    lockstep(ctx, "circular-allocator", "C27", valid, impl, monitor, more_cases, nontrivial, procs=procs)
    lockstep(ctx, "circular-allocator-malformed", "C27", malformed, impl, None, None, nontrivial, procs=procs)
    two = gen_cases2(ctx)
    lockstep(ctx, "circular-allocator-two-callers", "C27", two, impl2, monitor2, more_cases2,
             lambda c, o: any("-" not in _kv(l)["a2"] or "-" not in _kv(l)["f2"] for l in c.ops), procs=1)
    ctx.count("configurations", len({(c.desc["n"], c.desc["ma"], c.desc["mf"], c.desc["val"]) for c in valid}))
    if ctx.thorough:
        hist, single = exhaustive_cases(ctx)
        lockstep(ctx, "circular-allocator", "C27", hist, impl, monitor, more_cases, nontrivial, procs=1)
        lockstep(ctx, "circular-allocator-single-step", "C27", single, impl, None, None, lambda c, o: True, procs=1)
        ctx.note("thorough: all histories of length<=3 with in-range counts for 3 smallest configurations x validation; "
                 "all single steps from all register valuations for 5 configurations x validation")
    ctx.note("count > max_alloc (fits the signal, outside range(max_alloc+1)) with non-power-of-two entries: validation "
             "accepts it when allocated+count<=entries but mod_add has no case for it, end_idx is wrong afterwards "
             "(entries=3,max_alloc=2: alloc(3) at end_idx=2 gives end_idx=1). Outside the property's hypotheses; "
             "covered by the malformed stream for model/implementation agreement only.")


# ------------------------------------------------------------------ two callers per method
_sims2: dict[tuple, tuple] = {}


def _sim2(n, ma, mf, val):
    """real allocator with alloc and free each called by two independent transactions; also the static priority
    among the two callers of each method, read off the real scheduler (both attempt while the method is ready)"""
    k = (n, ma, mf, val)
    if k not in _sims2:
        from transactron.lib.allocators import CircularAllocator

        from ..alloc2 import make_two

        def mk():
            d = CircularAllocator(n, ma, mf, with_validate_arguments=bool(val))
            return make_two(d, {"alloc": d.alloc, "free": d.free}, {"clear": d.clear})

        sim = CompSim(mk)
        tr = sim.run([{"alloc[0]": 1, "alloc[1]": 1}, {"free[0]": 1, "free[1]": 1}])
        pa = 1 if (tr[0][("alloc", 0)] is None and tr[0][("alloc", 1)] is not None) else 0
        pf = 1 if (tr[1][("free", 0)] is None and tr[1][("free", 1)] is not None) else 0
        _sims2[k] = (sim, [pa, 1 - pa], [pf, 1 - pf])
    return _sims2[k]


def impl2(case: Case) -> list[str]:
    """two-caller run projected onto the single-caller observation format: per method the result of the caller
    that executed; `dbl=<methods>` is appended when both callers of an exclusive method executed"""
    from ..alloc2 import executed, pair

    d = case.desc
    n, ma, mf, val = d["n"], d["ma"], d["mf"], d["val"]
    sim = _sim2(n, ma, mf, val)[0]
    idw = (n - 1).bit_length()
    ops = []
    for line in case.ops:
        o = _kv(line)
        a2, f2 = pair(o["a2"]), pair(o["f2"])
        ops.append({("alloc", 0): a2[0], ("alloc", 1): a2[1], ("free", 0): f2[0], ("free", 1): f2[1],
                    "clear": 0 if o["c"] == "1" else None})
    tr = sim.run(ops, extra=lambda w: [w.inner.start_idx, w.inner.end_idx, w.inner.allocated, w.inner.alloc.ready, w.inner.free.ready])
    out = ["ok"]
    for r in tr:
        e = r["_extra"]
        (a, da), (f, df) = executed(r, "alloc"), executed(r, "free")
        dbl = ",".join(x for x, y in (("alloc", da), ("free", df)) if y)
        out.append(
            f"a={_decode(a, ma, idw)} f={_decode(f, mf, idw)} c={0 if r[('clear',)] is None else 1} "
            f"s={e[0]} e={e[1]} cnt={e[2]} rdy={e[3]}{e[4]}" + (f" dbl={dbl}" if dbl else "")
        )
    return out


def monitor2(case: Case, out: list[str]):
    """at most one caller of an exclusive method executes per cycle; the property holds on the executed calls"""
    for k, o in enumerate(out[1:]):
        if " dbl=" in o:
            return (f"cycle {k}: both callers of the exclusive method(s) {o.split('dbl=')[1]} executed in one cycle "
                    f"(attempts {case.ops[k]}): the same identifiers are handed to / taken from two callers")
    return monitor(case, out)


def _mk2(n, ma, mf, val, ops2, tag) -> Case:
    """ops2: ((a0, a1), (f0, f1), clear); the effective single-caller attempt (what the scheduler serves) is
    computed with a reference count of allocated identifiers and the probed priorities"""
    from ..alloc2 import first_of, fmt_pair

    _, oa, of = _sim2(n, ma, mf, val)
    cnt = 0
    lines = []
    fmt = lambda v: "-" if v is None else str(v)  # noqa: E731
    for a2, f2, c in ops2:
        a = first_of(oa, a2, lambda v: cnt != n and (not (val and ma > 1) or cnt + v <= n))
        f = first_of(of, f2, lambda v: cnt != 0 and (not (val and mf > 1) or v <= cnt))
        lines.append(f"cyc a={fmt(a)} f={fmt(f)} c={c} a2={fmt_pair(a2)} f2={fmt_pair(f2)}")
        a_run = a is not None and cnt != n and cnt + a <= n
        f_run = f is not None and cnt != 0 and f <= cnt
        cnt = 0 if c else cnt + (a if a_run else 0) - (f if f_run else 0)
    desc = {"component": "CircularAllocator", "n": n, "ma": ma, "mf": mf, "val": val, "callers": 2}
    return Case(f"cfg n={n} ma={ma} mf={mf} val={val}", lines, desc, tag)


def _stream2(rng, n, ma, mf, val, length):
    """two callers per method attempting independently; counts legal for the allocator's state (with effective
    validation some ask for too much).  Both callers often attempt together."""
    cnt = 0
    ops = []
    _, oa, of = _sim2(n, ma, mf, val)
    from ..alloc2 import first_of

    for _ in range(length):
        def count(mx, room, validated):
            if rng.random() < 0.45:
                return None
            if validated and rng.random() < 0.25:
                return rng.randint(0, mx)
            return rng.randint(0, min(mx, room)) if rng.random() < 0.6 else min(mx, room)

        a2 = [count(ma, n - cnt, val and ma > 1) for _ in range(2)]
        f2 = [count(mf, cnt, val and mf > 1) for _ in range(2)]
        c = int(rng.random() < 0.02)
        ops.append((a2, f2, c))
        a = first_of(oa, a2, lambda v: cnt != n and (not (val and ma > 1) or cnt + v <= n))
        f = first_of(of, f2, lambda v: cnt != 0 and (not (val and mf > 1) or v <= cnt))
        a_run = a is not None and cnt != n and cnt + a <= n
        f_run = f is not None and cnt != 0 and f <= cnt
        cnt = 0 if c else cnt + (a if a_run else 0) - (f if f_run else 0)
    return ops


def gen_cases2(ctx: Check) -> list[Case]:
    rng = ctx.rng("two-callers")
    cfgs = ctx.pick([(1, 1, 1, 1), (3, 2, 2, 1), (4, 2, 3, 0), (5, 3, 2, 1), (8, 4, 4, 1), (7, 1, 1, 0)],
                    [(n, ma, mf, v) for n in (1, 2, 3, 4, 5, 7, 8, 9) for ma, mf in ((1, 1), (2, 3), (n, 2)) for v in (1, 0)])
    out = []
    for n, ma, mf, val in cfgs:
        both = [((min(ma, 1), min(ma, 1)), (None, None), 0)] * 2 + [((None, None), (min(mf, 1), min(mf, 1)), 0)] * 3
        out.append(_mk2(n, ma, mf, val, both, "directed"))
        for _ in range(ctx.pick(2, 4)):
            out.append(_mk2(n, ma, mf, val, _stream2(rng, n, ma, mf, val, ctx.pick(80, 300)), "random"))
    return out


def more_cases2(case: Case, rng):
    d = case.desc
    for _ in range(20):
        yield _mk2(d["n"], d["ma"], d["mf"], d["val"], _stream2(rng, d["n"], d["ma"], d["mf"], d["val"], 100), "search")


def replay_witness(w: dict):
    """witness of a (proposed/known) finding: {"cfg":..., "ops":[...], "desc":{...}}; desc.strict=true also
    judges counts above max_alloc/max_free that still fit the argument signal"""
    case = Case(w["cfg"], list(w["ops"]), w.get("desc", {}), "witness")
    return monitor(case, impl(case))


def replay(ctx: Check, body: dict):
    from ..lockstep import replay_case

    if body.get("desc", {}).get("callers") == 2:
        return replay_case(body, impl2, monitor2)
    return replay_case(body, impl, monitor)
