"""C32 — latency measurers record true latencies (transactron/lib/metrics.py:521-847)."""

from __future__ import annotations

import json
from typing import Optional

from ..common import Check
from ..lockstep import Case, lockstep
from ..simrun import CompSim

META = {
    "id": "C32",
    "design_ref": "DESIGN.md §7 C32 (with C31 for the histogram, C15/C22 for the storage)",
    "technique": "Lean 4 theorems: the implementation model (epoch_width-bit epoch register, queue of start epochs per "
    "way / slot memory, (epoch - start) truncated, C31 histogram model) refines a specification machine that keeps true "
    "cycle numbers (simulation proof by induction over histories), FIFO-order and last-start-per-slot invariants of the "
    "specification, and the wrap-free corollary for latencies <= max_latency; lock-step correspondence of the "
    "implementation model with the real FIFOLatencyMeasurer / WideFIFOLatencyMeasurer / TaggedLatencyMeasurer in pysim "
    "(done bits and all histogram registers, every cycle)",
    "level_text": "c32_fifo_refines, c32_fifo_order, c32_fifo_true_latency, c32_tagged_refines, c32_tagged_last_start and "
    "c32_tagged_true_latency are proved for every number of ways, slot count, start/stop widths, max_latency and every "
    "start/stop history. The start-epoch storage is modelled abstractly (list queue with WideFifo's acceptance rules, "
    "ideal slot memory); its tie to the real WideFifo / AsyncMemoryBank inside the real measurers is the lock-step "
    "comparison over random/directed histories with latencies within and (no property claim) beyond max_latency",
    "level_note": "trusted: Lean kernel, axioms propext/Classical.choice/Quot.sound; Amaranth semantics and pysim; the "
    "harness glue. Modelled not verified here: WideFifo (C15) and AsyncMemoryBank (C22) as abstract queue / memory; the "
    "TaggedLatencyMeasurer's slots_taken register only feeds log.error and is not modelled. Environment hypotheses of "
    "the tagged measurer (unique slot tags: start only free slots, stop only taken slots, distinct slots per cycle) are "
    "satisfied by the generators; a malformed stream checks model/implementation agreement outside them without a claim.",
}

# --------------------------------------------------------------------------------------------
# real components


def _enable():
    from transactron.lib.metrics import HwMetricsEnabledKey
    from transactron.utils.dependencies import DependencyContext

    DependencyContext.get().add_dependency(HwMetricsEnabledKey(), True)


_sims: dict[str, object] = {}


def _sim(desc: dict):
    key = json.dumps({k: desc[k] for k in ("component", "ways", "slots", "ml", "msta", "msto") if k in desc}, sort_keys=True)
    if key in _sims:
        return _sims[key]
    from transactron.lib.metrics import FIFOLatencyMeasurer, TaggedLatencyMeasurer, WideFIFOLatencyMeasurer

    comp = desc["component"]

    def make():
        _enable()
        if comp == "FIFOLatencyMeasurer":
            return FIFOLatencyMeasurer("v.fifo", slots_number=desc["slots"], max_latency=desc["ml"], ways=desc["ways"])
        if comp == "WideFIFOLatencyMeasurer":
            return WideFIFOLatencyMeasurer(
                "v.wide", slots_number=desc["slots"], max_latency=desc["ml"],
                max_start_count=desc["msta"], max_stop_count=desc["msto"], ways=desc["ways"],
            )
        if comp == "TaggedLatencyMeasurer":
            return TaggedLatencyMeasurer("v.tagged", slots_number=desc["slots"], max_latency=desc["ml"], ways=desc["ways"])
        raise ValueError(comp)

    try:
        sim = CompSim(make)
    except Exception as e:  # noqa: BLE001 - an exception of the real code is an observation
        sim = e
    _sims[key] = sim
    return sim


def _opt_list(tok: str) -> list[Optional[int]]:
    return [None if x == "-" else int(x) for x in tok.split(",")]


def _fields(line: str) -> dict:
    return dict(x.split("=", 1) for x in line.split() if "=" in x)


def _lst(xs) -> str:
    xs = list(xs)
    return ",".join(str(int(x)) for x in xs) if xs else "-"


def _opt(xs) -> str:
    return ",".join("-" if x is None else str(x) for x in xs)


def _hist_regs(d):
    h = d.histogram
    return [h.count.value, h.sum.value, h.min.value, h.max.value] + [b.value for b in h.buckets]


def impl(case: Case) -> list[str]:
    desc = case.desc
    sim = _sim(desc)
    if isinstance(sim, Exception):
        return [f"raise {type(sim).__name__}"] * len(case.lines())
    comp = desc["component"]
    ways = desc["ways"]
    ops = []
    for line in case.ops:
        f = _fields(line)
        a, o = _opt_list(f["a"]), _opt_list(f["o"])
        op = {}
        for k in range(ways):
            if comp == "FIFOLatencyMeasurer":  # no arguments; the count in the op line is always 1
                op[f"start[{k}]"] = None if a[k] is None else 0
                op[f"stop[{k}]"] = None if o[k] is None else 0
            else:
                op[f"start[{k}]"] = a[k]
                op[f"stop[{k}]"] = o[k]
        ops.append(op)
    tr = sim.run(ops, extra=_hist_regs)
    out = ["ok"]
    for r in tr:
        e = r["_extra"]
        out.append(
            f"a={_lst(r[('start', k)] is not None for k in range(ways))} o={_lst(r[('stop', k)] is not None for k in range(ways))} "
            f"cnt={e[0]} sum={e[1]} min={e[2]} max={e[3]} b={_lst(e[4:])}"
        )
    return out


# --------------------------------------------------------------------------------------------
# property monitor (independent of the Lean model): a reference queue / slot table of TRUE start cycles


def bits_for(n: int) -> int:
    return max(1, n.bit_length())


def bucket_of(n: int, x: int) -> int:
    for i in range(n):
        lo = 0 if i == 0 else 2 ** (i - 1)
        hi = None if i == n - 1 else 2**i
        if lo <= x and (hi is None or x < hi):
            return i
    raise AssertionError


def true_latencies(case: Case, out: list[str]):
    """per cycle, the true latencies (stop cycle - start cycle) of the events finished in that cycle, from the executed
    calls the implementation reported; events matched in FIFO order per way, or by slot"""
    desc = case.desc
    comp = desc["component"]
    ways = desc["ways"]
    res = []
    if comp == "TaggedLatencyMeasurer":
        started: dict[int, int] = {}
        for k, (op, o) in enumerate(zip(case.ops, out[1:])):
            f, g = _fields(op), _fields(o)
            a, st = _opt_list(f["a"]), _opt_list(f["o"])
            da, do = _opt_list(g["a"]), _opt_list(g["o"])
            lats = []
            for w in range(ways):
                if do[w]:
                    if st[w] not in started:
                        return None, f"cycle {k}: (hypothesis) stop of slot {st[w]} which was never started"
                    lats.append(k - started[st[w]])
            for w in range(ways):
                if da[w]:
                    started[a[w]] = k
            res.append(lats)
        return res, None
    queues = [[] for _ in range(ways)]
    msto = desc.get("msto", 1)
    for k, (op, o) in enumerate(zip(case.ops, out[1:])):
        f, g = _fields(op), _fields(o)
        a, st = _opt_list(f["a"]), _opt_list(f["o"])
        da, do = _opt_list(g["a"]), _opt_list(g["o"])
        lats = []
        for w in range(ways):
            q = queues[w]
            if do[w]:
                n = min(st[w], len(q), msto)  # events actually finished by this stop
                lats.extend(k - t for t in q[:n])
                del q[:n]
        for w in range(ways):
            if da[w]:
                queues[w].extend([k] * a[w])
        res.append(lats)
    return res, None


def monitor(case: Case, out: list[str]):
    desc = case.desc
    if out[0] != "ok":
        return f"{desc['component']}: construction/elaboration: {out[0]}"
    ml = desc["ml"]
    ew = bits_for(ml)
    nb = ew + 1
    lats, hyp = true_latencies(case, out)
    if lats is None:
        return None  # outside the environment hypothesis: no claim
    samples: list[int] = []
    for k, o in enumerate(out[1:]):
        f = _fields(o)
        if k and any(x > ml for x in lats[k - 1]):
            return None  # a latency beyond max_latency happened: no claim from here on
        want = {
            "cnt": len(samples) % 2**32,
            "sum": sum(samples) % 2**32,
            "min": min(samples) if samples else 2**ew - 1,
            "max": max(samples) if samples else 0,
        }
        for key, v in want.items():
            if int(f[key]) != v:
                return (f"cycle {k}: histogram {key}={f[key]} but the events finished so far have true latencies "
                        f"{samples[-10:]} (n={len(samples)}), expected {v}")
        b = [0] * nb
        for x in samples:
            b[bucket_of(nb, x)] += 1
        if _opt_list(f["b"]) != b:
            return f"cycle {k}: buckets={f['b']} but true latencies {samples[-10:]} (n={len(samples)}) give {b}"
        samples.extend(lats[k])
    return None


def within(case: Case, out: list[str]) -> bool:
    if out[0] != "ok":
        return False
    lats, _ = true_latencies(case, out)
    return lats is not None and all(x <= case.desc["ml"] for l in lats for x in l)


# --------------------------------------------------------------------------------------------
# generators (they keep a reference queue to steer latencies; the monitor recomputes everything independently)


def _cfg(desc: dict) -> str:
    comp = desc["component"]
    if comp == "FIFOLatencyMeasurer":
        return f"cfg kind=fifo ways={desc['ways']} slots={desc['slots']} ml={desc['ml']}"
    if comp == "WideFIFOLatencyMeasurer":
        return f"cfg kind=wide ways={desc['ways']} slots={desc['slots']} msta={desc['msta']} msto={desc['msto']} ml={desc['ml']}"
    return f"cfg kind=tagged ways={desc['ways']} slots={desc['slots']} ml={desc['ml']}"


def fifo_case(desc: dict, rng, n: int, pa: float, po: float, bounded: bool, tag="random", sloppy=False) -> Case:
    """bounded: stops are forced early enough that no latency exceeds max_latency"""
    ways, ml = desc["ways"], desc["ml"]
    msta, msto = desc.get("msta", 1), desc.get("msto", 1)
    unit = desc["component"] == "FIFOLatencyMeasurer"  # methods without a count argument: always 1
    mc = max(msta, msto)
    cap = (desc["slots"] + mc - 1) // mc * mc
    queues = [[] for _ in range(ways)]
    ops = []
    for k in range(n):
        a, o = [], []
        for w in range(ways):
            q = queues[w]
            # cycles needed to drain the queue at full stop width; entries are FIFO so the oldest is the tightest
            need = -(-len(q) // msto)
            urgent = bounded and q and (k - q[0]) + need + 1 >= ml
            st = None
            if urgent:
                so = min(msto, len(q))
            elif rng.random() < po:
                so = rng.randrange(0, msto + 1) if (sloppy or not q) else rng.randrange(1, min(msto, len(q)) + 1) if rng.random() < 0.9 else rng.randrange(0, msto + 1)
            else:
                so = None
            if not urgent and rng.random() < pa:
                st = rng.randrange(1, msta + 1) if rng.random() < 0.9 else 0
                if bounded and (len(q) + st) > max(1, (ml - 2)) * msto:  # could not be drained in time
                    st = None
            if unit:
                st = None if st is None else 1
                so = None if so is None else 1
            a.append(st)
            o.append(so)
            # reference update (WideFifo rules)
            remaining = cap - len(q)
            popped = min(so, len(q), msto) if (so is not None and q) else 0
            if st is not None and remaining != 0 and st <= remaining:
                pushed = st
            else:
                pushed = 0
            del q[:popped]
            q.extend([k] * pushed)
        ops.append(f"cyc a={_opt(a)} o={_opt(o)}")
    return Case(_cfg(desc), ops, desc, tag)


def tagged_case(desc: dict, rng, n: int, pa: float, po: float, bounded: bool, tag="random") -> Case:
    ways, ml, slots = desc["ways"], desc["ml"], desc["slots"]
    started: dict[int, int] = {}
    ops = []
    for k in range(n):
        taken = sorted(started)
        rng.shuffle(taken)
        due = [s for s in taken if bounded and k - started[s] >= ml - 1]
        stops: list[Optional[int]] = []
        used = set()
        for w in range(ways):
            s = None
            if due:
                s = due.pop()
            elif taken and rng.random() < po:
                cand = [x for x in taken if x not in used]
                s = rng.choice(cand) if cand else None
            if s is not None:
                used.add(s)
            stops.append(s)
        # a slot may be restarted in the cycle in which it is stopped
        free = [s for s in range(slots) if s not in started or s in used]
        rng.shuffle(free)
        starts: list[Optional[int]] = []
        room = bounded and len(due) > 0
        for w in range(ways):
            s = None
            if free and not room and rng.random() < pa and (not bounded or len(started) - len(used) + len([x for x in starts if x is not None]) < ways * max(1, ml - 1)):
                s = free.pop()
            starts.append(s)
        for s in stops:
            if s is not None:
                del started[s]
        for s in starts:
            if s is not None:
                started[s] = k
        ops.append(f"cyc a={_opt(starts)} o={_opt(stops)}")
    return Case(_cfg(desc), ops, desc, tag)


def tagged_malformed(desc: dict, rng, n: int) -> Case:
    """outside the hypotheses: stops of free slots, restarts of taken slots (distinct slots per cycle per method kind)"""
    ways, slots = desc["ways"], desc["slots"]
    ops = []
    for _ in range(n):
        a = rng.sample(range(slots), min(ways, slots)) + [None] * ways
        o = rng.sample(range(slots), min(ways, slots)) + [None] * ways
        ops.append(f"cyc a={_opt(x if rng.random() < 0.5 else None for x in a[:ways])} o={_opt(x if rng.random() < 0.5 else None for x in o[:ways])}")
    return Case(_cfg(desc), ops, desc, "malformed")


def gen_cases(ctx: Check):
    rng = ctx.rng("gen")
    n = ctx.pick(90, 500)
    claimed: list[Case] = []
    unclaimed: list[Case] = []
    # (ways, slots, ml)
    fifo = [(1, 1, 1), (1, 2, 5), (2, 3, 7), (1, 4, 16), (3, 2, 9)]
    # (ways, slots, msta, msto, ml)
    wide = [(1, 4, 2, 2, 7), (2, 3, 2, 2, 10), (1, 5, 3, 2, 12), (1, 6, 2, 3, 15), (2, 4, 1, 2, 6), (1, 8, 4, 4, 5)]
    tagged = [(1, 1, 3), (1, 3, 6), (2, 4, 8), (3, 6, 4), (1, 8, 31), (2, 2, 1)]
    if ctx.thorough:
        fifo += [(w, s, ml) for w in (1, 2) for s in (1, 2, 3, 7) for ml in (2, 4, 8, 20)]
        wide += [(w, s, a, o, ml) for w in (1, 2) for s in (2, 5, 9) for a in (1, 2, 3) for o in (1, 2, 3) for ml in (6, 17)]
        tagged += [(w, s, ml) for w in (1, 2, 3) for s in (2, 3, 7) for ml in (2, 7, 16)]
    for _ in range(ctx.pick(2, 12)):
        fifo.append((rng.randrange(1, 4), rng.randrange(1, 7), rng.randrange(1, 20)))
        wide.append((rng.randrange(1, 3), rng.randrange(1, 10), rng.randrange(1, 4), rng.randrange(1, 4), rng.randrange(2, 40)))
        tagged.append((rng.randrange(1, 4), rng.randrange(1, 9), rng.randrange(1, 40)))
    for ways, slots, ml in fifo:
        d = {"component": "FIFOLatencyMeasurer", "ways": ways, "slots": slots, "ml": ml}
        # directed: fill beyond capacity, then drain beyond empty
        dops = [f"cyc a={_opt([1] * ways)} o={_opt([None] * ways)}"] * (slots + 1) + [f"cyc a={_opt([None] * ways)} o={_opt([1] * ways)}"] * (slots + 2)
        (claimed if 2 * slots + 1 <= ml else unclaimed).append(Case(_cfg(d), dops, d, "directed"))
        claimed.append(fifo_case(d, rng, n, 0.5, 0.5, True))
        claimed.append(fifo_case(d, rng, n, 0.9, 0.3, True))
        unclaimed.append(fifo_case(d, rng, n, 0.6, 0.15, False, "beyond"))
    for ways, slots, msta, msto, ml in wide:
        d = {"component": "WideFIFOLatencyMeasurer", "ways": ways, "slots": slots, "msta": msta, "msto": msto, "ml": ml}
        claimed.append(fifo_case(d, rng, n, 0.5, 0.5, True))
        claimed.append(fifo_case(d, rng, n, 0.9, 0.4, True, sloppy=True))
        unclaimed.append(fifo_case(d, rng, n, 0.6, 0.1, False, "beyond", sloppy=True))
    for ways, slots, ml in tagged:
        d = {"component": "TaggedLatencyMeasurer", "ways": ways, "slots": slots, "ml": ml}
        claimed.append(tagged_case(d, rng, n, 0.5, 0.4, True))
        claimed.append(tagged_case(d, rng, n, 0.9, 0.2, True))
        unclaimed.append(tagged_case(d, rng, n, 0.5, 0.05, False, "beyond"))
        unclaimed.append(tagged_malformed(d, rng, n // 2))
    return claimed, unclaimed


def more_cases(case: Case, rng):
    d = case.desc
    for _ in range(24):
        if d["component"] == "TaggedLatencyMeasurer":
            yield tagged_case(d, rng, 200, rng.choice([0.4, 0.8]), rng.choice([0.2, 0.5]), True, "search")
        else:
            yield fifo_case(d, rng, 200, rng.choice([0.4, 0.8]), rng.choice([0.2, 0.5]), True, "search")


def nontrivial(case: Case, out: list[str]) -> bool:
    """>= 2 events in flight at once and (FIFO kinds) a blocked start and a blocked stop, or >= 2 events finished in one
    cycle; all latencies within max_latency for the claimed stream"""
    if out[0] != "ok":
        return False
    lats, _ = true_latencies(case, out)
    if lats is None:
        return False
    multi = any(len(l) >= 2 for l in lats)
    blocked_a = blocked_o = False
    for op, o in zip(case.ops, out[1:]):
        f, g = _fields(op), _fields(o)
        for x, y in zip(_opt_list(f["a"]), _opt_list(g["a"])):
            blocked_a |= x is not None and not y
        for x, y in zip(_opt_list(f["o"]), _opt_list(g["o"])):
            blocked_o |= x is not None and not y
    long = any(x >= 2 for l in lats for x in l)
    if case.desc["component"] == "TaggedLatencyMeasurer":
        return long and (multi or case.desc["ways"] == 1)
    return long and (multi or (blocked_a and blocked_o))


def run(ctx: Check):
    ctx.rule = (
        "cases = (measurer class, ways, slots_number, max_start/stop_count, max_latency, history of per-way start/stop "
        "attempts); claimed stream: the generator forces stops so that every latency is <= max_latency (the monitor "
        "re-derives true latencies from a reference queue / slot table of start cycles and compares every histogram "
        "register every cycle); unclaimed stream (monitor off): latencies beyond max_latency, malformed tagged use; "
        "non-trivial = some latency >= 2 and (two events finished in one cycle, or a blocked start and a blocked stop)"
    )
    ctx.proof_stage()
    ctx.replay_findings(replay_witness)
    claimed, unclaimed = gen_cases(ctx)
    procs = 1 if ctx.quick else None

    def nt_claimed(case, out):
        if within(case, out):
            ctx.count("claimed_cases_all_latencies_within_max")
        return nontrivial(case, out)

    unclaimed_keys = {c.key() for c in unclaimed}

    def mon(case, out):  # no property claim on the unclaimed stream (model/implementation agreement only)
        return None if case.key() in unclaimed_keys else monitor(case, out)

    def nt(case, out):
        return nontrivial(case, out) if case.key() in unclaimed_keys else nt_claimed(case, out)

    # one driver invocation for both streams (the interpreter's start-up dominates otherwise)
    lockstep(ctx, "latency-measurers", "C32", claimed + unclaimed, impl, mon, more_cases, nt, procs=procs)
    ctx.count("claimed_cases", len(claimed))
    ctx.count("unclaimed_cases", len(unclaimed))
    ctx.count("configs", len({c.cfg for c in claimed + unclaimed}))


def replay_witness(w: dict) -> Optional[str]:
    desc = w["desc"]
    case = Case(w.get("cfg") or _cfg(desc), list(w["ops"]), desc, "witness")
    return monitor(case, impl(case))


def replay(ctx: Check, body: dict):
    if "witness" in body:
        return replay_witness(body["witness"])
    from ..lockstep import replay_case

    return replay_case(body, impl, monitor)
