"""C32 — latency measurers record true latencies (transactron/lib/metrics.py:521-847)."""

from __future__ import annotations

import json
from typing import Optional

from ..common import Check
from ..lockstep import Case, lockstep
from ..simrun import CompSim

META = {
    "id": "C32",
    "design_ref": "DESIGN.md §7 C32 (with C31 for the histogram, C15/C22 for the storage)",
    "technique": "Lean 4 theorems: the implementation model (epoch_width-bit epoch register, queue of start epochs per "
    "way / slot memory, (epoch - start) truncated, C31 histogram model) refines a specification machine that keeps true "
    "cycle numbers (simulation proof by induction over histories), FIFO-order and last-start-per-slot invariants of the "
    "specification, and the wrap-free corollary for latencies <= max_latency; lock-step correspondence of the "
    "implementation model with the real FIFOLatencyMeasurer / WideFIFOLatencyMeasurer / TaggedLatencyMeasurer in pysim "
    "(done bits and all histogram registers, every cycle)",
    "level_text": "c32_fifo_refines, c32_fifo_order, c32_fifo_true_latency, c32_tagged_refines, c32_tagged_last_start and "
    "c32_tagged_true_latency are proved for every number of ways, slot count, start/stop widths, max_latency and every "
    "start/stop history. The start-epoch storage is modelled abstractly (list queue with WideFifo's acceptance rules, "
    "ideal slot memory); its tie to the real WideFifo / AsyncMemoryBank inside the real measurers is the lock-step "
    "comparison over random/directed histories with latencies within and (no property claim) beyond max_latency",
    "level_note": "trusted: Lean kernel, axioms propext/Classical.choice/Quot.sound; Amaranth semantics and pysim; the "
    "harness glue. Modelled not verified here: WideFifo (C15) and AsyncMemoryBank (C22) as abstract queue / memory; the "
    "TaggedLatencyMeasurer's slots_taken register only feeds log.error and is not modelled. Environment hypotheses of "
    "the tagged measurer (unique slot tags: start only free slots, stop only taken slots, distinct slots per cycle) are "
    "satisfied by the generators; a malformed stream checks model/implementation agreement outside them without a claim.",
}

# --------------------------------------------------------------------------------------------
# real components


def _enable():
    from transactron.lib.metrics import HwMetricsEnabledKey
    from transactron.utils.dependencies import DependencyContext

    DependencyContext.get().add_dependency(HwMetricsEnabledKey(), True)


_sims: dict[str, object] = {}


def _sim(desc: dict):
    key = json.dumps({k: desc[k] for k in ("component", "ways", "slots", "ml", "msta", "msto", "callers") if k in desc}, sort_keys=True)
    if key in _sims:
        return _sims[key]
    from transactron.lib.metrics import FIFOLatencyMeasurer, TaggedLatencyMeasurer, WideFIFOLatencyMeasurer

    comp = desc["component"]

    def make():
        _enable()
        if comp == "FIFOLatencyMeasurer":
            return FIFOLatencyMeasurer("v.fifo", slots_number=desc["slots"], max_latency=desc["ml"], ways=desc["ways"])
        if comp == "WideFIFOLatencyMeasurer":
            return WideFIFOLatencyMeasurer(
                "v.wide", slots_number=desc["slots"], max_latency=desc["ml"],
                max_start_count=desc["msta"], max_stop_count=desc["msto"], ways=desc["ways"],
            )
        if comp == "TaggedLatencyMeasurer":
            return TaggedLatencyMeasurer("v.tagged", slots_number=desc["slots"], max_latency=desc["ml"], ways=desc["ways"])
        raise ValueError(comp)

    def make2():
        """the real measurer inside a wrapper with TWO callers (own method = own transaction each) of every way of
        start and of stop"""
        from amaranth import Elaboratable
        from transactron import Methods, TModule, def_methods

        meas = make()
        ways = desc["ways"]
        la = list(meas.start[0].layout_in.members.items())
        lo = list(meas.stop[0].layout_in.members.items())

        class TwoCallers(Elaboratable):
            def __init__(self):
                self.histogram = meas.histogram
                self.start = Methods(ways, i=la)
                self.start2 = Methods(ways, i=la)
                self.stop = Methods(ways, i=lo)
                self.stop2 = Methods(ways, i=lo)

            def elaborate(self, platform):
                m = TModule()
                m.submodules.meas = meas
                def define(ms, target):
                    @def_methods(m, ms)
                    def _(k, arg):
                        target[k](m, arg)

                for ms, target in ((self.start, meas.start), (self.start2, meas.start), (self.stop, meas.stop), (self.stop2, meas.stop)):
                    define(ms, target)

                return m

        return TwoCallers()

    try:
        sim = CompSim(make2 if desc.get("callers") == 2 else make)
    except Exception as e:  # noqa: BLE001 - an exception of the real code is an observation
        sim = e
    _sims[key] = sim
    return sim


def _sfx(desc: dict) -> list[str]:
    return ["", "2"] if desc.get("callers") == 2 else [""]


def _opt_list(tok: str) -> list[Optional[int]]:
    return [None if x == "-" else int(x) for x in tok.split(",")]


def _fields(line: str) -> dict:
    return dict(x.split("=", 1) for x in line.split() if "=" in x)


def _lst(xs) -> str:
    xs = list(xs)
    return ",".join(str(int(x)) for x in xs) if xs else "-"


def _opt(xs) -> str:
    return ",".join("-" if x is None else str(x) for x in xs)


def _hist_regs(d):
    h = d.histogram
    return [h.count.value, h.sum.value, h.min.value, h.max.value] + [b.value for b in h.buckets]


def impl(case: Case) -> list[str]:
    desc = case.desc
    sim = _sim(desc)
    if isinstance(sim, Exception):
        return [f"raise {type(sim).__name__}"] * len(case.lines())
    comp = desc["component"]
    ways = desc["ways"]
    sfx = _sfx(desc)
    unit = comp == "FIFOLatencyMeasurer"  # no arguments; the count in the op line is always 1
    ops = []
    for line in case.ops:
        f = _fields(line)
        op = {}
        for x in sfx:
            a, o = _opt_list(f["a" + x]), _opt_list(f["o" + x])
            for k in range(ways):
                op[f"start{x}[{k}]"] = (None if a[k] is None else 0) if unit else a[k]
                op[f"stop{x}[{k}]"] = (None if o[k] is None else 0) if unit else o[k]
        ops.append(op)
    tr = sim.run(ops, extra=_hist_regs)
    out = ["ok"]
    for r in tr:
        e = r["_extra"]
        done = " ".join(
            f"{nm}{x}={_lst(r[(meth + x, k)] is not None for k in range(ways))}" for nm, meth in (("a", "start"), ("o", "stop")) for x in sfx
        )
        out.append(f"{done} cnt={e[0]} sum={e[1]} min={e[2]} max={e[3]} b={_lst(e[4:])}")
    return out


# --------------------------------------------------------------------------------------------
# property monitor (independent of the Lean model): a reference queue / slot table of TRUE start cycles


def bits_for(n: int) -> int:
    return max(1, n.bit_length())


def bucket_of(n: int, x: int) -> int:
    for i in range(n):
        lo = 0 if i == 0 else 2 ** (i - 1)
        hi = None if i == n - 1 else 2**i
        if lo <= x and (hi is None or x < hi):
            return i
    raise AssertionError


def true_latencies(case: Case, out: list[str]):
    """per cycle, the true latencies (stop cycle - start cycle) of the events finished in that cycle, from the executed
    calls the implementation reported (summed over all callers of a way); events matched in FIFO order per way, or by
    slot.  Returns (latencies | None when outside the hypotheses, failure of the caller discipline | None)."""
    desc = case.desc
    comp = desc["component"]
    ways = desc["ways"]
    sfx = _sfx(desc)
    res = []
    started: dict[int, int] = {}
    queues = [[] for _ in range(ways)]
    msto = desc.get("msto", 1)
    fail = None
    for k, (op, o) in enumerate(zip(case.ops, out[1:])):
        f, g = _fields(op), _fields(o)
        att_a = [_opt_list(f["a" + x]) for x in sfx]
        att_o = [_opt_list(f["o" + x]) for x in sfx]
        don_a = [_opt_list(g["a" + x]) for x in sfx]
        don_o = [_opt_list(g["o" + x]) for x in sfx]
        for att, don, what in ((att_a, don_a, "start"), (att_o, don_o, "stop")):
            for w in range(ways):
                ex = [c for c in range(len(sfx)) if don[c][w]]
                if any(att[c][w] is None for c in ex):
                    return None, f"cycle {k}: {what}[{w}] executed without being attempted"
                if len(ex) > 1 and fail is None and k + 1 < len(case.ops):
                    fail = f"cycle {k}: both callers of {what}[{w}] executed in the same cycle"
        lats = []
        for w in range(ways):
            for c in range(len(sfx)):
                if not don_o[c][w]:
                    continue
                if comp == "TaggedLatencyMeasurer":
                    if att_o[c][w] not in started:
                        return None, None  # (hypothesis) stop of a slot which was never started
                    lats.append(k - started[att_o[c][w]])
                else:
                    q = queues[w]
                    n = min(att_o[c][w], len(q), msto)  # events actually finished by this stop
                    lats.extend(k - t for t in q[:n])
                    del q[:n]
        for w in range(ways):
            for c in range(len(sfx)):
                if don_a[c][w]:
                    if comp == "TaggedLatencyMeasurer":
                        started[att_a[c][w]] = k
                    else:
                        queues[w].extend([k] * att_a[c][w])
        res.append(lats)
    return res, fail


def monitor(case: Case, out: list[str]):
    desc = case.desc
    if out[0] != "ok":
        return f"{desc['component']}: construction/elaboration: {out[0]}"
    ml = desc["ml"]
    ew = bits_for(ml)
    nb = ew + 1
    lats, discipline = true_latencies(case, out)
    if lats is None:
        return discipline  # a call executed without being attempted, or (None) outside the environment hypothesis: no claim
    samples: list[int] = []
    for k, o in enumerate(out[1:]):
        f = _fields(o)
        if k and any(x > ml for x in lats[k - 1]):
            return None  # a latency beyond max_latency happened: no claim from here on
        want = {
            "cnt": len(samples) % 2**32,
            "sum": sum(samples) % 2**32,
            "min": min(samples) if samples else 2**ew - 1,
            "max": max(samples) if samples else 0,
        }
        for key, v in want.items():
            if int(f[key]) != v:
                return (f"cycle {k}: histogram {key}={f[key]} but the events finished so far have true latencies "
                        f"{samples[-10:]} (n={len(samples)}), expected {v}")
        b = [0] * nb
        for x in samples:
            b[bucket_of(nb, x)] += 1
        if _opt_list(f["b"]) != b:
            return f"cycle {k}: buckets={f['b']} but true latencies {samples[-10:]} (n={len(samples)}) give {b}"
        samples.extend(lats[k])
    return discipline  # two callers of one way of an exclusive method executed in the same cycle (checked last)


def within(case: Case, out: list[str]) -> bool:
    if out[0] != "ok":
        return False
    lats, _ = true_latencies(case, out)
    return lats is not None and all(x <= case.desc["ml"] for l in lats for x in l)


# --------------------------------------------------------------------------------------------
# generators (they keep a reference queue to steer latencies; the monitor recomputes everything independently)


def _cfg(desc: dict) -> str:
    comp = desc["component"]
    if comp == "FIFOLatencyMeasurer":
        return f"cfg kind=fifo ways={desc['ways']} slots={desc['slots']} ml={desc['ml']}"
    if comp == "WideFIFOLatencyMeasurer":
        return f"cfg kind=wide ways={desc['ways']} slots={desc['slots']} msta={desc['msta']} msto={desc['msto']} ml={desc['ml']}"
    return f"cfg kind=tagged ways={desc['ways']} slots={desc['slots']} ml={desc['ml']}"


def fifo_case(desc: dict, rng, n: int, pa: float, po: float, bounded: bool, tag="random", sloppy=False) -> Case:
    """bounded: stops are forced early enough that no latency exceeds max_latency"""
    ways, ml = desc["ways"], desc["ml"]
    msta, msto = desc.get("msta", 1), desc.get("msto", 1)
    unit = desc["component"] == "FIFOLatencyMeasurer"  # methods without a count argument: always 1
    mc = max(msta, msto)
    cap = (desc["slots"] + mc - 1) // mc * mc
    queues = [[] for _ in range(ways)]
    ops = []
    for k in range(n):
        a, o = [], []
        for w in range(ways):
            q = queues[w]
            # cycles needed to drain the queue at full stop width; entries are FIFO so the oldest is the tightest
            need = -(-len(q) // msto)
            urgent = bounded and q and (k - q[0]) + need + 1 >= ml
            st = None
            if urgent:
                so = min(msto, len(q))
            elif rng.random() < po:
                so = rng.randrange(0, msto + 1) if (sloppy or not q) else rng.randrange(1, min(msto, len(q)) + 1) if rng.random() < 0.9 else rng.randrange(0, msto + 1)
            else:
                so = None
            if not urgent and rng.random() < pa:
                st = rng.randrange(1, msta + 1) if rng.random() < 0.9 else 0
                if bounded and (len(q) + st) > max(1, (ml - 2)) * msto:  # could not be drained in time
                    st = None
            if unit:
                st = None if st is None else 1
                so = None if so is None else 1
            a.append(st)
            o.append(so)
            # reference update (WideFifo rules)
            remaining = cap - len(q)
            popped = min(so, len(q), msto) if (so is not None and q) else 0
            if st is not None and remaining != 0 and st <= remaining:
                pushed = st
            else:
                pushed = 0
            del q[:popped]
            q.extend([k] * pushed)
        ops.append(f"cyc a={_opt(a)} o={_opt(o)}")
    return Case(_cfg(desc), ops, desc, tag)


def tagged_case(desc: dict, rng, n: int, pa: float, po: float, bounded: bool, tag="random") -> Case:
    ways, ml, slots = desc["ways"], desc["ml"], desc["slots"]
    started: dict[int, int] = {}
    ops = []
    for k in range(n):
        taken = sorted(started)
        rng.shuffle(taken)
        due = [s for s in taken if bounded and k - started[s] >= ml - 1]
        stops: list[Optional[int]] = []
        used = set()
        for w in range(ways):
            s = None
            if due:
                s = due.pop()
            elif taken and rng.random() < po:
                cand = [x for x in taken if x not in used]
                s = rng.choice(cand) if cand else None
            if s is not None:
                used.add(s)
            stops.append(s)
        # a slot may be restarted in the cycle in which it is stopped
        free = [s for s in range(slots) if s not in started or s in used]
        rng.shuffle(free)
        starts: list[Optional[int]] = []
        room = bounded and len(due) > 0
        for w in range(ways):
            s = None
            if free and not room and rng.random() < pa and (not bounded or len(started) - len(used) + len([x for x in starts if x is not None]) < ways * max(1, ml - 1)):
                s = free.pop()
            starts.append(s)
        for s in stops:
            if s is not None:
                del started[s]
        for s in starts:
            if s is not None:
                started[s] = k
        ops.append(f"cyc a={_opt(starts)} o={_opt(stops)}")
    return Case(_cfg(desc), ops, desc, tag)


def tagged_malformed(desc: dict, rng, n: int) -> Case:
    """outside the hypotheses: stops of free slots, restarts of taken slots (distinct slots per cycle per method kind)"""
    ways, slots = desc["ways"], desc["slots"]
    ops = []
    for _ in range(n):
        a = rng.sample(range(slots), min(ways, slots)) + [None] * ways
        o = rng.sample(range(slots), min(ways, slots)) + [None] * ways
        ops.append(f"cyc a={_opt(x if rng.random() < 0.5 else None for x in a[:ways])} o={_opt(x if rng.random() < 0.5 else None for x in o[:ways])}")
    return Case(_cfg(desc), ops, desc, "malformed")


def gen_cases(ctx: Check):
    rng = ctx.rng("gen")
    n = ctx.pick(90, 500)
    claimed: list[Case] = []
    unclaimed: list[Case] = []
    # (ways, slots, ml)
    fifo = [(1, 1, 1), (1, 2, 5), (2, 3, 7), (1, 4, 16), (3, 2, 9)]
    # (ways, slots, msta, msto, ml)
    wide = [(1, 4, 2, 2, 7), (2, 3, 2, 2, 10), (1, 5, 3, 2, 12), (1, 6, 2, 3, 15), (2, 4, 1, 2, 6), (1, 8, 4, 4, 5)]
    tagged = [(1, 1, 3), (1, 3, 6), (2, 4, 8), (3, 6, 4), (1, 8, 31), (2, 2, 1)]
    if ctx.thorough:
        fifo += [(w, s, ml) for w in (1, 2) for s in (1, 2, 3, 7) for ml in (2, 4, 8, 20)]
        wide += [(w, s, a, o, ml) for w in (1, 2) for s in (2, 5, 9) for a in (1, 2, 3) for o in (1, 2, 3) for ml in (6, 17)]
        tagged += [(w, s, ml) for w in (1, 2, 3) for s in (2, 3, 7) for ml in (2, 7, 16)]
    for _ in range(ctx.pick(2, 12)):
        fifo.append((rng.randrange(1, 4), rng.randrange(1, 7), rng.randrange(1, 20)))
        wide.append((rng.randrange(1, 3), rng.randrange(1, 10), rng.randrange(1, 4), rng.randrange(1, 4), rng.randrange(2, 40)))
        tagged.append((rng.randrange(1, 4), rng.randrange(1, 9), rng.randrange(1, 40)))
    for ways, slots, ml in fifo:
        d = {"component": "FIFOLatencyMeasurer", "ways": ways, "slots": slots, "ml": ml}
        # directed: fill beyond capacity, then drain beyond empty
        dops = [f"cyc a={_opt([1] * ways)} o={_opt([None] * ways)}"] * (slots + 1) + [f"cyc a={_opt([None] * ways)} o={_opt([1] * ways)}"] * (slots + 2)
        (claimed if 2 * slots + 1 <= ml else unclaimed).append(Case(_cfg(d), dops, d, "directed"))
        claimed.append(fifo_case(d, rng, n, 0.5, 0.5, True))
        claimed.append(fifo_case(d, rng, n, 0.9, 0.3, True))
        unclaimed.append(fifo_case(d, rng, n, 0.6, 0.15, False, "beyond"))
    for ways, slots, msta, msto, ml in wide:
        d = {"component": "WideFIFOLatencyMeasurer", "ways": ways, "slots": slots, "msta": msta, "msto": msto, "ml": ml}
        claimed.append(fifo_case(d, rng, n, 0.5, 0.5, True))
        claimed.append(fifo_case(d, rng, n, 0.9, 0.4, True, sloppy=True))
        unclaimed.append(fifo_case(d, rng, n, 0.6, 0.1, False, "beyond", sloppy=True))
    for ways, slots, ml in tagged:
        d = {"component": "TaggedLatencyMeasurer", "ways": ways, "slots": slots, "ml": ml}
        claimed.append(tagged_case(d, rng, n, 0.5, 0.4, True))
        claimed.append(tagged_case(d, rng, n, 0.9, 0.2, True))
        unclaimed.append(tagged_case(d, rng, n, 0.5, 0.05, False, "beyond"))
        unclaimed.append(tagged_malformed(d, rng, n // 2))
    return claimed, unclaimed


def two_caller_case(desc: dict, rng, n: int, p: float) -> Case:
    """two callers per way of start and of stop, each attempting independently; (tagged) both callers of a way use the
    same slot so that the environment hypotheses hold whichever caller the manager grants"""
    ways = desc["ways"]
    ops = []
    if desc["component"] == "TaggedLatencyMeasurer":
        started: set[int] = set()
        for _ in range(n):
            taken = sorted(started)
            rng.shuffle(taken)
            stops = [taken.pop() if taken and rng.random() < 0.7 else None for _ in range(ways)]
            free = [x for x in range(desc["slots"]) if x not in started or x in stops]
            rng.shuffle(free)
            starts = [free.pop() if free and rng.random() < 0.7 else None for _ in range(ways)]
            att = {}
            for nm, base in (("a", starts), ("o", stops)):
                first = [x if x is not None and rng.random() < p else None for x in base]
                second = [x if x is not None and (rng.random() < p or first[w] is None) else None for w, x in enumerate(base)]
                att[nm], att[nm + "2"] = first, second
            started -= {x for x in stops if x is not None}
            started |= {x for x in starts if x is not None}
            ops.append(" ".join(["cyc"] + [f"{k}={_opt(v)}" for k, v in att.items()]))
    else:
        unit = desc["component"] == "FIFOLatencyMeasurer"
        msta, msto = desc.get("msta", 1), desc.get("msto", 1)
        for _ in range(n):
            def one(mx):
                return (1 if unit else rng.randrange(1, mx + 1)) if rng.random() < p else None
            att = {"a": [one(msta) for _ in range(ways)], "a2": [one(msta) for _ in range(ways)],
                   "o": [one(msto) for _ in range(ways)], "o2": [one(msto) for _ in range(ways)]}
            ops.append(" ".join(["cyc"] + [f"{k}={_opt(v)}" for k, v in att.items()]))
    return Case(_cfg(desc) + " callers=2", ops, desc, "two-callers")


def more_cases(case: Case, rng):
    d = case.desc
    for _ in range(24):
        if d["component"] == "TaggedLatencyMeasurer":
            yield tagged_case(d, rng, 200, rng.choice([0.4, 0.8]), rng.choice([0.2, 0.5]), True, "search")
        else:
            yield fifo_case(d, rng, 200, rng.choice([0.4, 0.8]), rng.choice([0.2, 0.5]), True, "search")


def nontrivial(case: Case, out: list[str]) -> bool:
    """>= 2 events in flight at once and (FIFO kinds) a blocked start and a blocked stop, or >= 2 events finished in one
    cycle; all latencies within max_latency for the claimed stream"""
    if out[0] != "ok":
        return False
    lats, _ = true_latencies(case, out)
    if lats is None:
        return False
    multi = any(len(l) >= 2 for l in lats)
    blocked_a = blocked_o = False
    for op, o in zip(case.ops, out[1:]):
        f, g = _fields(op), _fields(o)
        for x, y in zip(_opt_list(f["a"]), _opt_list(g["a"])):
            blocked_a |= x is not None and not y
        for x, y in zip(_opt_list(f["o"]), _opt_list(g["o"])):
            blocked_o |= x is not None and not y
    long = any(x >= 2 for l in lats for x in l)
    if case.desc["component"] == "TaggedLatencyMeasurer":
        return long and (multi or case.desc["ways"] == 1)
    return long and (multi or (blocked_a and blocked_o))


def run(ctx: Check):
    ctx.rule = (
        "cases = (measurer class, ways, slots_number, max_start/stop_count, max_latency, history of per-way start/stop "
        "attempts); claimed stream: the generator forces stops so that every latency is <= max_latency (the monitor "
        "re-derives true latencies from a reference queue / slot table of start cycles and compares every histogram "
        "register every cycle); unclaimed stream (monitor off): latencies beyond max_latency, malformed tagged use; "
        "non-trivial = some latency >= 2 and (two events finished in one cycle, or a blocked start and a blocked stop)"
    )
    ctx.proof_stage()
    ctx.replay_findings(replay_witness)
    claimed, unclaimed = gen_cases(ctx)
    procs = 1 if ctx.quick else None

    def nt_claimed(case, out):
        if within(case, out):
            ctx.count("claimed_cases_all_latencies_within_max")
        return nontrivial(case, out)

    unclaimed_keys = {c.key() for c in unclaimed}

    def mon(case, out):  # no property claim on the unclaimed stream (model/implementation agreement only)
        return None if case.key() in unclaimed_keys else monitor(case, out)

    def nt(case, out):
        return nontrivial(case, out) if case.key() in unclaimed_keys else nt_claimed(case, out)

    # one driver invocation for both streams (the interpreter's start-up dominates otherwise)
    lockstep(ctx, "latency-measurers", "C32", claimed + unclaimed, impl, mon, more_cases, nt, procs=procs)
    # ---- two callers per way of start/stop (method exclusivity): implementation + monitor only, no Lean model involved
    #      (which competing caller the manager grants is taken from the observed done bits)
    from ..lockstep import _shrink

    mrng = ctx.rng("two-callers")
    # WideFIFOLatencyMeasurer is left out: with two callers of start[k]/stop[k] carrying different counts pysim does not
    # settle (the validity of WideFifo.write's arguments is computed from the caller-muxed data_in of the intermediate
    # method `start`, and the grant of the callers depends on that validity) - e.g. wide ways=1 slots=4 msta=msto=2:
    # "cyc a=2 a2=1 o=2 o2=-", "cyc a=- a2=2 o=1 o2=1" never returns.  That is a matter of validate_arguments (core), not C32.
    mc = [{"component": "FIFOLatencyMeasurer", "ways": 2, "slots": 2, "ml": 31},
          {"component": "FIFOLatencyMeasurer", "ways": 1, "slots": 3, "ml": 31},
          {"component": "TaggedLatencyMeasurer", "ways": 2, "slots": 4, "ml": 31}]
    import signal

    def _alarm(signum, frame):
        raise TimeoutError("pysim did not settle")

    for d0 in mc:
        d = {**d0, "callers": 2}
        for p in ((0.7,) if ctx.quick else (0.5, 0.7, 0.95)):
            case = two_caller_case(d, mrng, ctx.pick(80, 400), p)
            old = signal.signal(signal.SIGALRM, _alarm)
            signal.alarm(ctx.pick(20, 120))
            try:
                out = impl(case)
            except TimeoutError:
                ctx.count("two_caller_sim_timeouts")
                ctx.note(f"two-caller simulation did not settle within the time limit: {case.cfg} (no claim)")
                _sims.clear()
                break
            finally:
                signal.alarm(0)
                signal.signal(signal.SIGALRM, old)
            ctx.case(case.key(), nontrivial=within(case, out), n=len(case.ops))
            ctx.count("two_caller_cases")
            fail = monitor(case, out)
            if fail:
                small = _shrink(case, impl, monitor)
                ctx.violation(monitor(small, impl(small)) or fail,
                              {"cfg": small.cfg, "ops": small.ops, "desc": small.desc, "impl_observations": impl(small)})
    ctx.count("claimed_cases", len(claimed))
    ctx.count("unclaimed_cases", len(unclaimed))
    ctx.count("configs", len({c.cfg for c in claimed + unclaimed}))


def replay_witness(w: dict) -> Optional[str]:
    desc = w["desc"]
    case = Case(w.get("cfg") or _cfg(desc), list(w["ops"]), desc, "witness")
    return monitor(case, impl(case))


def replay(ctx: Check, body: dict):
    if "witness" in body:
        return replay_witness(body["witness"])
    from ..lockstep import replay_case

    return replay_case(body, impl, monitor)
