"""C35 — Profiler records what actually ran (transactron/profiler.py, transactron/testing/profiler.py)."""

from __future__ import annotations

import json
from typing import Optional

from ..common import CORPUS, Check
from ..lockstep import Case, lockstep

META = {
    "id": "C35",
    "design_ref": "DESIGN.md §8 C35",
    "technique": "Lean 4 theorems over a loop-by-loop transcription of CycleProfile.make and "
    "Profile.analyze_transactions (dict = association list with in-place update); correspondence (a) generated "
    "Transactron designs simulated in pysim with the real profiler_process, the recorded Profile compared with the "
    "model's output on independently sampled ready/runnable/run signals and the ProfileData the real "
    "ProfileData.make returns, (b) synthetic ProfileData/ProfileSamples pushed through the real CycleProfile.make "
    "and analyze_transactions(recursive=False/True)",
    "level_text": "c35_running_tx / c35_method_caller_running / c35_running_exact (exactly the running transactions and "
    "methods are listed, methods with a running parent, given C04 on the samples), c35_locked / c35_locked_iff, "
    "c35_stats (run/locked = counts over the history) are proved for every ProfileData, every sample valuation with "
    "distinct ids and every history; c35_cycle ties the profile to the per-cycle function; c35_no_raise: make never "
    "raises StopIteration when transactions_by_method is consistent with method_parents",
    "level_note": "trusted: Lean kernel (propext, Classical.choice, Quot.sound), pysim, harness glue. Hypothesis of "
    "c35_method_caller_running is property C04 (a running method has a running parent); the monitor checks it on "
    "the sampled signals. The recursive=True tree is modelled and compared (fuel-bounded recursion) but only the "
    "per-transaction statistics have a theorem. ProfileData.make itself (MethodMap/_conflict_graph) is not "
    "modelled here (C01-C05 own it): its output is the model's input, and the monitor compares the profile with "
    "the conflict/caller relation the design generator knows independently. JSON encode/decode of Profile is not "
    "covered.",
}

# ------------------------------------------------------------------------------------------------
# formatting shared by both correspondences (must match lean/Driver/C35.lean)


def _fmt_cyc(c) -> str:
    run = ",".join(f"{k}:{'-' if v is None else v}" for k, v in c.running.items()) or "-"
    lck = ",".join(f"{k}:{v}" for k, v in c.locked.items()) or "-"
    return f"run={run} lck={lck}"


def _fmt_stats(profile) -> str:
    ids = [i for i, info in profile.transactions_and_methods.items() if info.is_transaction]
    nodes = profile.analyze_transactions()
    assert len(ids) == len(nodes)
    return "stats=" + (",".join(f"{i}:{n.stat.run}/{n.stat.locked}" for i, n in zip(ids, nodes)) or "-")


def _fmt_rows(profile) -> str:
    ids = [i for i, info in profile.transactions_and_methods.items() if info.is_transaction]
    nodes = profile.analyze_transactions(recursive=True)
    rows: list[tuple[tuple[int, ...], int, int]] = []

    def rec(path, node):
        rows.append((path, node.stat.run, node.stat.locked))
        for j, sub in node.callers.items():
            rec(path + (j,), sub)

    for i, n in zip(ids, nodes):
        rec((i,), n)
    rows.sort()
    return "rows=" + (";".join(f"{'.'.join(map(str, p))}:{r}/{l}" for p, r, l in rows) or "-")


def _fmt_map(m: dict) -> str:
    return ";".join(f"{k}:{','.join(map(str, v))}" for k, v in m.items()) or "-"


def _cfg_line(tx: list[int], ms: list[int], par: dict, tbm: dict, cf: dict) -> str:
    return (
        f"cfg tx={','.join(map(str, tx)) or '-'} m={','.join(map(str, ms)) or '-'} "
        f"par={_fmt_map(par)} tbm={_fmt_map(tbm)} cf={_fmt_map(cf)}"
    )


def _parse_map(s: str) -> dict[int, list[int]]:
    if s == "-":
        return {}
    out = {}
    for e in s.split(";"):
        k, v = e.split(":")
        out[int(k)] = [int(x) for x in v.split(",")] if v else []
    return out


def _parse_cfg(cfg: str):
    t = dict(x.split("=", 1) for x in cfg.split()[1:])
    ids = lambda s: [] if s == "-" else [int(x) for x in s.split(",")]  # noqa: E731
    return ids(t["tx"]), ids(t["m"]), _parse_map(t["par"]), _parse_map(t["tbm"]), _parse_map(t["cf"])


def _parse_cyc(op: str):
    t = dict(x.split("=", 1) for x in op.split()[1:])
    tb = [] if t["t"] == "-" else [tuple(int(c) for c in x) for x in t["t"].split(",")]
    mb = [] if t["m"] == "-" else [int(c) for c in t["m"]]
    return tb, mb, t.get("in")


# ------------------------------------------------------------------------------------------------
# (b) synthetic: the real CycleProfile.make / analyze_transactions on given data and samples


def impl_synth(case: Case) -> list[str]:
    from transactron.profiler import (
        CycleProfile,
        MethodSamples,
        Profile,
        ProfileData,
        ProfileInfo,
        ProfileSamples,
        TransactionSamples,
    )

    tx, ms, par, tbm, cf = _parse_cfg(case.cfg)
    info = {i: ProfileInfo(f"t{i}", ("x.py", i), True) for i in tx}
    # a method id equal to a transaction id (malformed stream) overwrites, as a dict would
    for i in ms:
        if i not in info:
            info[i] = ProfileInfo(f"m{i}", ("x.py", i), False)
    data = ProfileData(info, par, tbm, cf)
    profile = Profile(transactions_and_methods=info)
    out = ["ok"]
    for op in case.ops:
        kind = op.split()[0]
        try:
            if kind == "cyc":
                tb, mb, _ = _parse_cyc(op)
                s = ProfileSamples()
                for i, (r, rn, ru) in zip(tx, tb):
                    s.transactions[i] = TransactionSamples(bool(r), bool(rn), bool(ru))
                for i, b in zip(ms, mb):
                    s.methods[i] = MethodSamples(bool(b))
                c = CycleProfile.make(s, data)
                profile.cycles.append(c)
                out.append(_fmt_cyc(c))
            elif kind == "ana":
                out.append(_fmt_stats(profile))
            elif kind == "anarec":
                out.append(_fmt_rows(profile))
            else:
                out.append("bad-op")
        except Exception as e:  # noqa: BLE001 - an exception of the real code is an observation
            out.append(f"raise {type(e).__name__}")
    return out


# ------------------------------------------------------------------------------------------------
# (a) generated designs with the real profiler_process


def _reach(desc, calls) -> list[int]:
    out = []
    for j, _c in calls:
        out.append(j)
        out += _reach(desc, desc["mcalls"][j])
    return out


def _chains(desc, calls, above=()) -> list[tuple[int, ...]]:
    """every call chain below a body, written from the called method upwards (MethodMap CallInfo.ancestors)"""
    out = []
    for j, _c in calls:
        ch = (j, *above)
        out.append(ch)
        out += _chains(desc, desc["mcalls"][j], ch)
    return out


def ref_conflicts(desc) -> list[set[int]]:
    """Independent reading of 'transactions conflict': an explicit add_conflict, or both reach one method through
    call chains whose topmost shared method is exclusive."""
    n = desc["nT"]
    conf = [set() for _ in range(n)]
    ch = [_chains(desc, desc["tcalls"][i]) for i in range(n)]
    for a in range(n):
        for b in range(n):
            if a == b:
                continue
            hit = False
            for c1 in ch[a]:
                for c2 in ch[b]:
                    if c1[0] != c2[0]:
                        continue
                    k = 0
                    while k < min(len(c1), len(c2)) and c1[k] == c2[k]:
                        k += 1
                    if not desc["nonex"][c1[k - 1]]:
                        hit = True
            if hit:
                conf[a].add(b)
    for a, b, _p in desc["confl"]:
        conf[a].add(b)
        conf[b].add(a)
    return conf


def gen_design(rng, big: bool = False) -> dict:
    while True:
        nT = rng.randint(2, 6 if big else 4)
        nM = rng.randint(1, 7 if big else 5)
        nC = 2
        pc = rng.choice([0.2, 0.35, 0.5])
        cond = lambda: rng.choice([None, None, None, 0, 1])  # noqa: E731
        mcalls = [[(k, cond()) for k in range(j + 1, nM) if rng.random() < pc] for j in range(nM)]
        tcalls = [[(j, cond()) for j in range(nM) if rng.random() < pc + 0.1] for _ in range(nT)]
        nonex = [rng.random() < 0.25 for _ in range(nM)]
        desc = dict(nT=nT, nM=nM, nC=nC, mcalls=mcalls, tcalls=tcalls, nonex=nonex, confl=[])
        if not all(len(set(r := _reach(desc, lst))) == len(r) for lst in tcalls + mcalls):
            continue  # a method called twice from one root is rejected by MethodMap
        for _ in range(rng.choice([0, 0, 1, 2])):
            a, b = rng.sample(range(nT), 2)
            if not any({a, b} == {x, y} for x, y, _ in desc["confl"]):
                desc["confl"].append((a, b, rng.randint(0, 2)))
        return desc


def _build(desc):
    from amaranth import Elaboratable, Signal
    from transactron import Method, TModule, Transaction
    from transactron.core import Priority

    class Gen(Elaboratable):
        def __init__(self):
            self.treq = [Signal(name=f"treq{i}") for i in range(desc["nT"])]
            self.mrdy = [Signal(name=f"mrdy{j}") for j in range(desc["nM"])]
            self.cond = [Signal(name=f"cond{c}") for c in range(desc["nC"])]
            self.meths = [Method(name=f"M{j}") for j in range(desc["nM"])]
            self.trans: list = []

        def elaborate(self, platform):
            m = TModule()
            dummy = Signal()
            m.d.sync += dummy.eq(~dummy)

            def calls(lst):
                for j, c in lst:
                    if c is None:
                        self.meths[j](m)
                    else:
                        with m.If(self.cond[c]):
                            self.meths[j](m)

            for j in range(desc["nM"]):
                with self.meths[j].body(m, ready=self.mrdy[j], nonexclusive=bool(desc["nonex"][j])):
                    calls(desc["mcalls"][j])
            for i in range(desc["nT"]):
                t = Transaction(name=f"T{i}")
                self.trans.append(t)
                with t.body(m, ready=self.treq[i]):
                    calls(desc["tcalls"][i])
            prio = {0: Priority.UNDEFINED, 1: Priority.LEFT, 2: Priority.RIGHT}
            for a, b, p in desc["confl"]:
                self.trans[a].add_conflict(self.trans[b], prio[p])
            return m

    return Gen()


_sim_cache: dict[str, dict] = {}


def simulate(desc: dict, stim: list[str]) -> dict:
    """Elaborate the design with the real TransactionManager, run it with the real profiler_process attached
    and, independently, sample ready/runnable/run of every Transaction object and run of every Method object."""
    key = json.dumps([desc, stim])
    if key in _sim_cache:
        return _sim_cache[key]
    from amaranth.sim import Simulator
    from transactron.core.context import TransactronContextElaboratable
    from transactron.profiler import Profile, ProfileData
    from transactron.testing.profiler import profiler_process
    from transactron.utils.dependencies import DependencyContext, DependencyManager

    dm = DependencyManager()
    with DependencyContext(dm):
        g = _build(desc)
        top = TransactronContextElaboratable(g, dependency_manager=dm)
        sim = Simulator(top)
    sim.add_clock(1e-6)
    tm = top.transaction_manager
    profile = Profile()
    rows: list[list[int]] = []

    async def tb(ctx):
        for line in stim:
            tr, mr, cd = line.split("/")
            for s, v in zip(g.treq, tr):
                ctx.set(s, int(v))
            for s, v in zip(g.mrdy, mr):
                ctx.set(s, int(v))
            for s, v in zip(g.cond, cd):
                ctx.set(s, int(v))
            smp = await ctx.tick().sample(
                *[x for t in g.trans for x in (t.ready, t.runnable, t.run)], *[mm.run for mm in g.meths]
            )
            rows.append([int(x) for x in smp[2:]])

    sim.add_testbench(tb)
    sim.add_process(profiler_process(tm, profile))
    sim.run()
    pd, _ = ProfileData.make(tm)
    names = {i: info.name for i, info in profile.transactions_and_methods.items()}
    if {i: x.name for i, x in pd.transactions_and_methods.items()} != names:
        raise RuntimeError("ProfileData.make numbered the bodies differently on a second call")
    res = dict(profile=profile, pd=pd, rows=rows, names=names)
    if len(_sim_cache) < 4000:
        _sim_cache[key] = res
    return res


def _name_index(names: dict[int, str]):
    """id -> ('T'|'M', index) from the unique names given by the generator ('Gen_T3', 'Gen_M0')"""
    out = {}
    for i, n in names.items():
        base = n.split("_")[-1]
        out[int(i)] = (base[0], int(base[1:]))
    return out


def design_case(desc: dict, stim: list[str], tag: str) -> Case:
    r = simulate(desc, stim)
    pd, names = r["pd"], r["names"]
    idx = _name_index(names)
    tx = [i for i, info in pd.transactions_and_methods.items() if info.is_transaction]
    ms = [i for i, info in pd.transactions_and_methods.items() if not info.is_transaction]
    nT = desc["nT"]
    ops = []
    for line, row in zip(stim, r["rows"]):
        tb = ",".join("".join(str(b) for b in row[3 * idx[i][1] : 3 * idx[i][1] + 3]) for i in tx) or "-"
        mb = "".join(str(row[3 * nT + idx[i][1]]) for i in ms) or "-"
        ops.append(f"cyc t={tb} m={mb} in={line}")
    ops += ["ana", "anarec"]
    d = {"kind": "design", "design": desc, "names": {str(k): v for k, v in names.items()}}
    case = Case(_cfg_line(tx, ms, pd.method_parents, pd.transactions_by_method, pd.transaction_conflicts), ops, d, tag)
    # The order of ProfileData's conflict lists comes from iterating sets of objects and may differ between two
    # elaborations of the same design.  The configuration line above and the implementation's profile must come from
    # ONE elaboration, so the profile lines are fixed here (see `impl_design`).
    _impl_cache[case.key()] = _profile_lines(case, r)
    return case


def design_job(desc: dict, stim: list[str], tag: str):
    """for worker processes: the case together with the implementation's observation lines"""
    c = design_case(desc, stim, tag)
    return c, _impl_cache[c.key()]


_impl_cache: dict[str, list[str]] = {}


def impl_design(case: Case) -> list[str]:
    if case.key() in _impl_cache:
        return _impl_cache[case.key()]
    # shrunk / replayed cases: simulate again (only the monitor looks at these, and it does not depend on list order)
    desc = case.desc["design"]
    stim = [_parse_cyc(op)[2] for op in case.ops if op.startswith("cyc")]
    return _profile_lines(case, simulate(desc, stim))


def _profile_lines(case: Case, r: dict) -> list[str]:
    from transactron.profiler import Profile

    stim = [_parse_cyc(op)[2] for op in case.ops if op.startswith("cyc")]
    prof = r["profile"]
    if {str(k): v for k, v in r["names"].items()} != case.desc["names"]:
        return ["ids-renumbered"] + ["-"] * len(case.ops)
    if len(prof.cycles) > len(stim):
        return [f"profile-has-{len(prof.cycles)}-cycles-for-{len(stim)}-clock-edges"] + ["-"] * len(case.ops)
    out = ["ok"]
    k = 0
    # the profile of the prefix of cycles seen so far (ana/anarec may appear anywhere after shrinking)
    for op in case.ops:
        kind = op.split()[0]
        if kind == "cyc":
            out.append(_fmt_cyc(prof.cycles[k]) if k < len(prof.cycles) else "missing-cycle")
            k += 1
        else:
            part = Profile(transactions_and_methods=prof.transactions_and_methods, cycles=prof.cycles[:k])
            try:
                out.append(_fmt_stats(part) if kind == "ana" else _fmt_rows(part))
            except Exception as e:  # noqa: BLE001
                out.append(f"raise {type(e).__name__}")
    return out


def impl(case: Case) -> list[str]:
    return impl_design(case) if case.desc.get("kind") == "design" else impl_synth(case)


# ------------------------------------------------------------------------------------------------
# the property monitor: the sentences of C35 on the implementation's profile vs. the sampled signals


def _parse_out_cyc(o: str):
    f = dict(x.split("=", 1) for x in o.split())
    run = {}
    if f["run"] != "-":
        for e in f["run"].split(","):
            k, v = e.split(":")
            run[int(k)] = None if v == "-" else int(v)
    lck = {}
    if f["lck"] != "-":
        for e in f["lck"].split(","):
            k, v = e.split(":")
            lck[int(k)] = int(v)
    return run, lck


def monitor(case: Case, out: list[str]) -> Optional[str]:
    if case.desc.get("malformed"):
        return None  # environment hypotheses (distinct ids, consistent ProfileData) not met: no property claim
    tx, ms, par, tbm, cf = _parse_cfg(case.cfg)
    if out[0] != "ok":
        return None if case.desc.get("kind") != "design" else f"implementation answered {out[0]}"
    if case.desc.get("kind") == "design":
        # reference relations from the generator's own description of the design, not from ProfileData
        desc = case.desc["design"]
        idx = _name_index(case.desc["names"])
        rid = {v: k for k, v in idx.items()}
        rc = ref_conflicts(desc)
        conflicts = {i: {rid[("T", b)] for b in rc[idx[i][1]]} for i in tx}
        callers: dict[int, set[int]] = {i: set() for i in ms}
        for a in range(desc["nT"]):
            for j, _c in desc["tcalls"][a]:
                callers[rid[("M", j)]].add(rid[("T", a)])
        for a in range(desc["nM"]):
            for j, _c in desc["mcalls"][a]:
                callers[rid[("M", j)]].add(rid[("M", a)])
    else:
        conflicts = {i: set(cf.get(i, [])) for i in tx}
        callers = {i: set(par.get(i, [])) for i in ms}
    runs = {i: 0 for i in tx}
    lcks = {i: 0 for i in tx}
    k = -1
    for op, o in zip(case.ops, out[1:]):
        kind = op.split()[0]
        if kind == "cyc":
            k += 1
            if o.startswith("raise"):
                # only the synthetic stream may contain inconsistent ProfileData (no property claim there)
                if case.desc.get("kind") == "design":
                    return f"cycle {k}: CycleProfile.make raised: {o}"
                continue
            if not o.startswith("run="):
                return f"cycle {k}: no CycleProfile was recorded for this clock cycle ({o})"
            tb, mb, _ = _parse_cyc(op)
            run, lck = _parse_out_cyc(o)
            ts = dict(zip(tx, tb))
            msr = dict(zip(ms, mb))
            running_ids = {i for i, (_r, _rn, ru) in ts.items() if ru} | {i for i, b in msr.items() if b}
            # "lists exactly the transactions and methods that ran"
            c04 = all(any(p in running_ids for p in callers[i]) for i, b in msr.items() if b)
            expected_keys = running_ids if c04 else {i for i in running_ids if i in ts or any(p in running_ids for p in callers[i])}
            if set(run) != expected_keys:
                return f"cycle {k}: profile lists running={sorted(run)} but sampled run bits are set for {sorted(running_ids)}"
            for i, v in run.items():
                if i in ts and ts[i][2]:
                    if v is not None and i not in msr:
                        return f"cycle {k}: running transaction {i} listed with caller {v}"
                if i in msr and i not in ts:
                    # "(each method with a running caller)"
                    if v is None or v not in callers[i] or v not in running_ids:
                        return f"cycle {k}: running method {i} listed with caller {v}; callers={sorted(callers[i])} running={sorted(running_ids)}"
            if case.desc.get("kind") == "design" and not c04:
                return f"cycle {k}: a running method has no running caller in the sampled signals (C04 broken, profile cannot name a caller)"
            # "marks a transaction as locked only when it was ready and runnable but a conflicting transaction ran"
            for i, v in lck.items():
                if i in ts and i not in msr:
                    r, rn, ru = ts[i]
                    if not (r and rn and not ru and v in conflicts[i] and v in ts and ts[v][2]):
                        return (
                            f"cycle {k}: transaction {i} marked locked by {v} with ready={r} runnable={rn} run={ru}, "
                            f"conflicts={sorted(conflicts[i])}, run({v})={ts.get(v, (0, 0, 0))[2]}"
                        )
            for i, (r, rn, ru) in ts.items():
                runs[i] += ru
                lcks[i] += int(bool(r and rn and not ru and any(ts[j][2] for j in conflicts[i] if j in ts)))
        elif kind in ("ana", "anarec") and o.startswith("raise") and case.desc.get("kind") == "design":
            return f"analyze_transactions raised on a recorded profile: {o}"
        elif kind == "ana" and o.startswith("stats="):
            # "the per-transaction run/locked statistics equal the counts over cycles"
            if set(tx) & set(ms):
                continue
            got = {}
            if o != "stats=-":
                for e in o[len("stats=") :].split(","):
                    i, rl = e.split(":")
                    got[int(i)] = tuple(int(x) for x in rl.split("/"))
            for i in tx:
                if got.get(i) != (runs[i], lcks[i]):
                    return f"analyze_transactions: transaction {i} has run/locked={got.get(i)} but the counts over the {k + 1} cycles are {(runs[i], lcks[i])}"
        elif kind == "anarec" and o.startswith("rows="):
            if set(tx) & set(ms):
                continue
            top = {}
            if o != "rows=-":
                for e in o[len("rows=") :].split(";"):
                    p, rl = e.split(":")
                    if "." not in p:
                        top[int(p)] = tuple(int(x) for x in rl.split("/"))
            for i in tx:
                if top.get(i) != (runs[i], lcks[i]):
                    return f"analyze_transactions(recursive=True): transaction {i} has run/locked={top.get(i)} but the counts are {(runs[i], lcks[i])}"
    return None


# ------------------------------------------------------------------------------------------------
# generators


def _stim(rng, desc, n: int) -> list[str]:
    pt = rng.choice([0.5, 0.8, 1.0])
    pm = rng.choice([0.6, 0.9, 1.0])
    out = []
    for _ in range(n):
        tr = "".join(str(int(rng.random() < pt)) for _ in range(desc["nT"]))
        mr = "".join(str(int(rng.random() < pm)) for _ in range(desc["nM"]))
        cd = "".join(str(rng.randint(0, 1)) for _ in range(desc["nC"]))
        out.append(f"{tr}/{mr}/{cd}")
    return out


def synth_case(rng, malformed: bool = False, tag: str = "random") -> Case:
    nT = rng.randint(1, 5)
    nM = rng.randint(0, 5)
    ids = rng.sample(range(1, 40), nT + nM)
    tx, ms = ids[:nT], ids[nT:]
    if malformed and ms and rng.random() < 0.5:
        ms[rng.randrange(len(ms))] = rng.choice(tx)  # id clash between a transaction and a method
        ms = list(dict.fromkeys(ms))
    cf = {t: [u for u in rng.sample(tx, len(tx)) if u != t and rng.random() < 0.5] for t in tx}
    par: dict[int, list[int]] = {}
    tbm: dict[int, list[int]] = {}
    for k, m in enumerate(ms):
        cands = tx + ms[:k]  # acyclic: parents among transactions and earlier methods
        par[m] = [p for p in rng.sample(cands, len(cands)) if rng.random() < 0.45]
        if malformed:
            tbm[m] = [t for t in tx if rng.random() < 0.4]
        else:
            s: list[int] = []
            for p in par[m]:
                for t in [p] if p in tx else tbm[p]:
                    if t not in s:
                        s.append(t)
            rng.shuffle(s)
            tbm[m] = s
    ops = []
    # an id shared by a transaction and a method makes `called` cyclic: Python recurses without bound
    # (RecursionError) where the model runs out of fuel, so recursive=True is not exercised there
    anas = ["ana"] if set(tx) & set(ms) else ["ana", "anarec"]
    for _ in range(rng.randint(3, 14)):
        tb = []
        for _t in tx:
            ru = int(rng.random() < 0.45)
            r, rn = (1, 1) if ru else (int(rng.random() < 0.8), int(rng.random() < 0.8))
            tb.append(f"{r}{rn}{ru}")
        run_now = {t for t, b in zip(tx, tb) if b[2] == "1"}
        mb = []
        for m in ms:
            if malformed:
                b = int(rng.random() < 0.4)
            else:
                # C04 on the samples: a method may run only if one of its parents runs
                b = int(any(p in run_now for p in par[m]) and rng.random() < 0.75)
            if b:
                run_now.add(m)
            mb.append(str(b))
        ops.append(f"cyc t={','.join(tb) or '-'} m={''.join(mb) or '-'}")
        if rng.random() < 0.15:
            ops.append(rng.choice(anas))
    ops += anas
    desc = {"kind": "synthetic", "malformed": malformed, "nT": nT, "nM": len(ms)}
    return Case(_cfg_line(tx, ms, par, tbm, cf), ops, desc, tag)


DIRECTED = [
    # two transactions through a nested chain, third explicit conflict; every input combination appears
    dict(nT=3, nM=3, nC=2, mcalls=[[(1, None)], [(2, 0)], []], tcalls=[[(0, None)], [(2, None)], []],
         nonex=[False, False, False], confl=[(1, 2, 1)]),
    # a nonexclusive method with two callers that may run together (last running parent is reported)
    dict(nT=3, nM=2, nC=2, mcalls=[[(1, None)], []], tcalls=[[(0, None)], [(1, 1)], [(1, None)]],
         nonex=[False, True], confl=[]),
    # an uncalled method, a transaction without calls
    dict(nT=2, nM=2, nC=2, mcalls=[[], []], tcalls=[[(0, None)], []], nonex=[False, False], confl=[(0, 1, 0)]),
]


def run(ctx: Check):
    ctx.rule = (
        "designs: a case = generated design (2-6 transactions, 1-7 methods, nested/conditional/nonexclusive calls, "
        "explicit conflicts) + random ready/condition inputs per cycle; non-trivial = some transaction is locked in "
        "some cycle and some running method is called by a method (nested). synthetic: a case = random ProfileData + "
        "sample history; non-trivial = a locked entry and a running method occur"
    )
    ctx.proof_stage()
    rng = ctx.rng("gen")

    def nontrivial(case, out):
        tx, ms, *_ = _parse_cfg(case.cfg)
        locked_tx = nested = False
        for op, o in zip(case.ops, out[1:]):
            if op.startswith("cyc") and o.startswith("run="):
                run_, lck = _parse_out_cyc(o)
                locked_tx |= any(i in tx for i in lck)
                nested |= any(v in ms for v in run_.values())
        if case.desc.get("kind") == "design":
            return locked_tx and nested
        return locked_tx and any(o.startswith("run=") and any(f"{m}:" in o.split()[0] for m in ms) for o in out[1:])

    # ---- corpus (minimised failing inputs of past mutants / directed cases), run first
    corpus_d: list[Case] = []
    corpus_s: list[Case] = []
    cdir = CORPUS / "C35"
    for fn in sorted(cdir.glob("*.json")) if cdir.exists() else []:
        b = json.loads(fn.read_text())
        if b.get("desc", {}).get("kind") == "design":
            stim = [_parse_cyc(op)[2] for op in b["ops"] if op.startswith("cyc")]
            corpus_d.append(design_case(b["desc"]["design"], stim, "corpus"))  # rebuilt: ids/orders of this run
        else:
            corpus_s.append(Case(b["cfg"], list(b["ops"]), b.get("desc", {"kind": "synthetic"}), "corpus"))

    # ---- (a) real designs with the real profiler_process
    cases: list[Case] = list(corpus_d)
    for d in DIRECTED:
        n = len(d["tcalls"]) + len(d["mcalls"]) + d["nC"]
        stim = []
        for x in range(min(2**n, 256)):
            bits = f"{x:0{n}b}"
            stim.append(f"{bits[:d['nT']]}/{bits[d['nT']:d['nT'] + d['nM']]}/{bits[d['nT'] + d['nM']:]}")
        cases.append(design_case(d, stim, "directed"))
    ndes = ctx.pick(60, 1500)
    jobs = []
    for k in range(ndes):
        d = gen_design(rng, big=(k % 3 == 2))
        jobs.append((d, _stim(rng, d, ctx.pick(24, 60)), "random"))
    if ctx.quick:
        cases += [design_case(*j) for j in jobs]
    else:
        import multiprocessing as mp
        import os

        with mp.get_context("fork").Pool(min(16, os.cpu_count() or 1)) as pool:
            for c, o in pool.starmap(design_job, jobs, chunksize=8):
                _impl_cache[c.key()] = o
                cases.append(c)
    for c in cases:
        ctx.count("designs_transactions", c.desc["design"]["nT"])
        ctx.count("designs_methods", c.desc["design"]["nM"])
        ctx.count("designs_nested_calls", sum(len(x) for x in c.desc["design"]["mcalls"]))
        ctx.count("designs_nonexclusive_methods", sum(c.desc["design"]["nonex"]))
        ctx.count("designs_explicit_conflicts", len(c.desc["design"]["confl"]))

    def more_design(case, rng2):
        d = case.desc["design"]
        for _ in range(25):
            yield design_case(d, _stim(rng2, d, 40), "search")

    # ---- (b) synthetic data through the real CycleProfile.make / analyze_transactions
    scases = [synth_case(rng) for _ in range(ctx.pick(300, 6000))]
    if ctx.thorough:
        # every valuation of the sample bits (2 transactions x 3 bits, 2 methods) for a few consistent ProfileData;
        # valuations violating C04 are included: the monitor then only requires that such a method is not listed
        import itertools

        for _ in range(12):
            base = synth_case(rng)
            while base.desc["nT"] != 2 or base.desc["nM"] != 2:
                base = synth_case(rng)
            ops = [f"cyc t={''.join(map(str, v[:3]))},{''.join(map(str, v[3:6]))} m={v[6]}{v[7]}"
                   for v in itertools.product((0, 1), repeat=8)]
            scases.append(Case(base.cfg, ops + ["ana", "anarec"], base.desc, "exhaustive"))

    def more_synth(case, rng2):
        for _ in range(300):
            yield synth_case(rng2, tag="search")

    # outside the hypotheses (ids clash, inconsistent transactions_by_method, C04 broken on the samples): only
    # model/implementation agreement is checked there, the monitor makes no property claim (see `monitor`)
    mcases = [synth_case(rng, malformed=True, tag="malformed") for _ in range(ctx.pick(120, 3000))]

    def nontrivial_synth(case, out):
        if case.desc.get("malformed"):
            return any("raise" in x for x in out)
        return nontrivial(case, out)

    def more(case, rng2):
        return more_design(case, rng2) if case.desc.get("kind") == "design" else more_synth(case, rng2)

    ctx.count("cases_designs_with_profiler_process", len(cases))
    ctx.count("cases_synthetic_direct_calls", len(corpus_s) + len(scases) + len(mcases))
    # one Lean driver session for both correspondences (its start-up dominates the quick tier): the designs with the
    # real profiler_process first, then the direct calls of CycleProfile.make / analyze_transactions
    lockstep(ctx, "profiler_process+CycleProfile.make", "C35", cases + corpus_s + scases + mcases, impl, monitor, more,
             nontrivial_synth, procs=ctx.pick(1, None))
    ctx.note(
        "which of several simultaneously running conflicting transactions / parents is named depends on the iteration "
        "order of ProfileData's lists (sets in _conflict_graph); the model receives the lists ProfileData.make "
        "returned, the theorems hold for every order"
    )


def replay(ctx: Check, body: dict):
    from ..lockstep import replay_case

    return replay_case(body, impl, monitor)
