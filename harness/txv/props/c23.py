"""C23 — multiport memories are equivalent to an ideal synchronous memory
(transactron/utils/amaranth_ext/memory.py: MultiReadMemory, MultiportXORMemory, OneHotCodedILVT,
MultiportILVTMemory / MultiportXORILVTMemory / MultiportOneHotILVTMemory).

Three-way comparison on every cycle and every read port:
  real class            vs  amaranth.lib.memory.Memory (same ports)   = the property monitor
  real class            vs  Lean model of the class                    = correspondence
  amaranth's Memory     vs  Lean `Ideal` (the specification the theorems refine to)
The memories are not method-based components, so the ports are driven directly in pysim.
"""

from __future__ import annotations

import json
import os
from typing import Optional

from ..common import CORPUS, Check
from ..lockstep import Case, lockstep

META = {
    "id": "C23",
    "design_ref": "DESIGN.md §7 C23, §11 F6-F9",
    "technique": "Lean 4 theorems over hand-written step models of MultiReadMemory, MultiportXORMemory, OneHotCodedILVT "
    "and MultiportILVTMemory (refinement to an ideal synchronous memory by pipeline invariants; algebraic cores for any "
    "number of write ports); cycle-exact three-way lock-step of real class / Amaranth's own Memory / Lean models in pysim",
    "level_text": "see the OBLIGATION lines of lean/TxV/Props/C23.lean: c23_refines_multiread (no hypothesis: all port counts, "
    "init, transparency, granularity); c23_refines_xor, c23_refines_ilvt (XOR-ILVT, one-hot-ILVT and plain table) and "
    "c23_onehot_table are full pipeline refinements to the ideal memory for every depth/width/init, every number >= 1 of write "
    "ports, every number of read ports, every transparency set and every history of in-range port values whose enabled write "
    "ports address pairwise distinct rows (granularity None); xor_write_restores / onehot_ilvt_decode(_later) are the algebraic "
    "cores for any number of write ports",
    "level_note": "trusted: Lean kernel, axioms propext/Quot.sound/Classical.choice; Amaranth semantics of lib.memory.Memory "
    "(the Lean Ideal model is compared with Amaranth's own Memory on every cycle of every run) and pysim; the harness glue; the "
    "hand-written models (compared cycle-exactly with the real classes, also outside the hypotheses). Hypotheses forced by the "
    "real code (each tried at the excluded point; listed as open findings F9, F-c23-2, F-c23-3 in known_findings.txt): no granularity on the ILVT classes (F9: accepted "
    "by the constructors, wrong data), at least one write port for the XOR/ILVT classes (init ignored otherwise), addresses "
    "< depth (MultiportXORMemory forwards dropped out-of-range writes through its bypass).",
}

CLASSES = {
    "mr": "MultiReadMemory",
    "xor": "MultiportXORMemory",
    "xilvt": "MultiportXORILVTMemory",
    "ohilvt": "MultiportOneHotILVTMemory",
    "lvt": "MultiportILVTMemory",
    "oh": "OneHotCodedILVT",
}

# --------------------------------------------------------------------------- real code in pysim


class _PortSim:
    """The real class and Amaranth's own Memory with identical port configuration in one simulation."""

    def __init__(self, cls: str, depth: int, w: int, grans: list[int], trs: list[int], init: list[int]):
        from amaranth import Elaboratable, Module
        from amaranth.lib import memory
        from amaranth.sim import Simulator
        import transactron.utils.amaranth_ext.memory as tm

        nw = len(grans)
        self.cls, self.nw, self.nr = cls, nw, len(trs)
        if cls == "oh":
            dut = tm.OneHotCodedILVT(shape=nw, depth=depth, init=[])
            ref = memory.Memory(shape=nw, depth=depth, init=[1] * depth)
        elif cls == "lvt":
            dut = tm.MultiportILVTMemory(shape=w, depth=depth, init=list(init))
            ref = memory.Memory(shape=w, depth=depth, init=list(init))
        else:
            dut = getattr(tm, CLASSES[cls])(shape=w, depth=depth, init=list(init))
            ref = memory.Memory(shape=w, depth=depth, init=list(init))
        self.dw = [dut.write_port(granularity=g or None) for g in grans]
        self.rw = [ref.write_port(granularity=(g or None) if cls != "oh" else None) for g in grans]
        self.dr = [dut.read_port(transparent_for=[self.dw[j] for j in range(nw) if t >> j & 1]) for t in trs]
        # the bare table ignores the transparency set (it is only used non-transparently): its reference is non-transparent
        self.rr = [ref.read_port(transparent_for=[self.rw[j] for j in range(nw) if t >> j & 1 and cls != "oh"]) for t in trs]

        class Top(Elaboratable):
            def elaborate(s, platform):
                m = Module()
                m.submodules.dut = dut
                m.submodules.ref = ref
                return m

        self.sim = Simulator(Top())
        self.sim.add_clock(1e-6)
        self._first = True
        self._job = None

    def run(self, ops):
        """ops: list of (writes [(en, addr, data)], reads [(en, addr)]); returns per cycle (dut data, ref data)."""
        res: list = []
        self._job = (ops, res)
        if self._first:
            self.sim.add_testbench(self._tb)
            self._first = False
        else:
            self.sim.reset()
        self.sim.run()
        return res

    async def _tb(self, ctx):
        ops, res = self._job
        sigs = [p.data for p in self.dr] + [p.data for p in self.rr]
        nr = self.nr
        for ws, rs in ops:
            for j, (en, a, d) in enumerate(ws):
                ctx.set(self.dw[j].en, en)
                ctx.set(self.dw[j].addr, a)
                ctx.set(self.dw[j].data, d)
                ctx.set(self.rw[j].en, en)
                ctx.set(self.rw[j].addr, a)
                ctx.set(self.rw[j].data, (1 << j) if self.cls == "oh" else d)
            for r, (en, a) in enumerate(rs):
                for p in (self.dr[r], self.rr[r]):
                    ctx.set(p.en, en)
                    ctx.set(p.addr, a)
            vals = await ctx.tick().sample(*sigs)
            vals = [int(v) for v in vals[-2 * nr :]]
            res.append((vals[:nr], vals[nr:]))


_sims: dict[str, object] = {}


def _cfg_of(line: str) -> dict:
    t = dict(x.split("=", 1) for x in line.split()[1:])
    lst = lambda s: [] if s == "-" else [int(x) for x in s.split(",")]  # noqa: E731
    return {"cls": t["cls"], "depth": int(t["depth"]), "w": int(t["w"]), "g": lst(t["g"]), "tr": lst(t["tr"]), "init": lst(t["init"])}


def _parse_op(line: str):
    t = dict(x.split("=", 1) for x in line.split()[1:])
    ws = [] if t["w"] == "-" else [tuple(int(y) for y in x.split(":")) for x in t["w"].split(",")]
    rs = [] if t["r"] == "-" else [tuple(int(y) for y in x.split(":")) for x in t["r"].split(",")]
    return ws, rs


def _fmt(l):
    return ",".join(str(x) for x in l) if l else "-"


def impl(case: Case) -> list[str]:
    sim = _sims.get(case.cfg)
    if sim is None:
        c = _cfg_of(case.cfg)
        try:
            sim = _PortSim(c["cls"], c["depth"], c["w"], c["g"], c["tr"], c["init"])
        except (ValueError, TypeError) as e:  # refusals of the real constructors are observations
            sim = "raise " + type(e).__name__
        except Exception as e:  # noqa: BLE001
            if type(e).__name__ != "IncorrectWritePortNumber":
                raise
            sim = "raise " + type(e).__name__
        if len(_sims) > 64:
            _sims.clear()
        _sims[case.cfg] = sim
    if isinstance(sim, str):
        return [sim] + ["bad-op"] * len(case.ops)
    try:
        res = sim.run([_parse_op(o) for o in case.ops])
    except Exception as e:  # noqa: BLE001  elaboration of the real class failed
        _sims[case.cfg] = "raise " + type(e).__name__
        return ["raise " + type(e).__name__] + ["bad-op"] * len(case.ops)
    return ["ok"] + [f"d={_fmt(d)} ref={_fmt(r)}" for d, r in res]


# --------------------------------------------------------------------------- property monitor


def monitor(case: Case, out: list[str]) -> Optional[str]:
    """The property sentence on the implementation's observations: on every read port and in every cycle the
    class shows the same data as Amaranth's own synchronous memory with the same ports (the `ref=` field is
    produced by amaranth.lib.memory.Memory simulated next to the class, not by the Lean model)."""
    if out[0] != "ok":
        return None  # the constructor refused the configuration: nothing is claimed
    cls = _cfg_of(case.cfg)["cls"]
    oh = cls == "oh"
    for k, o in enumerate(out[1:]):
        f = dict(x.split("=", 1) for x in o.split())
        if f["d"] != f["ref"]:
            d, r = f["d"].split(","), f["ref"].split(",")
            bad = [p for p in range(len(d)) if d[p] != r[p]]
            if oh:
                # the bare table has no output register: its answer is only claimed in the cycle after an enabled read
                prev = _parse_op(case.ops[k - 1])[1] if k else []
                bad = [p for p in bad if k and prev[p][0]]
            if not bad:
                continue
            port = bad[0]
            return (f"{CLASSES[cls]} {case.cfg[4:]}: cycle {k} read port {port} shows {d[port]}, "
                    f"Amaranth's Memory shows {r[port]} (inputs of the previous cycles: {case.ops[max(0, k - 3):k]})")
    return None


# --------------------------------------------------------------------------- generators


def _desc(cls, depth, w, grans, trs, init) -> dict:
    return {
        "component": CLASSES[cls], "cls": cls, "depth": depth, "width": w, "nr": len(trs), "nw": len(grans),
        "granularity": None if not any(grans) else list(grans), "has_granularity": any(grans),
        "init": bool(init), "transparent": any(trs),
    }


def mk_case(cls, depth, w, grans, trs, init, ops, tag="random", extra_desc=None) -> Case:
    cfg = f"cfg cls={cls} depth={depth} w={w} g={_fmt(grans)} tr={_fmt(trs)} init={_fmt(init)}"
    lines = [f"cyc w={','.join(f'{e}:{a}:{d}' for e, a, d in ws) if ws else '-'} r={','.join(f'{e}:{a}' for e, a in rs)}" for ws, rs in ops]
    d = _desc(cls, depth, w, grans, trs, init)
    if extra_desc:
        d.update(extra_desc)
    return Case(cfg, lines, d, tag)


def gen_ops(rng, depth, w, grans, nr, n, pw=0.6, pr=0.75, hot=3, amax=None, collide=False):
    """Random port history satisfying the property's hypothesis: enabled write ports of one cycle address
    pairwise distinct rows, all addresses are rows (< depth) unless `amax` widens the range; with
    `collide` the hypothesis is dropped (model/implementation agreement only)."""
    amax = amax or depth
    hotset = [rng.randrange(amax) for _ in range(min(hot, amax))]
    pick = lambda: rng.choice(hotset) if rng.random() < 0.7 else rng.randrange(amax)  # noqa: E731
    ops = []
    for _ in range(n):
        ws, used = [], set()
        for g in grans:
            enw = w // g if g else 1
            en = 0
            if rng.random() < pw:
                en = (1 << enw) - 1 if rng.random() < 0.4 else rng.randrange(1, 1 << enw)
            a = pick()
            if en and not collide:
                for _t in range(8):
                    if a not in used:
                        break
                    a = rng.randrange(amax)
                if a in used:
                    en = 0
                else:
                    used.add(a)
            ws.append((en, a, rng.randrange(1 << w)))
        rs = [(int(rng.random() < pr), pick()) for _ in range(nr)]
        ops.append((ws, rs))
    return ops


def _rand_init(rng, depth, w, full=None):
    k = depth if (full if full is not None else rng.random() < 0.6) else rng.randrange(0, depth + 1)
    return [rng.randrange(1 << w) for _ in range(k)]


def _grans_for(rng, cls, w, nw):
    """granularity only where the constructors accept it and the unconditional theorem applies
    (MultiReadMemory; the ILVT classes accept it but that is finding F9)"""
    if cls != "mr" or nw == 0:
        return [0] * nw
    divs = [g for g in range(1, w + 1) if w % g == 0]
    return [rng.choice([0, 0] + divs)]


def directed_cases(ctx: Check) -> list[Case]:
    cs: list[Case] = []
    # regression witnesses of the repaired defects F6/F7/F8 (kept here as well as in corpus/C23)
    init5 = [3, 1, 2, 3, 1]
    for cls in ("xor", "xilvt", "ohilvt", "lvt"):
        # F6/F7: non-empty init, a write by port 1 (a bank that is not initialised), then read every row
        ops = [([(0, 0, 0), (1, 2, 1)], [(1, 0)]), ([(0, 0, 0), (0, 0, 0)], [(1, 2)])]
        ops += [([(0, 0, 0), (0, 0, 0)], [(1, a)]) for a in range(5)] + [([(1, 4, 2), (0, 0, 0)], [(1, 4)])] * 2
        ops += [([(0, 0, 0), (0, 0, 0)], [(1, a)]) for a in range(5)]
        cs.append(mk_case(cls, 5, 2, [0, 0], [0], init5, ops, "directed"))
        # F8: transparent port, width 1 < 3 address bits; rows 1 and 5 agree in the low address bit
        ops = [([(1, 5, 1), (0, 0, 0)], [(1, 1)]), ([(0, 0, 0), (1, 6, 1)], [(1, 4)]), ([(1, 3, 1), (0, 0, 0)], [(1, 3)]),
               ([(0, 0, 0), (0, 0, 0)], [(1, 5)]), ([(0, 0, 0), (0, 0, 0)], [(1, 6)]), ([(0, 0, 0), (0, 0, 0)], [(0, 0)])]
        cs.append(mk_case(cls, 8, 1, [0, 0], [3], [], ops, "directed"))
    # write, read in the same / next / second-next cycle through every bypass stage, all classes
    for cls in CLASSES:
        for nw in (1, 2, 3):
            if cls == "mr" and nw > 1:
                continue
            for tr in (0, (1 << nw) - 1):
                w = 3
                ops = []
                for j in range(nw):
                    z = [(0, 0, 0)] * nw
                    wj = list(z)
                    wj[j] = (1, 1, 5 + j)
                    ops += [(wj, [(1, 1)]), (z, [(1, 1)]), (z, [(1, 1)]), (z, [(0, 0)]), (z, [(1, 1)]), (z, [(0, 1)])]
                    # back-to-back writes by different ports to the same row, read every cycle
                    w2 = list(z)
                    w2[(j + 1) % nw] = (1, 1, 2 + j)
                    ops += [(wj, [(1, 1)]), (w2, [(1, 1)]), (wj, [(1, 1)]), (z, [(1, 1)]), (z, [(1, 1)]), (z, [(1, 1)])]
                cs.append(mk_case(cls, 3, w, [0] * nw, [tr], [4, 0, 6] if cls != "oh" else [], ops, "directed"))
    # what the constructors refuse
    cs.append(mk_case("mr", 4, 4, [0, 0], [0], [], [], "directed"))
    cs.append(mk_case("xor", 4, 4, [2, 0], [0], [], [], "directed"))
    cs.append(mk_case("oh", 4, 4, [0, 4], [0], [], [], "directed"))
    cs.append(mk_case("mr", 4, 4, [3], [0], [], [], "directed"))
    cs.append(mk_case("xilvt", 4, 4, [0, 3], [0], [], [], "directed"))
    # a read-only MultiReadMemory (no write port)
    cs.append(mk_case("mr", 3, 4, [], [0, 0], [7, 9, 11], [([], [(1, 2), (1, 0)]), ([], [(0, 1), (1, 1)]), ([], [(1, 1), (0, 0)]), ([], [(0, 0), (0, 0)])], "directed"))
    return cs


def random_cases(ctx: Check) -> list[Case]:
    rng = ctx.rng("gen")
    cs: list[Case] = []
    ncfg = ctx.pick(5, 45)  # configurations per class
    ncyc = ctx.pick(120, 1200)
    for cls in CLASSES:
        for k in range(ncfg):
            depth = rng.choice([1, 2, 3, 4, 5, 6, 7, 8, 9]) if k else 5
            w = rng.randrange(1, 9)
            nr = rng.choice([1, 1, 2, 3])
            nw = rng.choice([1, 2, 2, 3, 3]) if cls != "mr" else rng.choice([0, 1, 1, 1, 1, 1])
            if ctx.quick and nw == 3 and nr == 3:
                nr = 2
            grans = _grans_for(rng, cls, w, nw)
            trs = [rng.choice([0, (1 << nw) - 1, rng.randrange(1 << nw)]) for _ in range(nr)]
            init = [] if (cls == "oh" or rng.random() < 0.3) else _rand_init(rng, depth, w)
            prof = rng.choice([(0.6, 0.75), (0.9, 0.9), (0.3, 0.5), (0.8, 0.4)])
            ops = gen_ops(rng, depth, w, grans, nr, ncyc, *prof)
            cs.append(mk_case(cls, depth, w, grans, trs, init, ops, "random"))
    return cs


def malformed_cases(ctx: Check) -> list[Case]:
    """Outside the property's hypotheses: same-row simultaneous writes, out-of-range addresses, and
    granularity on the ILVT classes (finding F9).  Only model/implementation (and Ideal/Amaranth)
    agreement is checked there: these cases run with monitor=None."""
    rng = ctx.rng("malformed")
    cs: list[Case] = []
    n = ctx.pick(2, 12)
    for cls in CLASSES:
        for k in range(n):
            depth = rng.choice([3, 5, 6, 7])
            w = rng.choice([2, 4, 6])
            nr = rng.choice([1, 2])
            nw = 1 if cls == "mr" else rng.choice([2, 3])
            trs = [rng.randrange(1 << nw) for _ in range(nr)]
            init = [] if cls == "oh" else _rand_init(rng, depth, w)
            grans = [0] * nw
            if cls in ("xilvt", "ohilvt", "lvt") and k % 2:
                grans = [rng.choice([0, 1, 2, w]) for _ in range(nw)]
            amax = 1 << (depth - 1).bit_length()
            ops = gen_ops(rng, depth, w, grans, nr, ctx.pick(60, 600), amax=amax, collide=(k % 2 == 0) or cls in ("mr",))
            cs.append(_unclaimed(mk_case(cls, depth, w, grans, trs, init, ops, "malformed")))
    # no write port at all: the XOR/ILVT classes have no bank then and ignore init (finding F-c23-2)
    for cls in ("xor", "xilvt", "ohilvt", "lvt"):
        ops = [([], [(1, a)]) for a in range(3)] + [([], [(0, 0)])]
        cs.append(_unclaimed(mk_case(cls, 3, 3, [], [0], [5, 6, 7], ops, "malformed")))
    return cs


def _unclaimed(case: Case) -> Case:
    """Cases that only check model = implementation carry a descriptor that no finding matches, so that a
    divergence there is never suppressed by `ctx.is_known`."""
    case.desc = {"component": case.desc["component"], "region": "outside-hypotheses (model/implementation agreement only)"}
    return case


def finding_region_cases(ctx: Check) -> list[Case]:
    """Histories that satisfy the property's hypothesis but lie in the regions of the open findings F9
    (ILVT classes with write granularity), F-c23-2 (XOR/ILVT classes without write port, init != []) and F-c23-3
    (MultiportXORMemory, addresses >= depth).  They run WITH the monitor; their descriptors carry the keys
    the findings match on, so exactly these failures are suppressed (counted as covered by a known finding)."""
    rng = ctx.rng("finding-regions")
    cs: list[Case] = []
    n = ctx.pick(1, 6)
    for cls in ("xilvt", "ohilvt", "lvt"):
        for _ in range(n):
            w = rng.choice([2, 4, 6])
            nw = rng.choice([1, 2, 3])
            depth = rng.choice([2, 3, 5, 8])
            grans = [rng.choice([g for g in range(1, w + 1) if w % g == 0]) for _ in range(nw)]
            trs = [rng.randrange(1 << nw)]
            ops = gen_ops(rng, depth, w, grans, 1, ctx.pick(60, 400))
            cs.append(mk_case(cls, depth, w, grans, trs, _rand_init(rng, depth, w), ops, "finding-region"))
    for cls in ("xor", "xilvt", "ohilvt", "lvt"):
        ops = [([], [(1, a)]) for a in range(3)] + [([], [(0, 0)])]
        cs.append(mk_case(cls, 3, 3, [], [0], [5, 6, 7], ops, "finding-region"))
    for _ in range(n):
        depth = rng.choice([3, 5, 6, 7])
        nw = rng.choice([1, 2])
        ops = gen_ops(rng, depth, 3, [0] * nw, 1, ctx.pick(60, 400), amax=1 << (depth - 1).bit_length())
        cs.append(mk_case("xor", depth, 3, [0] * nw, [rng.randrange(1 << nw)], [], ops, "finding-region", {"out_of_range": True}))
    return cs


def exhaustive_cases(ctx: Check) -> list[Case]:
    """thorough tier: on a tiny configuration (2 rows, 2 write ports, 1 read port) every pair of consecutive
    cycles of port values satisfying the hypothesis (the write pipelines are two stages deep), followed by
    three cycles that read both rows; data values are fixed per (port, cycle)."""
    import itertools

    cs: list[Case] = []
    cyc = []
    for en0, a0, en1, a1, ren, ra in itertools.product((0, 1), repeat=6):
        if en0 and en1 and a0 == a1:
            continue
        cyc.append((en0, a0, en1, a1, ren, ra))
    tail = [([(0, 0, 0), (0, 0, 0)], [(1, 0)]), ([(0, 0, 0), (0, 0, 0)], [(1, 1)]), ([(0, 0, 0), (0, 0, 0)], [(0, 0)])]
    for cls in ("xor", "xilvt", "ohilvt", "lvt", "oh"):
        for tr in ((0,) if cls == "oh" else (0, 3, 1)):
            init = [] if cls == "oh" else [2, 1]
            for c1 in cyc:
                for c2 in cyc:
                    ops = [([(c[0], c[1], 1 + k), (c[2], c[3], 3 - k)], [(c[4], c[5])]) for k, c in enumerate((c1, c2))]
                    cs.append(mk_case(cls, 2, 2, [0, 0], [tr], init, ops + tail, "exhaustive"))
    return cs


def corpus_cases() -> list[Case]:
    cs = []
    d = CORPUS / "C23"
    if d.is_dir():
        for p in sorted(d.glob("*.json")):
            b = json.loads(p.read_text())
            cs.append(Case(b["cfg"], list(b["ops"]), b.get("desc", {}), "corpus"))
    return cs


def more_cases(case: Case, rng):
    c = _cfg_of(case.cfg)
    if c["cls"] != "mr" and not c["g"]:
        return  # no write port: outside the theorems (finding F-c23-2)
    for k in range(30):
        grans = c["g"] if c["cls"] == "mr" else [0] * len(c["g"])  # search inside the hypotheses only (F9)
        ops = gen_ops(rng, c["depth"], c["w"], grans, len(c["tr"]), 200, *[(0.6, 0.75), (0.9, 0.9), (0.4, 0.5)][k % 3])
        yield mk_case(c["cls"], c["depth"], c["w"], grans, c["tr"], c["init"], ops, "search")


def nontrivial(case: Case, out: list[str]) -> bool:
    """an enabled read of a row that an enabled write addressed in the same or one of the two preceding
    cycles (the bypass / pending-write paths), and at least one non-zero datum read"""
    if out[0] != "ok":
        return True
    hit = False
    recent: list[set] = [set(), set(), set()]
    for o in case.ops:
        ws, rs = _parse_op(o)
        cur = {a for e, a, _ in ws if e}
        if any(e and (a in cur or a in recent[0] or a in recent[1]) for e, a in rs):
            hit = True
            break
        recent = [cur, recent[0], recent[1]]
    return hit and any(v not in ("0", "-") for o in out[1:] for v in o.split()[0][2:].split(","))


# --------------------------------------------------------------------------- finding witnesses (F9)


def _monitor_in_hypotheses(case: Case, out: list[str]) -> Optional[str]:
    return None if case.tag == "malformed" else monitor(case, out)


def replay_witness(w: dict) -> Optional[str]:
    """A witness is either a full case (`cfg` + `ops`) or a configuration class as the coordinator writes it
    (`cls` = class name, depth, width, read_ports, write_ports, init, transparent[, granularity]); the latter is
    expanded deterministically: a fixed initial content and fixed-seed histories satisfying the hypothesis."""
    import random

    if "cfg" in w:
        case = Case(w["cfg"], list(w["ops"]), w.get("desc", {}), "witness")
        return monitor(case, impl(case))
    cls = next(k for k, v in CLASSES.items() if v == w["cls"])
    depth, width, nr, nw = w["depth"], w["width"], w["read_ports"], w["write_ports"]
    init = [(i * 5 + 3) % (1 << width) for i in range(depth)] if w.get("init") else []
    trs = [(1 << nw) - 1 if w.get("transparent") else 0] * nr
    g = w.get("granularity") or 0
    grans = [g] * nw
    for seed in range(3):
        rng = random.Random(1000 + seed)
        ops = gen_ops(rng, depth, width, grans, nr, 120, 0.6, 0.75)
        case = mk_case(cls, depth, width, grans, trs, init, ops, "witness")
        f = monitor(case, impl(case))
        if f:
            return f
    return None


def run(ctx: Check):
    ctx.rule = (
        "case = (class, depth, width, read/write port counts, per-port transparency sets, init, granularity where the "
        "unconditional theorem applies) + a port-level history whose enabled write ports address pairwise distinct rows; "
        "non-trivial = some enabled read addresses a row written in the same or one of the two preceding cycles "
        "(bypass/pending-write paths) and a non-zero datum is read"
    )
    import time

    timing = {}
    t0 = time.time()
    ctx.proof_stage()
    timing["proof_s"] = round(time.time() - t0, 1)
    t0 = time.time()
    ctx.replay_findings(replay_witness)
    timing["finding_witnesses_s"] = round(time.time() - t0, 1)
    procs = ctx.pick(1, min(16, os.cpu_count() or 1))
    cases = corpus_cases() + directed_cases(ctx) + random_cases(ctx)
    for c in cases:
        ctx.count(f"class_{c.desc.get('cls')}")
        ctx.count(f"nw_{c.desc.get('nw')}")
        ctx.count("with_init" if c.desc.get("init") else "without_init")
        ctx.count("transparent" if c.desc.get("transparent") else "non_transparent")
        if c.desc.get("granularity"):
            ctx.count("with_granularity")
    # cases outside the hypotheses (tag "malformed") run in the same batch without the monitor: there only
    # model = implementation and Ideal = Amaranth's Memory are checked, no property claim
    cases += malformed_cases(ctx)
    cases += finding_region_cases(ctx)
    if ctx.thorough:
        ex = exhaustive_cases(ctx)
        ctx.count("exhaustive_two_cycle_histories", len(ex))
        cases += ex
    t0 = time.time()
    lockstep(ctx, "multiport-memories", "C23", cases, impl, _monitor_in_hypotheses, more_cases, nontrivial, procs=procs)
    timing["lockstep_s"] = round(time.time() - t0, 1)
    ctx.extra_coverage["timing"] = timing
    ctx.note("reference = amaranth.lib.memory.Memory simulated next to the class; the Lean driver prints the Ideal model "
             "in the same column, so the specification the theorems refine to is itself validated against Amaranth")
    ctx.note("same-row simultaneous writes (outside the property's hypothesis) run without the monitor (model/implementation "
             "agreement only, descriptor matches no finding); the regions of the open findings F9, F-c23-2, F-c23-3 run both "
             "that way and with the monitor under a descriptor the findings match (failures counted as covered)")


def replay(ctx: Check, body: dict):
    from ..lockstep import replay_case

    return replay_case(body, impl, monitor)
