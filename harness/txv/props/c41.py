"""C41 — data helpers: transpose, signed_to_int/int_to_signed, align_*, make_hashable
(transactron/utils/amaranth_ext/data.py:71-170, transactron/utils/data_repr.py:26-157)."""

from __future__ import annotations

import itertools
from typing import Any, Optional

from ..common import Check
from ..lockstep import Case, lockstep, replay_case

META = {
    "id": "C41",
    "design_ref": "DESIGN.md §9 C41",
    "technique": "Lean 4 theorems over hand-written models of the helpers (Python's unbounded-integer bitwise operators "
    "defined by sign cases; two-level layouts with bit-level member offsets; a JSON-like value type with Python "
    "equality for make_hashable); line-by-line correspondence of the models with the real functions",
    "level_text": "c41_transpose_get (bit-level: member [i][o] of the transposed view holds the bits of member [o][i], for "
    "every two-level struct/array layout and every value), c41_transpose_involution, c41_transpose_total, "
    "c41_signed_roundtrip / c41_unsigned_roundtrip (all widths >= 1, all width-bounded values), c41_align_up / "
    "c41_align_down (all integers, negative ones included, all powers), c41_make_hashable_eq (Python equality of "
    "arbitrarily nested tuples/lists/dicts/sets/frozensets is preserved) are proved for all inputs; the models are "
    "tied to the code by comparing results of the real functions (transposed layout, keys, value of the real "
    "transposed View evaluated by pysim and of the transposed Const, every member of it; integers; canonical form "
    "of make_hashable results and both equalities) on generated inputs",
    "level_note": "trusted: Lean kernel, axioms propext/Classical.choice/Quot.sound; Amaranth's layout classes (member "
    "offsets, View/Const indexing) and pysim as evaluator of the transposed View; Python's ==/hash on builtin "
    "containers. Third-level member shapes are opaque (width + identity tag). F12 (make_hashable on sets) was "
    "repaired by /repo commit 443ec9f and its witness is a regression case here.",
}

# ============================================================================= numeric helpers


def _num_impl(line: str) -> str:
    from transactron.utils.data_repr import (
        align_down_to_power_of_two,
        align_to_power_of_two,
        int_to_signed,
        signed_to_int,
    )

    t = line.split()
    kv = {k: int(v) for k, v in (x.split("=") for x in t[1:])}
    try:
        if t[0] == "i2s":
            return f"r={int_to_signed(kv['x'], kv['w'])}"
        if t[0] == "s2i":
            return f"r={signed_to_int(kv['x'], kv['w'])}"
        if t[0] == "rts":
            u = int_to_signed(kv["x"], kv["w"])
            return f"u={u} s={signed_to_int(u, kv['w'])}"
        if t[0] == "rtu":
            s = signed_to_int(kv["x"], kv["w"])
            return f"s={s} u={int_to_signed(s, kv['w'])}"
        if t[0] == "al":
            return f"up={align_to_power_of_two(kv['n'], kv['p'])} down={align_down_to_power_of_two(kv['n'], kv['p'])}"
    except TypeError:
        return "raise TypeError"
    return "bad-op"


def num_impl(case: Case) -> list[str]:
    return ["ok"] + [_num_impl(line) for line in case.ops]


def num_monitor(case: Case, out: list[str]):
    """round trips on width-bounded values (width >= 1) and the rounding property of align_*; every line is
    self-contained"""
    for n, (line, o) in enumerate(zip(case.ops, out[1:])):
        t = line.split()
        kv = {k: int(v) for k, v in (x.split("=") for x in t[1:])}
        if t[0] == "al":
            n_, p = kv["n"], kv["p"]
            f = dict(x.split("=") for x in o.split())
            up, down = int(f["up"]), int(f["down"])
            if up % 2**p or not (n_ <= up < n_ + 2**p):
                return f"op {n}: align_to_power_of_two({n_}, {p}) = {up} is not the least multiple of 2**{p} >= {n_}"
            if down % 2**p or not (down <= n_ < down + 2**p):
                return f"op {n}: align_down_to_power_of_two({n_}, {p}) = {down} is not the greatest multiple of 2**{p} <= {n_}"
        elif t[0] in ("rts", "rtu"):
            x, w = kv["x"], kv["w"]
            if w < 1:
                continue
            if t[0] == "rts" and -(2 ** (w - 1)) <= x < 2 ** (w - 1):
                if o.startswith("raise"):
                    return f"op {n}: signed round trip of {x} at width {w} raised"
                f = {k: int(v) for k, v in (y.split("=") for y in o.split())}
                if not (0 <= f["u"] < 2**w) or f["s"] != x:
                    return f"op {n}: signed_to_int(int_to_signed({x}, {w}), {w}) = {f['s']} (int_to_signed gave {f['u']})"
            if t[0] == "rtu" and 0 <= x < 2**w:
                if o.startswith("raise"):
                    return f"op {n}: unsigned round trip of {x} at width {w} raised"
                f = {k: int(v) for k, v in (y.split("=") for y in o.split())}
                if not (-(2 ** (w - 1)) <= f["s"] < 2 ** (w - 1)) or f["u"] != x:
                    return f"op {n}: int_to_signed(signed_to_int({x}, {w}), {w}) = {f['u']} (signed_to_int gave {f['s']})"
    return None


def num_cases(ctx: Check) -> list[Case]:
    rng = ctx.rng("num")
    cases = []

    def mk(lines, tag):
        return Case("cfg helper=numeric", lines, {"component": "numeric"}, tag)

    # exhaustive small widths: every width-bounded value, both directions
    for w in range(1, ctx.pick(7, 10)):
        lines = [f"rts x={x} w={w}" for x in range(-(2 ** (w - 1)), 2 ** (w - 1))]
        lines += [f"rtu x={u} w={w}" for u in range(2**w)]
        cases.append(mk(lines, "exhaustive"))
    for p in range(0, ctx.pick(5, 7)):
        cases.append(mk([f"al n={n} p={p}" for n in range(-(2 ** (p + 1)) - 3, 2 ** (p + 2) + 3)], "exhaustive"))
    # directed: outside the width-bounded region (no claim there: model/implementation agreement only), width 0
    cases.append(mk(["s2i x=5 w=0", "i2s x=5 w=0", "i2s x=-1 w=0", "s2i x=300 w=4", "s2i x=-7 w=3", "i2s x=-300 w=4",
                     "rts x=9 w=3", "rts x=-9 w=3", "rtu x=-2 w=3", "rtu x=77 w=3", "rts x=1 w=0", "rtu x=0 w=0",
                     "i2s x=123456789012345678901234567890 w=70", "al n=0 p=0", "al n=-1 p=0", "al n=5 p=70"], "directed"))
    # random wide values
    for _ in range(ctx.pick(60, 400)):
        lines = []
        for _ in range(20):
            w = rng.choice([1, 2, 3, 8, 16, 31, 32, 33, 63, 64, 65, 128, rng.randint(1, 200)])
            x = rng.choice([-(2 ** (w - 1)), 2 ** (w - 1) - 1, -1, 0, rng.randrange(-(2 ** (w - 1)), 2 ** (w - 1))])
            lines.append(f"rts x={x} w={w}")
            u = rng.choice([0, 2**w - 1, 2 ** (w - 1), 2 ** (w - 1) - 1, rng.randrange(2**w)])
            lines.append(f"rtu x={u} w={w}")
            p = rng.choice([0, 1, 2, 3, 4, 12, 32, rng.randint(0, 80)])
            n = rng.choice([rng.randrange(-(2 ** (p + 3)), 2 ** (p + 3)), rng.randrange(-(10**30), 10**30), rng.randrange(0, 2**20) << p])
            lines.append(f"al n={n} p={p}")
        cases.append(mk(lines, "random"))
    return cases


def num_nontrivial(case: Case, out: list[str]) -> bool:
    return any("x=-" in line or "n=-" in line for line in case.ops)


# ============================================================================= make_hashable
# Abstract syntax of a Python value: ("i", n) ("s", txt) ("t", [..]) ("l", [..]) ("S", [..]) ("F", [..]) ("d", [(k, v)..]).
# Sets and dicts are built by inserting in the given order, so that order is what the implementation iterates over
# when no hash collision reorders it; the model never depends on the order.


def py_build(a) -> Any:
    k = a[0]
    if k in "is":
        return a[1]
    if k == "t":
        return tuple(py_build(x) for x in a[1])
    if k == "l":
        return [py_build(x) for x in a[1]]
    if k == "S":
        s = set()
        for x in a[1]:
            s.add(py_build(x))
        return s
    if k == "F":
        return frozenset(py_build(x) for x in a[1])
    if k == "d":
        d = {}
        for kk, v in a[1]:
            d[py_build(kk)] = py_build(v)
        return d
    raise ValueError(k)


def py_rpn(a) -> str:
    k = a[0]
    if k == "i":
        return f"i{a[1]}"
    if k == "s":
        return f"s{a[1]}"
    if k == "d":
        return ",".join([py_rpn(x) for kv in a[1] for x in kv] + [f"d{len(a[1])}"])
    return ",".join([py_rpn(x) for x in a[1]] + [f"{k}{len(a[1])}"])


def py_parse(s: str):
    st: list = []
    for tok in s.split(","):
        c, rest = tok[0], tok[1:]
        if c == "i":
            st.append(("i", int(rest)))
        elif c == "s":
            st.append(("s", rest))
        elif c == "d":
            n = int(rest)
            xs = st[len(st) - 2 * n :]
            del st[len(st) - 2 * n :]
            st.append(("d", [(xs[2 * j], xs[2 * j + 1]) for j in range(n)]))
        else:
            n = int(rest)
            xs = st[len(st) - n :] if n else []
            if n:
                del st[len(st) - n :]
            st.append((c, xs))
    (v,) = st
    return v


def py_canon(o) -> str:
    """canonical text of a real Python object (sets/dicts sorted) - same format as the Lean driver's `showPy`"""
    if isinstance(o, bool):
        return f"?bool{o}"
    if isinstance(o, int):
        return f"i{o}"
    if isinstance(o, str):
        return f"s{o}"
    if isinstance(o, tuple):
        return "t(" + ",".join(py_canon(x) for x in o) + ")"
    if isinstance(o, list):
        return "l(" + ",".join(py_canon(x) for x in o) + ")"
    if isinstance(o, frozenset):
        return "F(" + ",".join(sorted(py_canon(x) for x in o)) + ")"
    if isinstance(o, set):
        return "S(" + ",".join(sorted(py_canon(x) for x in o)) + ")"
    if isinstance(o, dict):
        return "d(" + ",".join(sorted(py_canon(k) + ":" + py_canon(v) for k, v in o.items())) + ")"
    return f"?{type(o).__name__}"


def _mh_impl(line: str) -> str:
    from transactron.utils.data_repr import make_hashable

    kv = dict(x.split("=") for x in line.split()[1:])
    a, b = py_build(py_parse(kv["a"])), py_build(py_parse(kv["b"]))
    try:
        ra, rb = make_hashable(a), make_hashable(b)
        hash(ra), hash(rb)
    except TypeError:
        return "raise TypeError"
    req = ra == rb
    if req and hash(ra) != hash(rb):
        return f"ra={py_canon(ra)} rb={py_canon(rb)} eq={int(a == b)} req=equal-but-hash-differs"
    return f"ra={py_canon(ra)} rb={py_canon(rb)} eq={int(a == b)} req={int(req)}"


def mh_impl(case: Case) -> list[str]:
    return ["ok"] + [_mh_impl(line) for line in case.ops]


def mh_monitor(case: Case, out: list[str]):
    for n, (line, o) in enumerate(zip(case.ops, out[1:])):
        if o.startswith("raise"):
            return f"op {n} ({line}): make_hashable result is not hashable / raised"
        f = dict(x.split("=") for x in o.split())
        if f["eq"] == "1" and f["req"] != "1":
            return (f"op {n} ({line}): a == b but make_hashable(a) = {f['ra']} and make_hashable(b) = {f['rb']} "
                    f"compare {f['req']}")
    return None


def _gen_hashable(rng, depth: int):
    r = rng.random()
    if depth <= 0 or r < 0.45:
        return rng.choice([("i", rng.randint(-3, 12)), ("i", rng.choice([0, 8, 16, 24])), ("s", rng.choice(["a", "b", "key", "x1"]))])
    kind = "t" if r < 0.75 else "F"
    return (kind, _distinct([_gen_hashable(rng, depth - 1) for _ in range(rng.randint(0, 3))], kind == "F"))


def _distinct(xs: list, needed: bool) -> list:
    if not needed:
        return xs
    seen, out = set(), []
    for x in xs:
        o = py_build(x)
        if o not in seen:
            seen.add(o)
            out.append(x)
    return out


def _gen_val(rng, depth: int):
    r = rng.random()
    if depth <= 0 or r < 0.25:
        return _gen_hashable(rng, 1)
    n = rng.randint(0, 4)
    if r < 0.40:
        return ("l", [_gen_val(rng, depth - 1) for _ in range(n)])
    if r < 0.52:
        return ("t", [_gen_val(rng, depth - 1) for _ in range(n)])
    if r < 0.72:
        return ("S", _distinct([_gen_hashable(rng, 2) for _ in range(n)], True))
    if r < 0.80:
        return ("F", _distinct([_gen_hashable(rng, 2) for _ in range(n)], True))
    keys = _distinct([_gen_hashable(rng, 1) for _ in range(n)], True)
    return ("d", [(k, _gen_val(rng, depth - 1)) for k in keys])


def _variant(rng, a, unequal: bool):
    """a value equal to `a` (sets/dicts in another insertion order, set <-> frozenset where hashability
    is not needed) or, with `unequal`, one that differs somewhere"""
    k = a[0]
    if k in "is":
        if unequal and rng.random() < 0.5:
            return ("i", a[1] + 1) if k == "i" else ("s", a[1] + "z")
        return a
    if k == "d":
        items = [(kk, _variant(rng, v, unequal and rng.random() < 0.3)) for kk, v in a[1]]
        rng.shuffle(items)
        if unequal and items and rng.random() < 0.3:
            items.pop()
        return ("d", items)
    xs = [_variant(rng, x, unequal and rng.random() < 0.3) if k in "tl" else x for x in a[1]]
    if k in "SF":
        rng.shuffle(xs)
        if unequal and xs and rng.random() < 0.4:
            xs.pop()
        return (k, xs)
    if unequal and rng.random() < 0.2:
        return ("l" if k == "t" else "t", xs)
    return (k, xs)


def _set_swap(rng, a, top=True):
    """swap set/frozenset at positions where a set is allowed (not inside sets / dict keys)"""
    k = a[0]
    if k in "is":
        return a
    if k == "S" and rng.random() < 0.3:
        return ("F", a[1])
    if k == "F" and top and rng.random() < 0.3:
        return ("S", a[1])
    if k in "tl":
        return (k, [_set_swap(rng, x, True) for x in a[1]])
    if k == "d":
        return ("d", [(kk, _set_swap(rng, v, True)) for kk, v in a[1]])
    return a


F12_WITNESS = {"helper": "make_hashable", "a": "i0,i8,S2", "b": "i8,i0,S2"}


def mh_cases(ctx: Check) -> list[Case]:
    rng = ctx.rng("mh")
    cases = []

    def mk(pairs, tag):
        return Case("cfg helper=make_hashable", [f"mh a={py_rpn(a)} b={py_rpn(b)}" for a, b in pairs],
                    {"component": "make_hashable"}, tag)

    I = lambda n: ("i", n)  # noqa: E731
    directed = [
        (("S", [I(0), I(8)]), ("S", [I(8), I(0)])),  # F12 witness (repaired by 443ec9f)
        (("l", [("S", [I(0), I(8), I(16)])]), ("l", [("S", [I(16), I(8), I(0)])])),
        (("d", [(("s", "a"), ("l", [I(1), I(2)])), (("s", "b"), ("S", [I(0), I(8)]))]),
         ("d", [(("s", "b"), ("S", [I(8), I(0)])), (("s", "a"), ("l", [I(1), I(2)]))])),
        (("S", [I(1)]), ("F", [I(1)])),
        (("t", [("S", [I(1), I(9)])]), ("t", [("F", [I(9), I(1)])])),
        (("l", [I(1), I(2)]), ("t", [I(1), I(2)])),
        (("l", [I(1), I(2)]), ("l", [I(2), I(1)])),
        (("d", []), ("d", [])), (("l", []), ("S", [])), (("S", []), ("F", [])),
        (("d", [(I(1), ("d", [(I(2), ("l", []))]))]), ("d", [(I(1), ("d", [(I(2), ("l", []))]))])),
        (("t", [I(1), ("t", [I(2)])]), ("t", [I(1), ("t", [I(2)])])),
    ]
    cases.append(mk(directed, "directed"))
    for _ in range(ctx.pick(150, 1500)):
        pairs = []
        for _ in range(10):
            a = _gen_val(rng, rng.randint(1, 3))
            r = rng.random()
            if r < 0.55:
                b = _set_swap(rng, _variant(rng, a, False))
            elif r < 0.85:
                b = _variant(rng, a, True)
            else:
                b = _gen_val(rng, 2)
            pairs.append((a, b))
        cases.append(mk(pairs, "random"))
    return cases


def mh_nontrivial(case: Case, out: list[str]) -> bool:
    """an equal pair whose two sides are written differently and contain a set or a dict"""
    for line, o in zip(case.ops, out[1:]):
        kv = dict(x.split("=") for x in line.split()[1:])
        if "eq=1" in o and kv["a"] != kv["b"] and any(c in kv["a"] for c in "SFd"):
            return True
    return False


# ============================================================================= transpose
# leaf shapes by tag (third level, opaque to the model): 0 unsigned(w), 1 signed(w), 2 a struct of two fields,
# 3 an array of w single bits


def _leaf_shape(w: int, tag: int):
    from amaranth import signed, unsigned
    from amaranth.lib import data

    if tag == 0:
        return unsigned(w)
    if tag == 1:
        return signed(w)
    if tag == 2:
        return data.StructLayout({"p": unsigned(w - w // 2), "q": unsigned(w // 2)})
    return data.ArrayLayout(unsigned(1), w)


def _leaf_enc(shape) -> str:
    from amaranth import Shape
    from amaranth.lib import data

    if isinstance(shape, data.StructLayout):
        return f"{shape.size}.2"
    if isinstance(shape, data.ArrayLayout):
        return f"{shape.size}.3"
    sh = Shape.cast(shape)
    return f"{sh.width}.{int(sh.signed)}"


def _inner_build(s: str):
    from amaranth import unsigned
    from amaranth.lib import data

    p = s.split(";")
    if p[0] == "S":
        return data.StructLayout({f.split(":")[0]: _leaf_shape(*map(int, f.split(":")[1].split("."))) for f in p[1:]})
    if p[0] == "A":
        return data.ArrayLayout(_leaf_shape(*map(int, p[2].split("."))), int(p[1]))
    w = int(p[1])
    return unsigned(w) if w % 2 else data.UnionLayout({"u": unsigned(w)})


def _outer_build(s: str):
    from amaranth import unsigned
    from amaranth.lib import data

    p = s.split("|")
    if p[0] == "S":
        return data.StructLayout({f.split(":", 1)[0]: _inner_build(f.split(":", 1)[1]) for f in p[1:]})
    if p[0] == "A":
        return data.ArrayLayout(_inner_build(p[2]), int(p[1]))
    return data.UnionLayout({"u": unsigned(int(p[1]))})


def _inner_enc(l) -> str:
    from amaranth.lib import data

    if isinstance(l, data.StructLayout):
        return ";".join(["S"] + [f"{k}:{_leaf_enc(f.shape)}" for k, f in l])
    if isinstance(l, data.ArrayLayout):
        return f"A;{l.length};{_leaf_enc(l.elem_shape)}"
    return f"O;{getattr(l, 'size', None) if hasattr(l, 'size') else '?'}"


def _outer_enc(l) -> str:
    from amaranth.lib import data

    if isinstance(l, data.StructLayout):
        return "|".join(["S"] + [f"{k}:{_inner_enc(f.shape)}" for k, f in l])
    if isinstance(l, data.ArrayLayout):
        return f"A|{l.length}|{_inner_enc(l.elem_shape)}"
    return f"O|{l.size}"


def _keys_enc(keys) -> str:
    return ",".join(k if isinstance(k, str) else f"#{k}" for k in keys)


def _tr_impl(line: str) -> str:
    from amaranth import C, Module, Value
    from amaranth.lib import data
    from amaranth.sim import Simulator

    from transactron.utils.amaranth_ext.data import transpose, transpose_layout, transpose_layout_with_keys

    kv = dict(x.split("=") for x in line.split()[1:])
    lay = _outer_build(kv["lay"])
    v = int(kv["v"])
    try:
        rl, okeys, ikeys = transpose_layout_with_keys(lay)
        tconst = transpose(data.Const(lay, v))
        tview = transpose(data.View(lay, C(v, lay.size)))
        back = transpose_layout(rl)
    except Exception as e:  # noqa: BLE001 - an exception of the real code is an observation
        return f"raise {type(e).__name__}"
    got: list[int] = []

    async def tb(ctx):
        got.append(ctx.get(tview.as_value()))
        for i in ikeys:
            for o in okeys:
                x = Value.cast(tview[i][o])
                got.append(ctx.get(x) & ((1 << len(x)) - 1))

    try:
        sim = Simulator(Module())
        sim.add_testbench(tb)
        sim.run()
    except Exception as e:  # noqa: BLE001
        return f"raise {type(e).__name__} (while evaluating the transposed view)".replace(" ", "_")
    vconst = tconst.as_value().value
    vtxt = str(got[0]) if vconst == got[0] and tconst.shape() == tview.shape() == rl else f"view:{got[0]}/const:{vconst}"
    return (f"lay={_outer_enc(rl)} ok={_keys_enc(okeys)} ik={_keys_enc(ikeys)} v={vtxt} "
            f"cells={','.join(map(str, got[1:]))} back={_outer_enc(back)}")


def tr_impl(case: Case) -> list[str]:
    return ["ok"] + [_tr_impl(line) for line in case.ops]


def tr_monitor(case: Case, out: list[str]):
    """transpose(v)[i][o] == v[o][i] (members of the ORIGINAL value read through Amaranth's own Const indexing)
    and transposing the layout twice gives the layout back"""
    from amaranth import Const as AConst
    from amaranth.lib import data

    for n, (line, o) in enumerate(zip(case.ops, out[1:])):
        kv = dict(x.split("=") for x in line.split()[1:])
        if o.startswith("raise"):
            if _meets_requirements(kv["lay"]):
                return f"op {n} ({line}): the layout satisfies the documented requirements of transpose_layout but transpose answered '{o}'"
            continue
        f = dict(x.split("=") for x in o.split())
        lay = _outer_build(kv["lay"])
        c = data.Const(lay, int(kv["v"]))
        okeys = [k for k, _ in lay]
        ikeys = [k for k, _ in lay[okeys[0]].shape]
        exp = []
        for i in ikeys:
            for ok in okeys:
                x = c[ok][i]
                if isinstance(x, data.Const):
                    x = x.as_value().value
                elif isinstance(x, AConst):
                    x = x.value
                w = lay[ok].shape[i].width
                exp.append(int(x) & ((1 << w) - 1))
        cells = [int(x) for x in f["cells"].split(",")]
        if cells != exp:
            return f"op {n} ({line}): members of transpose(v) in [i][o] order are {cells}, members v[o][i] are {exp}"
        if ":" in f["v"].split("/")[0] and f["v"].startswith("view:"):
            return f"op {n} ({line}): transposed View and transposed Const differ: {f['v']}"
        if f["back"] != kv["lay"]:
            return f"op {n} ({line}): transposing the layout twice gives {f['back']}"
    return None


def _meets_requirements(lay: str) -> bool:
    """the documented requirements of transpose_layout, read off the textual layout: an array/struct with at
    least one member, all members arrays/structs with at least one member and identical key lists"""
    p = lay.split("|")
    if p[0] == "S":
        inners = [f.split(":", 1)[1] for f in p[1:]]
    elif p[0] == "A":
        inners = [p[2]] * int(p[1])
    else:
        return False
    if not inners:
        return False
    keys = []
    for s in inners:
        q = s.split(";")
        if q[0] == "S":
            keys.append([f.split(":")[0] for f in q[1:]])
        elif q[0] == "A":
            keys.append(list(range(int(q[1]))))
        else:
            return False
    return bool(keys[0]) and all(k == keys[0] for k in keys)


def _rand_leaf(rng) -> str:
    tag = rng.choice([0, 0, 0, 1, 1, 2, 3])
    w = rng.randint(2 if tag == 2 else 1, 6)
    return f"{w}.{tag}"


NAMES = ["a", "b", "c", "d", "x", "y", "z", "w"]


def _rand_layout(rng, ok: bool) -> str:
    """`ok`: satisfies the requirements of transpose_layout; otherwise one requirement is broken at random"""
    no = rng.randint(1, 4)
    ni = rng.randint(1, 4)
    outer_struct = rng.random() < 0.6
    inner_struct = rng.random() < 0.5
    inames = rng.sample(NAMES, ni)

    def inner(same_leaf: Optional[str] = None) -> str:
        if inner_struct:
            return ";".join(["S"] + [f"{nm}:{same_leaf or _rand_leaf(rng)}" for nm in inames])
        return f"A;{ni};{same_leaf or _rand_leaf(rng)}"

    if outer_struct:
        fields = [inner() for _ in range(no)]
    else:
        fields = [inner()]
    if not ok:
        brk = rng.choice(["outer-other", "outer-empty", "inner-other", "inner-empty", "keys-differ", "keys-order", "mixed"])
        if brk == "outer-other":
            return f"O|{rng.randint(1, 8)}"
        if brk == "outer-empty":
            return "S" if outer_struct else f"A|0|{fields[0]}"
        j = rng.randrange(len(fields))
        if brk == "inner-other":
            fields[j] = f"O;{rng.randint(1, 6)}"
        elif brk == "inner-empty":
            fields = ["S" if inner_struct else f"A;0;{_rand_leaf(rng)}" for _ in fields]
        elif brk == "keys-differ":
            if inner_struct:
                fields[j] = ";".join(["S"] + [f"{nm}:{_rand_leaf(rng)}" for nm in rng.sample(NAMES, rng.randint(1, 4))])
            else:
                fields[j] = f"A;{ni + rng.choice([-1, 1, 2])};{_rand_leaf(rng)}"
        elif brk == "keys-order":
            perm = inames[:]
            rng.shuffle(perm)
            fields[j] = ";".join(["S"] + [f"{nm}:{_rand_leaf(rng)}" for nm in perm]) if inner_struct else fields[j]
        else:
            fields[j] = f"A;{ni};{_rand_leaf(rng)}" if inner_struct else ";".join(["S"] + [f"{nm}:{_rand_leaf(rng)}" for nm in inames])
    if outer_struct:
        return "|".join(["S"] + [f"{nm}:{f}" for nm, f in zip(rng.sample(NAMES, len(fields)), fields)])
    return f"A|{no}|{fields[0]}"


def _lay_size(s: str) -> int:
    try:
        return _outer_build(s).size
    except Exception:  # noqa: BLE001
        return 0


def tr_cases(ctx: Check) -> list[Case]:
    rng = ctx.rng("tr")
    cases = []

    def mk(items, tag):
        return Case("cfg helper=transpose", [f"tr lay={l} v={v & ((1 << _lay_size(l)) - 1)}" for l, v in items],
                    {"component": "transpose"}, tag)

    directed = [
        ("S|a:A;3;2.1|b:A;3;5.0", 1398747), ("A|2|S;x:1.0;y:2.0", 45), ("A|3|A;2;3.1", 0o712345), ("S|a:S;x:1.0", 1),
        ("S|p:S;x:2.0;y:3.1;z:4.2|q:S;x:1.1;y:6.3;z:2.0", 0x2D5A6B), ("A|1|A;1;1.0", 1),
        ("S", 0), ("O|4", 3), ("S|a:O;3", 1), ("S|a:S", 0), ("A|0|A;2;1.0", 0), ("A|2|A;0;1.0", 0),
        ("S|a:S;x:1.0;y:1.0|b:S;y:1.0;x:1.0", 5), ("S|a:S;x:1.0|b:A;1;1.0", 2), ("S|a:A;2;1.0|b:A;3;1.0", 9),
    ]
    cases.append(mk(directed, "directed"))
    for _ in range(ctx.pick(100, 1000)):
        items = []
        for _ in range(10):
            lay = _rand_layout(rng, rng.random() < 0.8)
            size = _lay_size(lay)
            items.append((lay, rng.choice([rng.randrange(1 << size) if size else 0, (1 << size) - 1 if size else 0])))
        cases.append(mk(items, "random"))
    return cases


def tr_nontrivial(case: Case, out: list[str]) -> bool:
    """a successful transposition with >= 2 outer and >= 2 inner keys whose members do not all have one width"""
    for o in out[1:]:
        if o.startswith("lay="):
            f = dict(x.split("=") for x in o.split())
            if "," in f["ok"] and "," in f["ik"]:
                return True
    return False


# ============================================================================= entry points
def _dispatch_impl(case: Case) -> list[str]:
    out = ["ok"]
    for line in case.ops:
        h = line.split()[0]
        out.append(_mh_impl(line) if h == "mh" else _tr_impl(line) if h == "tr" else _num_impl(line))
    return out


def _dispatch_monitor(case: Case, out: list[str]):
    for line, o in zip(case.ops, out[1:]):
        h = line.split()[0]
        c = Case(case.cfg, [line], case.desc, case.tag)
        r = (mh_monitor if h == "mh" else tr_monitor if h == "tr" else num_monitor)(c, ["ok", o])
        if r:
            return r
    return None


def replay_witness(w: dict) -> Optional[str]:
    if w.get("kind") == "make_hashable_set_order":
        # known_findings.txt format: two equal sets given by the insertion order of their (int) elements
        a = ",".join([f"i{x}" for x in w["a"]] + [f"S{len(w['a'])}"])
        b = ",".join([f"i{x}" for x in w["b"]] + [f"S{len(w['b'])}"])
        case = Case("cfg helper=make_hashable", [f"mh a={a} b={b}"], {"component": "make_hashable"}, "witness")
        return mh_monitor(case, mh_impl(case))
    if w.get("helper") == "make_hashable":
        case = Case("cfg helper=make_hashable", [f"mh a={w['a']} b={w['b']}"], {"component": "make_hashable"}, "witness")
        return mh_monitor(case, mh_impl(case))
    if "ops" in w:
        case = Case(w.get("cfg", "cfg"), list(w["ops"]), w.get("desc", {}), "witness")
        return _dispatch_monitor(case, _dispatch_impl(case))
    return None


class _SearchCtx:
    """generator context for the failing-input search: thorough-sized, driven by the search rng"""

    quick, thorough, tier = False, True, "thorough"

    def __init__(self, rng):
        self._rng = rng

    def rng(self, name=""):
        return self._rng

    def pick(self, q, t):
        return min(t, 150)


def _more_cases(case: Case, rng):
    gen = {"numeric": num_cases, "make_hashable": mh_cases, "transpose": tr_cases}[case.desc.get("component", "numeric")]
    yield from gen(_SearchCtx(rng))


def _nontrivial(case: Case, out: list[str]) -> bool:
    f = {"numeric": num_nontrivial, "make_hashable": mh_nontrivial, "transpose": tr_nontrivial}
    return f[case.desc.get("component", "numeric")](case, out)


def run(ctx: Check):
    ctx.rule = ("cases = calls of one helper: (x, width) round trips and (n, power) alignments; pairs of nested Python values "
                "(equal ones written with different set/dict insertion orders and set/frozenset swaps, and unequal ones); "
                "two-level layouts with a value. Non-trivial = negative operands / equal pair written differently that "
                "contains a set or dict / successful transposition with >= 2 outer and >= 2 inner keys")
    ctx.proof_stage()
    ctx.replay_findings(replay_witness)
    # the F12 witness is a regression case whether or not known_findings.txt lists it
    r = replay_witness(F12_WITNESS)
    ctx.count("f12_witness_replayed")
    if r:
        ctx.violation(f"make_hashable does not preserve equality of sets (F12 witness): {r}",
                      {"cfg": "cfg helper=make_hashable", "ops": [f"mh a={F12_WITNESS['a']} b={F12_WITNESS['b']}"],
                       "desc": {"component": "make_hashable"}})
    # one lock-step run over all three helper families (one start of the Lean interpreter)
    cases = num_cases(ctx) + mh_cases(ctx) + tr_cases(ctx)
    lockstep(ctx, "datahelpers", "C41", cases, _dispatch_impl, _dispatch_monitor, _more_cases, _nontrivial,
             procs=ctx.pick(1, None))


def replay(ctx: Check, body: dict):
    case = Case(body["cfg"], list(body["ops"]), body.get("desc", {}), "replay")
    return _dispatch_monitor(case, _dispatch_impl(case))
