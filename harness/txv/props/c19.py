"""C19 — Serializer and ArgumentsToResultsZipper keep requests and responses matched
(transactron/lib/reqres.py:77-102, 168-188).

The environment plays the clients (attempted `serialize_in[i]` / `serialize_out[i]` calls) and the
server (`serialized_req_method` / `serialized_resp_method` are `Adapter`s: readiness and the
response data are chosen by the harness every cycle).
"""

from __future__ import annotations

import itertools
from typing import Optional

from amaranth import Elaboratable
from transactron import TModule, Method
from transactron.core.method import Required

from ..common import Check
from ..lockstep import Case, lockstep
from ..simrun import CompSim

META = {
    "id": "C19",
    "design_ref": "DESIGN.md §7 C19",
    "technique": "Lean 4 theorems (history invariants by induction over the call history) over hand-written cycle "
    "models of Serializer (pending-id queue + arbitration of the request ports in a parametric scheduling order) and "
    "ArgumentsToResultsZipper (depth-2 argument queue + result forwarder); lock-step correspondence of the models "
    "with the real components (real BasicFifo/Forwarder/TransactionManager inside) in pysim",
    "level_text": "c19_serializer (k-th executed serialize_out = client of the k-th executed serialize_in, carrying the "
    "k-th server response), c19_serializer_clients (per-client order, no loss, no duplication), c19_serializer_bound "
    "and c19_zipper (k-th read = k-th written argument paired with k-th written result) are proved for every port "
    "count, depth, scheduling order and history; the models are tied to the code by cycle-exact comparison of all "
    "executed calls, the requests seen by the server and the data returned to the clients",
    "level_note": "trusted: Lean kernel, axioms propext/Classical.choice/Quot.sound; Amaranth semantics and pysim; the "
    "harness glue. The pending-request BasicFifo and the Forwarder are modelled by their specifications (bounded "
    "queue with pre-state readiness; one-slot forwarding buffer), which is what C14/C17 prove about them; the "
    "correspondence runs the real ones. Serializer theorems assume `clear` is not called while requests are "
    "outstanding (the property is silent about clear; the model covers it and is compared with the code).",
}

_sims: dict[str, tuple] = {}


def _kv(line: str) -> dict[str, str]:
    return dict(x.split("=", 1) for x in line.split()[1:])


def _olist(s: str) -> list[Optional[int]]:
    return [None if x == "-" else int(x) for x in s.split(",")]


def _fo(v) -> str:
    return "-" if v is None else str(int(v))


class SerializerWrap(Elaboratable):
    """Serializer whose server-side methods are `Required` attributes (become `Adapter`s in CompSim),
    as test/lib/test_reqres.py:33-46 does with explicit TestbenchIO(Adapter)."""

    req: Required[Method]
    resp: Required[Method]

    def __init__(self, ports: int, depth: int, w: int):
        from transactron.lib.reqres import Serializer

        layout = [("data", w)]
        self.req = Method(i=layout)
        self.resp = Method(o=layout)
        self.ser = Serializer(
            port_count=ports, serialized_req_method=self.req, serialized_resp_method=self.resp, depth=depth
        )
        self.serialize_in = self.ser.serialize_in
        self.serialize_out = self.ser.serialize_out
        self.clear = self.ser.clear

    def elaborate(self, platform):
        m = TModule()
        m.submodules.ser = self.ser
        return m


class TwinSerializerWrap(SerializerWrap):
    """every serialize_in[p] / serialize_out[p] is called by two AdapterTrans (slot k calls port k % ports)"""

    def __init__(self, ports: int, depth: int, w: int):
        super().__init__(ports, depth, w)
        self.serialize_in = list(self.ser.serialize_in) * 2
        self.serialize_out = list(self.ser.serialize_out) * 2


class TwinZipper(Elaboratable):
    """write_args / write_results / read of the zipper are each called by two AdapterTrans"""

    def __init__(self, wa: int, wr: int):
        from transactron.lib.reqres import ArgumentsToResultsZipper

        self.z = ArgumentsToResultsZipper([("data", wa)], [("data", wr)])
        self.write_args = [self.z.write_args] * 2
        self.write_results = [self.z.write_results] * 2
        self.read = [self.z.read] * 2
        self.peek_arg = self.z.peek_arg

    def elaborate(self, platform):
        m = TModule()
        m.submodules.z = self.z
        return m


def _probe_zipper(sim) -> str:
    """priority among the two callers of each exclusive zipper method, probed on the real circuit:
    bit = the second caller wins when both request"""
    tr = sim.run([
        {("write_args", 0): 1, ("write_args", 1): 1},
        {("write_results", 0): 1, ("write_results", 1): 1, ("read", 0): 0, ("read", 1): 0},
    ])
    bit = lambda r, m: str(int(r[(m, 0)] is None and r[(m, 1)] is not None))  # noqa: E731
    return bit(tr[0], "write_args") + bit(tr[1], "write_results") + bit(tr[1], "read")


def _probe_serializer(sim, n: int) -> tuple[list[int], list[int]]:
    """priority orders of the 2n request slots and of the 2n response slots, probed on the real circuit
    (repeatedly: everybody still in the race requests, the winner leaves)"""
    order: list[int] = []
    left = list(range(2 * n))
    while left:
        op = {("serialize_in", k): 0 for k in left}
        op[("req",)] = 0
        r = sim.run([op])[0]
        won = [k for k in left if r[("serialize_in", k)] is not None]
        if not won:
            raise RuntimeError("probe: no request slot granted")
        order.append(won[0])
        left.remove(won[0])
    oorder: list[int] = []
    for p in range(n):
        fill = {("serialize_in", p): 0, ("req",): 0}
        both = {("serialize_out", p): 0, ("serialize_out", p + n): 0, ("resp",): 0}
        r = sim.run([fill, both])[1]
        first = p + n if (r[("serialize_out", p)] is None and r[("serialize_out", p + n)] is not None) else p
        oorder += [first, p + n if first == p else p]
    return order, oorder


def _in_order(sim, ports: int) -> list[int]:
    """Scheduling order of the AdapterTrans transactions calling serialize_in[i], read from the real manager."""
    from transactron.core.manager import MethodMap as MM, TransactionManager

    tm = sim.tctx.transaction_manager
    mm = MM(tm.transactions, tm.methods)
    _, porder = TransactionManager._conflict_graph(mm)
    pos = {}
    for i in range(ports):
        body = sim.dut.serialize_in[i]._body
        ts = [t for t in mm.transactions if body in mm.methods_by_transaction[t]]
        assert len(ts) == 1
        pos[i] = porder[ts[0]]
    return sorted(range(ports), key=lambda i: pos[i])


def _get(d: dict):
    kind = d["component"]
    key = repr(sorted((k, bool(v) if k == "twin" else v) for k, v in d.items() if k not in ("order", "oorder")))
    if key not in _sims:
        if kind == "zipper" and d.get("twin"):
            sim = CompSim(lambda: TwinZipper(d["wa"], d["wr"]))
            _sims[key] = (sim, _probe_zipper(sim))
        elif kind == "zipper":
            from transactron.lib.reqres import ArgumentsToResultsZipper

            sim = CompSim(lambda: ArgumentsToResultsZipper([("data", d["wa"])], [("data", d["wr"])]))
            _sims[key] = (sim, None)
        elif d.get("twin"):
            sim = CompSim(lambda: TwinSerializerWrap(d["ports"], d["depth"], d["w"]))
            _sims[key] = (sim, _probe_serializer(sim, d["ports"]))
        else:
            sim = CompSim(lambda: SerializerWrap(d["ports"], d["depth"], d["w"]))
            _sims[key] = (sim, _in_order(sim, d["ports"]))
    return _sims[key]


def sched_order(d: dict) -> list[int]:
    return _get(d)[1]


def impl(case: Case) -> list[str]:
    d = case.desc
    sim, _ = _get(d)
    lines = [_kv(op) for op in case.ops]
    out = ["ok"]
    if d["component"] == "zipper" and d.get("twin"):
        wa = d["wa"]
        opt = lambda v: None if v == "-" else int(v)  # noqa: E731
        ops = [
            {
                ("write_args", 0): opt(o["wa"]), ("write_args", 1): opt(o["wa2"]),
                ("write_results", 0): opt(o["wr"]), ("write_results", 1): opt(o["wr2"]),
                ("read", 0): 0 if o["rd"] == "1" else None, ("read", 1): 0 if o["rd2"] == "1" else None,
                ("peek_arg",): 0 if o["pk"] == "1" else None,
            }
            for o in lines
        ]
        for r in sim.run(ops):
            def who(m):
                done = [c + 1 for c in (0, 1) if r[(m, c)] is not None]
                return "0" if not done else (str(done[0]) if len(done) == 1 else "B")  # B = both callers executed

            rds = [r[("read", c)] for c in (0, 1) if r[("read", c)] is not None]
            rdv = "-" if not rds else f"{rds[0] & ((1 << wa) - 1)}/{rds[0] >> wa}"
            out.append(
                f"wa={int(who('write_args') != '0')} wr={int(who('write_results') != '0')} rd={rdv} "
                f"pk={_fo(r[('peek_arg',)])} who={who('write_args')}{who('write_results')}{who('read')}"
            )
        return out
    if d["component"] == "zipper":
        wa = d["wa"]
        ops = [
            {
                "write_args": None if o["wa"] == "-" else int(o["wa"]),
                "write_results": None if o["wr"] == "-" else int(o["wr"]),
                "read": 0 if o["rd"] == "1" else None,
                "peek_arg": 0 if o["pk"] == "1" else None,
            }
            for o in lines
        ]
        tr = sim.run(ops)
        for r in tr:
            rd = r[("read",)]
            rds = "-" if rd is None else f"{rd & ((1 << wa) - 1)}/{rd >> wa}"
            out.append(
                f"wa={int(r[('write_args',)] is not None)} wr={int(r[('write_results',)] is not None)} "
                f"rd={rds} pk={_fo(r[('peek_arg',)])}"
            )
        return out
    n = d["ports"] * (2 if d.get("twin") else 1)  # number of slots (slot k calls port k % ports)
    ops = []
    for o in lines:
        ins = _olist(o["in"])
        op = {("serialize_in", i): ins[i] for i in range(n)}
        op.update({("serialize_out", i): (0 if o["out"][i] == "1" else None) for i in range(n)})
        op[("req",)] = 0 if o["req"] == "1" else None
        op[("resp",)] = int(o["rdata"]) if o["resp"] == "1" else None
        op[("clear",)] = 0 if o["clr"] == "1" else None
        ops.append(op)

    def pre(ctx, k):
        sig = sim.tbs[("resp",)].adapter.data_in.as_value()
        if len(sig):
            ctx.set(sig, int(lines[k]["rdata"]))

    tr = sim.run(ops, pre_cycle=pre)
    for r in tr:
        ins = [i for i in range(n) if r[("serialize_in", i)] is not None]
        outs = [i for i in range(n) if r[("serialize_out", i)] is not None]
        data = [r[("serialize_out", i)] for i in outs]
        out.append(
            f"in={','.join(map(str, ins)) or '-'} rq={_fo(r[('req',)])} out={','.join(map(str, outs)) or '-'} "
            f"data={','.join(map(str, data)) or '-'} rs={int(r[('resp',)] is not None)} clr={int(r[('clear',)] is not None)}"
        )
    return out


# --------------------------------------------------------------------------- property monitor


def monitor(case: Case, out: list[str]) -> Optional[str]:
    """C19's sentences evaluated on the implementation's observations only."""
    d = case.desc
    if d["component"] == "zipper":
        args_w: list[int] = []
        res_w: list[int] = []
        nreads = 0
        for k, (op, ob) in enumerate(zip(case.ops, out[1:])):
            i = _kv(op)
            o = dict(x.split("=", 1) for x in ob.split())
            where = f"zipper cycle {k} [{op}] -> [{ob}]: "
            if "who" in o:
                # two callers per exclusive method: at most one executes, and only one that attempted; the
                # pairing property is then checked on the union of the callers
                for mname, key, w_ in (("write_args", "wa", o["who"][0]), ("write_results", "wr", o["who"][1]), ("read", "rd", o["who"][2])):
                    if w_ == "B":
                        return where + f"both callers of the exclusive method {mname} execute in one cycle"
                    none = ("-", "0") if key == "rd" else ("-",)
                    if w_ in "12" and i[key + ("" if w_ == "1" else "2")] in none:
                        return where + f"caller {w_} of {mname} executes without attempting"
                i = dict(i)
                for key in ("wa", "wr"):
                    i[key] = i[key + "2"] if o["who"]["wa wr".split().index(key)] == "2" else (
                        i[key] if i[key] != "-" else i[key + "2"])
                i["rd"] = "1" if "1" in (i["rd"], i["rd2"]) else "0"
            if o["wa"] == "1" and i["wa"] == "-" or o["wr"] == "1" and i["wr"] == "-":
                return where + "a write executes without being attempted"
            if o["pk"] != "-":
                # peek_arg: the argument the next read will return
                if nreads >= len(args_w) or int(o["pk"]) != args_w[nreads]:
                    return where + f"peek_arg returns {o['pk']}, the oldest unread argument is {args_w[nreads:nreads + 1]}"
            if o["wa"] == "1":
                args_w.append(int(i["wa"]))
            if o["wr"] == "1":
                res_w.append(int(i["wr"]))
            if o["rd"] != "-":
                a, r = map(int, o["rd"].split("/"))
                if nreads >= len(args_w) or nreads >= len(res_w) or (a, r) != (args_w[nreads], res_w[nreads]):
                    return where + (
                        f"read #{nreads} returns ({a},{r}) but the {nreads}-th written argument/result are "
                        f"{args_w[nreads:nreads + 1]}/{res_w[nreads:nreads + 1]}"
                    )
                nreads += 1
            elif i["rd"] == "1" and nreads < len(args_w) - (o["wa"] == "1") and nreads < len(res_w):
                return where + "read attempted with an unread argument and result available, but it does not execute"
        return None
    n, depth = d["ports"], d["depth"]
    ins: list[int] = []  # ports of executed serialize_in calls, in order
    reqs = 0
    nouts = 0
    for k, (op, ob) in enumerate(zip(case.ops, out[1:])):
        i = _kv(op)
        o = dict(x.split("=", 1) for x in ob.split())
        where = f"serializer cycle {k} [{op}] -> [{ob}]: "
        att = _olist(i["in"])
        pending = len(ins) - nouts
        # --- requests
        if "," in o["in"] or "," in o["out"]:
            return where + "two callers of the (mutually exclusive) serialize_in / serialize_out methods execute in one cycle"
        if o["in"] != "-":
            p = int(o["in"])  # slot; slot k calls port k % n
            if att[p] is None:
                return where + f"serialize_in slot {p} executes without being attempted"
            if o["rq"] == "-" or int(o["rq"]) != att[p]:
                return where + f"server receives {o['rq']} for the request {att[p]} of client {p % n}"
            if i["req"] != "1" or pending >= depth:
                return where + "request accepted although the server is not ready or the queue is full"
        else:
            if o["rq"] != "-":
                return where + "server receives a request nobody made"
            if any(a is not None for a in att) and i["req"] == "1" and pending < depth:
                return where + "a request could be served but none is"
        # --- responses
        if o["out"] != "-":
            p = int(o["out"])
            if i["out"][p] != "1":
                return where + f"serialize_out slot {p} executes without being attempted"
            if nouts >= len(ins):
                return where + "a response is delivered although no request is outstanding"
            if ins[nouts] != p % n:
                return where + (
                    f"response #{nouts} delivered to client {p % n}, but request #{nouts} came from client {ins[nouts]}"
                )
            if o["rs"] != "1" or i["resp"] != "1" or o["data"] != i["rdata"]:
                return where + "delivered data is not the server's response of this cycle (lost or duplicated response)"
            nouts += 1
        else:
            if o["rs"] != "0":
                return where + "a server response is consumed but delivered to nobody (lost response)"
            if pending > 0 and i["resp"] == "1" and any(b == "1" and sl % n == ins[nouts] for sl, b in enumerate(i["out"])):
                return where + f"client {ins[nouts]} asks for its response, the server has it, but it is not delivered"
        if o["in"] != "-":
            ins.append(int(o["in"]) % n)
        if o["clr"] != i["clr"]:
            return where + "clear attempted/executed mismatch"
        if o["clr"] == "1":
            del ins[nouts:]  # pending ids are dropped (BasicFifo.clear; wins over the write of this cycle)
    return None


def nontrivial(case: Case, out: list[str]) -> bool:
    obs = [dict(x.split("=", 1) for x in ob.split()) for ob in out[1:]]
    ins = [_kv(op) for op in case.ops]
    if case.desc.get("twin") and case.desc["component"] == "zipper":
        # both callers of some exclusive method request in one cycle and one of them is granted
        return any(
            (i["wa"] != "-" and i["wa2"] != "-" and o["who"][0] != "0") or (i["rd"] == "1" and i["rd2"] == "1" and o["who"][2] != "0")
            for i, o in zip(ins, obs)
        )
    if case.desc.get("twin"):
        n = case.desc["ports"]
        def both(bits_or_list, p):
            return bits_or_list[p] not in ("-", "0") and bits_or_list[p + n] not in ("-", "0")
        return any(o["in"] != "-" and both(i["in"].split(","), int(o["in"].split(",")[0]) % n) for i, o in zip(ins, obs)) and any(
            o["out"] != "-" and both(i["out"], int(o["out"].split(",")[0]) % n) for i, o in zip(ins, obs))
    if case.desc["component"] == "zipper":
        fwd = any(o["rd"] != "-" and o["wr"] == "1" for o in obs)  # result forwarded in the cycle it is written
        buf = any(o["rd"] != "-" and o["wr"] == "0" for o in obs)  # result read from the overflow register
        full = any(i["wa"] != "-" and o["wa"] == "0" for i, o in zip(ins, obs))  # argument FIFO full
        return fwd and buf and full
    # serializer: >= 2 clients compete in one cycle (or there is one port) and the queue gets full at least once
    compete = case.desc["ports"] == 1 or any(sum(x != "-" for x in i["in"].split(",")) >= 2 and o["in"] != "-" for i, o in zip(ins, obs))
    full = any(any(x != "-" for x in i["in"].split(",")) and i["req"] == "1" and o["in"] == "-" for i, o in zip(ins, obs))
    if case.desc["depth"] >= 6:
        # deep queue: >= 3 requests outstanding at the server at some point and >= 2 * depth responses delivered
        pend = mx = nout = 0
        for o in obs:
            pend += (o["in"] != "-") - (o["out"] != "-")
            nout += o["out"] != "-"
            mx = max(mx, pend)
        return compete and mx >= 3 and nout >= 2 * case.desc["depth"]
    return compete and full and any(o["out"] != "-" for o in obs)


# --------------------------------------------------------------------------- case generation


def _zcase(wa: int, wr: int, ops: list[str], tag: str, twin: bool = False) -> Case:
    d = {"component": "zipper", "wa": wa, "wr": wr}
    if twin:
        d["twin"] = "1"
        d["twin"] = _get(d)[1]  # probed priorities (3 bits)
        return Case(f"cfg comp=zipper wa={wa} wr={wr} twin={d['twin']}", ops, d, tag)
    return Case(f"cfg comp=zipper wa={wa} wr={wr}", ops, d, tag)


def _scase(ports: int, depth: int, w: int, ops: list[str], tag: str, twin: bool = False) -> Case:
    d = {"component": "serializer", "ports": ports, "depth": depth, "w": w}
    if twin:
        d["twin"] = 1
        d["order"], d["oorder"] = _get(d)[1]
        return Case(
            f"cfg comp=serializer ports={ports} depth={depth} w={w} order={','.join(map(str, d['order']))} "
            f"oorder={','.join(map(str, d['oorder']))}", ops, d, tag,
        )
    d["order"] = sched_order(d)
    return Case(
        f"cfg comp=serializer ports={ports} depth={depth} w={w} order={','.join(map(str, d['order']))}", ops, d, tag
    )


def _twin_zops(rng, wa: int, wr: int, n: int, p: float) -> list[str]:
    """two callers on write_args / write_results / read; values are running counters so that a double
    execution or a wrong winner shows in the data"""
    ops = []
    c = 0
    for _ in range(n):
        t = {}
        for key, w_ in (("wa", wa), ("wa2", wa), ("wr", wr), ("wr2", wr)):
            if rng.random() < p:
                t[key] = str(c % (1 << w_))
                c += 1
            else:
                t[key] = "-"
        ops.append(
            f"cyc wa={t['wa']} wr={t['wr']} rd={int(rng.random() < p)} pk=1 wa2={t['wa2']} wr2={t['wr2']} "
            f"rd2={int(rng.random() < p)}"
        )
    return ops


def _zops(rng, wa: int, wr: int, n: int, pa: float, pr: float, prd: float, counters: bool) -> list[str]:
    ops = []
    ca = cr = 0
    for _ in range(n):
        a = r = "-"
        if rng.random() < pa:
            a = ca % (1 << wa) if counters else rng.randrange(1 << wa)
            ca += 1
        if rng.random() < pr:
            r = (3 * cr + 1) % (1 << wr) if counters else rng.randrange(1 << wr)
            cr += 1
        ops.append(f"cyc wa={a} wr={r} rd={int(rng.random() < prd)} pk={int(rng.random() < 0.7)}")
    return ops


def _sops(rng, ports: int, w: int, n: int, pin: float, pout: float, preq: float, presp: float, pclr: float) -> list[str]:
    ops = []
    c = 0
    for _ in range(n):
        ins = []
        for _p in range(ports):
            if rng.random() < pin:
                ins.append(str(c % (1 << w)))
                c += 1
            else:
                ins.append("-")
        outs = "".join(str(int(rng.random() < pout)) for _ in range(ports))
        ops.append(
            f"cyc in={','.join(ins)} out={outs} req={int(rng.random() < preq)} resp={int(rng.random() < presp)} "
            f"rdata={rng.randrange(1 << w)} clr={int(rng.random() < pclr)}"
        )
    return ops


def gen_cases(ctx: Check, rng) -> list[Case]:
    cases: list[Case] = []
    thorough = ctx.thorough
    n = 120 if not thorough else 300
    # ---- zipper
    for wa, wr in [(1, 1), (3, 4), (8, 2), (4, 8)] + ([(2, 2), (5, 1), (16, 16)] if thorough else []):
        cases.append(
            _zcase(wa, wr, [
                # directed: fill the FIFO, overfill, result buffered, result forwarded, read on empty
                "cyc wa=1 wr=- rd=1 pk=1", "cyc wa=0 wr=- rd=1 pk=1", "cyc wa=1 wr=- rd=1 pk=1", "cyc wa=- wr=1 rd=1 pk=1",
                "cyc wa=1 wr=0 rd=0 pk=1", "cyc wa=0 wr=1 rd=0 pk=0", "cyc wa=- wr=- rd=1 pk=1", "cyc wa=- wr=1 rd=1 pk=1",
                "cyc wa=- wr=0 rd=1 pk=1", "cyc wa=1 wr=1 rd=1 pk=1", "cyc wa=- wr=0 rd=1 pk=1", "cyc wa=0 wr=1 rd=1 pk=1",
                "cyc wa=1 wr=1 rd=1 pk=1", "cyc wa=0 wr=0 rd=1 pk=1",
            ], "directed")
        )
        for pa, pr, prd in [(0.5, 0.5, 0.5), (0.9, 0.3, 0.9), (0.3, 0.9, 0.9), (1.0, 1.0, 1.0), (0.8, 0.8, 0.3)]:
            cases.append(_zcase(wa, wr, _zops(rng, wa, wr, n, pa, pr, prd, counters=rng.random() < 0.7), "random"))
    # ---- two callers per exclusive method (an accidental `nonexclusive=True` lets both execute)
    for wa, wr in [(3, 4)] + ([(1, 1), (8, 2)] if thorough else []):
        for p in (0.5, 0.9):
            cases.append(_zcase(wa, wr, _twin_zops(rng, wa, wr, n, p), "random", twin=True))
    for ports, depth in [(1, 2), (2, 3)] + ([(3, 4), (2, 1), (4, 6)] if thorough else []):
        w = 4
        for pin, pout, preq, presp in [(0.5, 0.7, 0.9, 0.8), (0.9, 1.0, 1.0, 0.5)]:
            cases.append(_scase(ports, depth, w, _sops(rng, 2 * ports, w, n, pin, pout, preq, presp, 0.0), "random", twin=True))
    if thorough:
        # every input sequence of length 4 over {no write, write}^2 x {read} (values = running counters)
        for seq in itertools.product(range(8), repeat=4):
            ops, ca, cr = [], 0, 0
            for x in seq:
                a = r = "-"
                if x & 1:
                    a, ca = ca % 8, ca + 1
                if x & 2:
                    r, cr = (3 * cr + 1) % 16, cr + 1
                ops.append(f"cyc wa={a} wr={r} rd={(x >> 2) & 1} pk=1")
            cases.append(_zcase(3, 4, ops, "exhaustive"))
    # ---- serializer: all port counts / depths in a range, several traffic regimes
    ports_l = [1, 2, 3, 4] if not thorough else [1, 2, 3, 4, 5, 6, 8]
    depth_l = [1, 2, 3, 5] if not thorough else [1, 2, 3, 4, 5, 6, 7, 8, 9, 10, 12, 14]
    regimes = [
        (0.6, 0.7, 0.8, 0.8, 0.0),  # balanced
        (0.9, 0.9, 1.0, 0.3, 0.0),  # slow server: queue fills
        (0.3, 1.0, 1.0, 1.0, 0.0),  # fast server: queue mostly empty
        (1.0, 1.0, 1.0, 1.0, 0.0),  # saturated
        (0.7, 0.7, 0.8, 0.7, 0.04),  # with clears
    ]
    for ports in ports_l:
        for depth in depth_l:
            w = rng.choice([2, 4, 6])
            regs = regimes if thorough else rng.sample(regimes[:4], 2) + [regimes[4]]
            for pin, pout, preq, presp, pclr in regs:
                cases.append(
                    _scase(ports, depth, w, _sops(rng, ports, w, n, pin, pout, preq, presp, pclr), "random")
                )
    # deep queues whose depth is even but not a power of two (6, 10; thorough: also 7, 12): slow server and fast
    # clients keep >= 3 (up to depth) requests outstanding while the FIFO pointers wrap around several times
    for depth in ([6, 10] if not thorough else [6, 7, 10, 12]):
        for ports in ([2, 3] if not thorough else [2, 3, 4]):
            w = rng.choice([4, 6])
            for pin, pout, preq, presp in [(0.95, 1.0, 1.0, 0.45), (0.8, 0.9, 0.95, 0.6)]:
                ops = _sops(rng, ports, w, 40, 1.0, 1.0, 1.0, 0.0, 0.0)[: depth + 2]  # fill up, server silent
                ops += _sops(rng, ports, w, 12 * depth if not thorough else 30 * depth, pin, pout, preq, presp, 0.0)
                cases.append(_scase(ports, depth, w, ops, "directed"))
    if thorough:
        # every history of 3 steps for 2 ports, depth 1 and 2: per step which ports request, server bits, optional drain
        for depth in (1, 2):
            for seq in itertools.product(range(32), repeat=3):
                if depth == 2 and any((x >> 4) & 1 for x in seq[1:]):
                    continue  # depth 2: a drain cycle only after the first step (keeps the enumeration small)
                ops, c = [], 0
                for x in seq:
                    ins = []
                    for p in range(2):
                        if (x >> p) & 1:
                            ins.append(str(c % 16))
                            c += 1
                        else:
                            ins.append("-")
                    ops.append(
                        f"cyc in={','.join(ins)} out=11 req={(x >> 2) & 1} resp={(x >> 3) & 1} rdata={(5 * c + 3) % 16} clr=0"
                    )
                    if (x >> 4) & 1:
                        ops.append(f"cyc in=-,- out=11 req=0 resp=1 rdata={(7 * c + 1) % 16} clr=0")
                cases.append(_scase(2, depth, 4, ops, "exhaustive"))
    return cases


def more_cases(case: Case, rng):
    d = case.desc
    for _ in range(30):
        if d.get("twin") and d["component"] == "zipper":
            yield _zcase(d["wa"], d["wr"], _twin_zops(rng, d["wa"], d["wr"], 150, 0.3 + 0.7 * rng.random()), "search", twin=True)
        elif d.get("twin"):
            yield _scase(d["ports"], d["depth"], d["w"],
                         _sops(rng, 2 * d["ports"], d["w"], 150, rng.random(), rng.random(), 0.5 + rng.random() / 2, rng.random(), 0.0),
                         "search", twin=True)
        elif d["component"] == "zipper":
            yield _zcase(d["wa"], d["wr"], _zops(rng, d["wa"], d["wr"], 200, rng.random(), rng.random(), rng.random(), True), "search")
        else:
            yield _scase(
                d["ports"], d["depth"], d["w"],
                _sops(rng, d["ports"], d["w"], 200, rng.random(), rng.random(), 0.5 + rng.random() / 2, rng.random(), 0.0),
                "search",
            )


def run(ctx: Check):
    ctx.rule = (
        "case = (component, configuration, history of attempted client calls and server readiness/response data per "
        "cycle); zipper non-trivial = a result is forwarded in its write cycle, another is read from the buffer, and "
        "the argument FIFO is full at least once; serializer non-trivial = two clients compete for the server in one "
        "cycle, the pending queue fills up, and responses are delivered (depth >= 6: >= 3 requests outstanding and the "
        "queue pointers wrap at least twice); two-caller cases (every exclusive method called by two transactions): "
        "non-trivial = both callers of a method request in one cycle and exactly one is granted"
    )
    ctx.proof_stage()
    cases = gen_cases(ctx, ctx.rng("gen"))
    for c in cases:
        ctx.count(f"component_{c.desc['component']}" + ("_two_callers" if c.desc.get("twin") else ""))
        if c.desc["component"] == "serializer":
            ctx.count(f"serializer_ports_{c.desc['ports']}")
            ctx.count(f"serializer_depth_{c.desc['depth']}")
    lockstep(ctx, "reqres", "C19", cases, impl, monitor, more_cases, nontrivial, procs=1 if ctx.quick else 8)


def replay(ctx: Check, body: dict):
    from ..lockstep import replay_case

    return replay_case(body, impl, monitor)
