"""C19 — Serializer and ArgumentsToResultsZipper keep requests and responses matched
(transactron/lib/reqres.py:77-102, 168-188).

The environment plays the clients (attempted `serialize_in[i]` / `serialize_out[i]` calls) and the
server (`serialized_req_method` / `serialized_resp_method` are `Adapter`s: readiness and the
response data are chosen by the harness every cycle).
"""

from __future__ import annotations

import itertools
from typing import Optional

from amaranth import Elaboratable
from transactron import TModule, Method
from transactron.core.method import Required

from ..common import Check
from ..lockstep import Case, lockstep
from ..simrun import CompSim

META = {
    "id": "C19",
    "design_ref": "DESIGN.md §7 C19",
    "technique": "Lean 4 theorems (history invariants by induction over the call history) over hand-written cycle "
    "models of Serializer (pending-id queue + arbitration of the request ports in a parametric scheduling order) and "
    "ArgumentsToResultsZipper (depth-2 argument queue + result forwarder); lock-step correspondence of the models "
    "with the real components (real BasicFifo/Forwarder/TransactionManager inside) in pysim",
    "level_text": "c19_serializer (k-th executed serialize_out = client of the k-th executed serialize_in, carrying the "
    "k-th server response), c19_serializer_clients (per-client order, no loss, no duplication), c19_serializer_bound "
    "and c19_zipper (k-th read = k-th written argument paired with k-th written result) are proved for every port "
    "count, depth, scheduling order and history; the models are tied to the code by cycle-exact comparison of all "
    "executed calls, the requests seen by the server and the data returned to the clients",
    "level_note": "trusted: Lean kernel, axioms propext/Classical.choice/Quot.sound; Amaranth semantics and pysim; the "
    "harness glue. The pending-request BasicFifo and the Forwarder are modelled by their specifications (bounded "
    "queue with pre-state readiness; one-slot forwarding buffer), which is what C14/C17 prove about them; the "
    "correspondence runs the real ones. Serializer theorems assume `clear` is not called while requests are "
    "outstanding (the property is silent about clear; the model covers it and is compared with the code).",
}

_sims: dict[str, tuple] = {}


def _kv(line: str) -> dict[str, str]:
    return dict(x.split("=", 1) for x in line.split()[1:])


def _olist(s: str) -> list[Optional[int]]:
    return [None if x == "-" else int(x) for x in s.split(",")]


def _fo(v) -> str:
    return "-" if v is None else str(int(v))


class SerializerWrap(Elaboratable):
    """Serializer whose server-side methods are `Required` attributes (become `Adapter`s in CompSim),
    as test/lib/test_reqres.py:33-46 does with explicit TestbenchIO(Adapter)."""

    req: Required[Method]
    resp: Required[Method]

    def __init__(self, ports: int, depth: int, w: int):
        from transactron.lib.reqres import Serializer

        layout = [("data", w)]
        self.req = Method(i=layout)
        self.resp = Method(o=layout)
        self.ser = Serializer(
            port_count=ports, serialized_req_method=self.req, serialized_resp_method=self.resp, depth=depth
        )
        self.serialize_in = self.ser.serialize_in
        self.serialize_out = self.ser.serialize_out
        self.clear = self.ser.clear

    def elaborate(self, platform):
        m = TModule()
        m.submodules.ser = self.ser
        return m


def _in_order(sim, ports: int) -> list[int]:
    """Scheduling order of the AdapterTrans transactions calling serialize_in[i], read from the real manager."""
    from transactron.core.manager import MethodMap as MM, TransactionManager

    tm = sim.tctx.transaction_manager
    mm = MM(tm.transactions, tm.methods)
    _, porder = TransactionManager._conflict_graph(mm)
    pos = {}
    for i in range(ports):
        body = sim.dut.serialize_in[i]._body
        ts = [t for t in mm.transactions if body in mm.methods_by_transaction[t]]
        assert len(ts) == 1
        pos[i] = porder[ts[0]]
    return sorted(range(ports), key=lambda i: pos[i])


def _get(d: dict):
    kind = d["component"]
    key = repr(sorted((k, v) for k, v in d.items() if k != "order"))
    if key not in _sims:
        if kind == "zipper":
            from transactron.lib.reqres import ArgumentsToResultsZipper

            sim = CompSim(lambda: ArgumentsToResultsZipper([("data", d["wa"])], [("data", d["wr"])]))
            _sims[key] = (sim, None)
        else:
            sim = CompSim(lambda: SerializerWrap(d["ports"], d["depth"], d["w"]))
            _sims[key] = (sim, _in_order(sim, d["ports"]))
    return _sims[key]


def sched_order(d: dict) -> list[int]:
    return _get(d)[1]


def impl(case: Case) -> list[str]:
    d = case.desc
    sim, _ = _get(d)
    lines = [_kv(op) for op in case.ops]
    out = ["ok"]
    if d["component"] == "zipper":
        wa = d["wa"]
        ops = [
            {
                "write_args": None if o["wa"] == "-" else int(o["wa"]),
                "write_results": None if o["wr"] == "-" else int(o["wr"]),
                "read": 0 if o["rd"] == "1" else None,
                "peek_arg": 0 if o["pk"] == "1" else None,
            }
            for o in lines
        ]
        tr = sim.run(ops)
        for r in tr:
            rd = r[("read",)]
            rds = "-" if rd is None else f"{rd & ((1 << wa) - 1)}/{rd >> wa}"
            out.append(
                f"wa={int(r[('write_args',)] is not None)} wr={int(r[('write_results',)] is not None)} "
                f"rd={rds} pk={_fo(r[('peek_arg',)])}"
            )
        return out
    n = d["ports"]
    ops = []
    for o in lines:
        ins = _olist(o["in"])
        op = {("serialize_in", i): ins[i] for i in range(n)}
        op.update({("serialize_out", i): (0 if o["out"][i] == "1" else None) for i in range(n)})
        op[("req",)] = 0 if o["req"] == "1" else None
        op[("resp",)] = int(o["rdata"]) if o["resp"] == "1" else None
        op[("clear",)] = 0 if o["clr"] == "1" else None
        ops.append(op)

    def pre(ctx, k):
        sig = sim.tbs[("resp",)].adapter.data_in.as_value()
        if len(sig):
            ctx.set(sig, int(lines[k]["rdata"]))

    tr = sim.run(ops, pre_cycle=pre)
    for r in tr:
        ins = [i for i in range(n) if r[("serialize_in", i)] is not None]
        outs = [i for i in range(n) if r[("serialize_out", i)] is not None]
        data = [r[("serialize_out", i)] for i in outs]
        out.append(
            f"in={','.join(map(str, ins)) or '-'} rq={_fo(r[('req',)])} out={','.join(map(str, outs)) or '-'} "
            f"data={','.join(map(str, data)) or '-'} rs={int(r[('resp',)] is not None)} clr={int(r[('clear',)] is not None)}"
        )
    return out
