"""C39 — round-robin arbiters (transactron/utils/amaranth_ext/elaboratables.py:139-247)."""

from __future__ import annotations

import warnings

from ..common import Check
from ..lockstep import Case, lockstep

warnings.filterwarnings("ignore")

META = {
    "id": "C39",
    "design_ref": "DESIGN.md §9 C39, Appendix D",
    "technique": "Lean 4 theorems over the selection function `pick` shared by both arbiters (one-hot / validity by a "
    "search specification, fairness by a strictly decreasing cyclic distance, induction over the history); "
    "cycle-exact lock-step correspondence of the model with the real OneHotRoundRobin and RoundRobin in pysim",
    "level_text": "c39_onehot/c39_none (one-hot grant of a requester and valid iff any request), c39_bin_valid/"
    "c39_bin_history (valid' implies requests[grant'] of the previous cycle), c39_fair_onehot/c39_fair_bin (a "
    "continuously requesting input is served within count cycles) are proved for every count, every state with "
    "grant index < count and every request history; c39_pick_order ties `pick` to the If-chain order of the source; "
    "the model is tied to the code by comparing grant and valid every cycle for counts 1..16 (thorough: up to 24 and "
    "all request sequences of length <= 4 for counts <= 3)",
    "level_note": "trusted: Lean kernel, axioms propext/Quot.sound; Amaranth semantics (Switch first match, later "
    "assignment wins) and pysim; harness glue. 'grants none' with no request is read as valid low: the raw grant "
    "output then repeats the register (elaboratables.py:181). Unreachable states (grant_reg not one-hot, binary "
    "grant >= count) are not modelled.",
}

_sims: dict = {}


class _Runner:
    """One elaboration of the real arbiter, re-run from reset for every history."""

    def __init__(self, comp: str, n: int):
        from amaranth.sim import Simulator
        from transactron.utils.amaranth_ext.elaboratables import OneHotRoundRobin, RoundRobin

        self.dut = OneHotRoundRobin(n) if comp == "onehot" else RoundRobin(count=n)
        self.sim = Simulator(self.dut)
        self.sim.add_clock(1e-6)
        self.first = True
        self.job = None

    async def _tb(self, ctx):
        reqs, out = self.job
        for r in reqs:
            ctx.set(self.dut.requests, r)
            _, _, g, v = await ctx.tick().sample(self.dut.grant, self.dut.valid)
            out.append(f"grant={int(g)} valid={int(v)}")

    def run(self, reqs: list[int]) -> list[str]:
        out: list[str] = []
        self.job = (reqs, out)
        if self.first:
            self.sim.add_testbench(self._tb)
            self.first = False
        else:
            self.sim.reset()
        self.sim.run()
        return out


def _runner(comp: str, n: int) -> _Runner:
    k = (comp, n)
    if k not in _sims:
        _sims[k] = _Runner(comp, n)
    return _sims[k]


def _reqs(case: Case) -> list[int]:
    return [int(op.split("r=")[1]) for op in case.ops]


def impl(case: Case) -> list[str]:
    d = case.desc
    try:
        return ["ok", *_runner(d["comp"], d["n"]).run(_reqs(case))]
    except Exception as e:  # noqa: BLE001 - an exception of the real code is an observation
        return ["ok", *[f"raise {type(e).__name__}"] * len(case.ops)]


def _parse(o: str) -> tuple[int, int]:
    f = dict(x.split("=") for x in o.split())
    return int(f["grant"]), int(f["valid"])


def monitor(case: Case, out: list[str]):
    """The property sentences evaluated on the implementation's observations only."""
    n, comp = case.desc["n"], case.desc["comp"]
    reqs = _reqs(case)
    if any(o.startswith("raise") for o in out[1:]):
        return f"the real {comp} arbiter with count={n} could not be built/simulated: {out[1]}"
    obs = [_parse(o) for o in out[1:]]
    served_since = [0] * n  # per input: number of consecutive cycles it has requested without being served
    for t, (r, (g, v)) in enumerate(zip(reqs, obs)):
        if comp == "onehot":
            # grants exactly one requester (one-hot) whenever any request is present, otherwise none / valid low
            if r != 0:
                if v != 1:
                    return f"cycle {t}: requests={r:#b} but valid=0"
                if g == 0 or g & (g - 1) or g >= (1 << n):
                    return f"cycle {t}: requests={r:#b} grant={g:#b} is not one-hot"
                if not (g & r):
                    return f"cycle {t}: requests={r:#b} grant={g:#b} designates a non-requester"
            elif v != 0:
                return f"cycle {t}: no request but valid=1 (grant={g:#b})"
            granted = [bool(v and (g >> j) & 1) for j in range(n)]
            window = reqs[: t + 1]
        else:
            # registered outputs: what is visible in cycle t answers the requests of cycle t-1
            if t == 0:
                if v != 0:
                    return "cycle 0: valid high after reset"
                continue
            pr = reqs[t - 1]
            if v and (g >= n or not (pr >> g) & 1):
                return f"cycle {t}: valid with grant={g} but requests of cycle {t-1} were {pr:#b}"
            if bool(v) != (pr != 0):
                return f"cycle {t}: valid={v} but requests of cycle {t-1} were {pr:#b}"
            granted = [bool(v and g == j) for j in range(n)]
            r = pr
            window = reqs[:t]
        # fairness: an input requesting continuously is served within n cycles
        for j in range(n):
            if (r >> j) & 1:
                served_since[j] = 0 if granted[j] else served_since[j] + 1
                if served_since[j] >= n:
                    return (f"cycle {t}: input {j} has requested for {served_since[j]} consecutive cycles "
                            f"(count={n}) without being granted; requests so far {window[-n-1:]}")
            else:
                served_since[j] = 0
    return None


def _mk(comp: str, n: int, reqs: list[int], tag: str) -> Case:
    return Case(f"cfg comp={comp} n={n}", [f"cyc r={r}" for r in reqs], {"component": comp, "comp": comp, "n": n}, tag)


def _history(rng, n: int, length: int, style: str) -> list[int]:
    full = (1 << n) - 1
    out = []
    if style == "uniform":
        return [rng.randrange(full + 1) for _ in range(length)]
    if style == "sparse":
        return [rng.choice([0, 0, 1 << rng.randrange(n), rng.randrange(full + 1)]) for _ in range(length)]
    if style == "sticky":  # a few inputs request continuously for a while, others come and go
        t = 0
        while t < length:
            stick = rng.randrange(full + 1) & rng.randrange(full + 1)
            for _ in range(rng.randrange(1, 2 * n + 3)):
                out.append(stick | (rng.randrange(full + 1) & rng.randrange(full + 1)))
                t += 1
        return out[:length]
    if style == "dense":
        return [full & ~(rng.randrange(full + 1) & rng.randrange(full + 1) & rng.randrange(full + 1)) for _ in range(length)]
    raise ValueError(style)


def gen_cases(ctx: Check) -> list[Case]:
    rng = ctx.rng("gen")
    cases: list[Case] = []
    counts = ctx.pick([1, 2, 3, 4, 5, 6, 8, 9, 13, 16], [1, 2, 3, 4, 5, 6, 7, 8, 9, 12, 13, 16, 17, 24])
    length = ctx.pick(300, 800)
    for comp in ("onehot", "bin"):
        for n in counts:
            full = (1 << n) - 1
            # directed: everybody requests (pure rotation), single requester walking, nobody, holder keeps grant
            d = [full] * (2 * n + 1) + [0, 0] + [1 << j for j in range(n)] + [0] + [1 << (n - 1)] * 3 + [full, 0, full]
            d += [full & ~(1 << j) for j in range(n)] * 2
            cases.append(_mk(comp, n, d, "directed"))
            for style in ("uniform", "sparse", "sticky", "dense"):
                cases.append(_mk(comp, n, _history(rng, n, length, style), "random"))
    if ctx.thorough:
        import itertools

        for comp in ("onehot", "bin"):
            for n in (1, 2, 3):
                for L in range(1, 5):
                    for seq in itertools.product(range(1 << n), repeat=L):
                        cases.append(_mk(comp, n, list(seq), "exhaustive"))
            # from every reachable state: prefix that parks the register on g, then every pair of request vectors
            for n in (2, 3, 4):
                for g in range(n):
                    for a in range(1 << n):
                        for b in range(1 << n):
                            cases.append(_mk(comp, n, [1 << g, a, b, 0], "exhaustive"))
    return cases


def more_cases(case: Case, rng):
    comp, n = case.desc["comp"], case.desc["n"]
    for style in ("sticky", "dense", "uniform", "sparse") * 6:
        yield _mk(comp, n, _history(rng, n, 200, style), "search")


def nontrivial(case: Case, out: list[str]) -> bool:
    """At least two simultaneous requesters in some cycle and both 'no request' and 'request' cycles present
    (for count 1: both a request and a no-request cycle)."""
    reqs = _reqs(case)
    multi = any(r & (r - 1) for r in reqs) or case.desc["n"] == 1
    return multi and any(r == 0 for r in reqs) and any(r != 0 for r in reqs)


def _corpus(pid: str) -> list[Case]:
    """directed cases / minimised past failures from corpus/<pid>/*.json, run first"""
    import json

    from ..common import CORPUS

    out = []
    for f in sorted((CORPUS / pid).glob("*.json")):
        b = json.loads(f.read_text())
        out.append(Case(b["cfg"], list(b["ops"]), b.get("desc", {}), "corpus"))
    return out


def run(ctx: Check):
    ctx.rule = ("case = (arbiter class, count, request history from reset); non-trivial = history with a cycle of "
                ">= 2 simultaneous requesters, a cycle without requests and a cycle with requests; distinct by "
                "(class, count, history)")
    ctx.proof_stage()
    cases = _corpus("C39") + gen_cases(ctx)
    for c in cases:
        ctx.count(f"comp_{c.desc['comp']}")
        ctx.count(f"count_{c.desc['n']}")
    lockstep(ctx, "roundrobin", "C39", cases, impl, monitor, more_cases, nontrivial, procs=ctx.pick(1, 8))
    if ctx.thorough:
        ctx.note("exhaustive: all request sequences of length <= 4 for counts 1..3 from reset; all (state, r1, r2) for counts 2..4")


def replay(ctx: Check, body: dict):
    from ..lockstep import replay_case

    return replay_case(body, impl, monitor)
