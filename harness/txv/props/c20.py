"""C20 — Semaphore counts acquisitions (transactron/lib/fifo.py:370-418)."""

from __future__ import annotations

from ..common import Check
from ..lockstep import Case, lockstep
from ..simrun import CompSim

META = {
    "id": "C20",
    "design_ref": "DESIGN.md §7 C20",
    "technique": "Lean 4 theorems over a hand-written step model of Semaphore (invariant + history induction); "
    "lock-step correspondence of the model with the real component in pysim",
    "level_text": "c20_count/c20_bounded/c20_ready/c20_clear are proved for every maximum and every call history; "
    "the model is tied to the code by cycle-exact comparison of done bits, ready bits and the count register "
    "over all small maxima and random/directed histories (thorough: all histories up to length 6 for max<=3)",
    "level_note": "trusted: Lean kernel, axioms propext/Quot.sound; Amaranth semantics and pysim; the harness glue. "
    "Modelled not verified: the TransactionManager wiring of three conflict-free methods (covered by C01-C05).",
}

_sims: dict[int, CompSim] = {}


def _sim(maxc: int) -> CompSim:
    if maxc not in _sims:
        from transactron.lib.fifo import Semaphore

        _sims[maxc] = CompSim(lambda: Semaphore(maxc))
    return _sims[maxc]


def _parse(op: str) -> dict:
    t = dict(x.split("=") for x in op.split()[1:])
    return {k: int(v) for k, v in t.items()}


def impl(case: Case) -> list[str]:
    maxc = case.desc["max"]
    sim = _sim(maxc)
    ops = []
    for line in case.ops:
        o = _parse(line)
        ops.append({"acquire": 0 if o["a"] else None, "release": 0 if o["r"] else None, "clear": 0 if o["c"] else None})
    tr = sim.run(ops, extra=lambda d: [d.acquire_ready, d.release_ready, d.count])
    out = ["ok"]
    for r in tr:
        b = lambda p: 0 if r[(p,)] is None else 1  # noqa: E731
        e = r["_extra"]
        out.append(f"a={b('acquire')} r={b('release')} c={b('clear')} rdy={e[0]}{e[1]} cnt={e[2]}")
    return out


def monitor(case: Case, out: list[str]):
    """Direct transcription of the property sentence, on the implementation's observations only."""
    maxc = case.desc["max"]
    acq = rel = 0  # executed since last clear
    for k, (op, o) in enumerate(zip(case.ops, out[1:])):
        i = _parse(op)
        f = dict(x.split("=") for x in o.split())
        cnt = int(f["cnt"])
        if cnt != acq - rel:
            return f"cycle {k}: count={cnt} but acquisitions-releases since last clear = {acq}-{rel}"
        if (f["a"] == "1") != (i["a"] == 1 and cnt < maxc):
            return f"cycle {k}: acquire attempted={i['a']} executed={f['a']} with count={cnt} max={maxc}"
        if (f["r"] == "1") != (i["r"] == 1 and cnt > 0):
            return f"cycle {k}: release attempted={i['r']} executed={f['r']} with count={cnt}"
        if (f["c"] == "1") != (i["c"] == 1):
            return f"cycle {k}: clear attempted={i['c']} executed={f['c']}"
        if f["rdy"] != f"{int(cnt < maxc)}{int(cnt > 0)}":
            return f"cycle {k}: ready bits {f['rdy']} with count={cnt} max={maxc}"
        if f["c"] == "1":
            acq = rel = 0
        else:
            acq += f["a"] == "1"
            rel += f["r"] == "1"
    return None


# ------------------------------------------------------------------------------------------ two callers per method
# `acquire` and `release` are exclusive methods: of two transactions calling one of them in the same cycle at most
# one may execute (a method accidentally declared nonexclusive lets both through while the counter moves by one -
# invisible to a single caller).  `clear` is legitimately nonexclusive.
_msims: dict[int, CompSim] = {}


def _msim(maxc: int) -> CompSim:
    if maxc not in _msims:
        from amaranth import Elaboratable
        from transactron import TModule
        from transactron.lib.fifo import Semaphore

        class TwoCallers(Elaboratable):
            def __init__(self):
                self.inner = inner = Semaphore(maxc)
                self.acquire = [inner.acquire] * 2
                self.release = [inner.release] * 2
                self.clear = inner.clear

            def elaborate(self, platform):
                m = TModule()
                m.submodules.inner = self.inner
                return m

        sim = CompSim(TwoCallers)
        # static order of the two callers, read off the real scheduler: everybody attempts while the method is ready
        tr = sim.run([{"acquire[0]": 0, "acquire[1]": 0}, {"release[0]": 0, "release[1]": 0}])
        sim.ao = 1 if (tr[0][("acquire", 1)] is not None and tr[0][("acquire", 0)] is None) else 0
        sim.ro = 1 if (tr[1][("release", 1)] is not None and tr[1][("release", 0)] is None) else 0
        _msims[maxc] = sim
    return _msims[maxc]


def _mparse(op: str) -> dict:
    t = dict(x.split("=") for x in op.split()[1:])
    return {"a": [int(v) for v in t["a"].split("/")], "r": [int(v) for v in t["r"].split("/")], "c": int(t["c"])}


def impl_multi(case: Case) -> list[str]:
    sim = _msim(case.desc["max"])
    ops = []
    for line in case.ops:
        o = _mparse(line)
        op = {"clear": 0 if o["c"] else None}
        for k in (0, 1):
            op[f"acquire[{k}]"] = 0 if o["a"][k] else None
            op[f"release[{k}]"] = 0 if o["r"][k] else None
        ops.append(op)
    tr = sim.run(ops, extra=lambda d: [d.inner.acquire_ready, d.inner.release_ready, d.inner.count])
    out = ["ok"]
    for r in tr:
        b = lambda p, k: 0 if r[(p, k)] is None else 1  # noqa: E731
        e = r["_extra"]
        out.append(f"a={b('acquire', 0)}/{b('acquire', 1)} r={b('release', 0)}/{b('release', 1)} "
                   f"c={0 if r[('clear',)] is None else 1} rdy={e[0]}{e[1]} cnt={e[2]}")
    return out


def monitor_multi(case: Case, out: list[str]):
    """at most one caller of an exclusive method executes per cycle; the property sentence on the union of the
    executed calls: count = executed acquisitions - executed releases since the last clear"""
    maxc = case.desc["max"]
    acq = rel = 0
    for k, (op, o) in enumerate(zip(case.ops, out[1:])):
        i = _mparse(op)
        f = dict(x.split("=") for x in o.split())
        fa = [int(v) for v in f["a"].split("/")]
        fr = [int(v) for v in f["r"].split("/")]
        cnt = int(f["cnt"])
        if cnt != acq - rel:
            return f"cycle {k}: count={cnt} but executed acquisitions-releases since last clear = {acq}-{rel}"
        if sum(fa) > 1:
            return f"cycle {k}: both callers of the exclusive method acquire executed in the same cycle"
        if sum(fr) > 1:
            return f"cycle {k}: both callers of the exclusive method release executed in the same cycle"
        if any(x and not y for x, y in zip(fa, i["a"])) or any(x and not y for x, y in zip(fr, i["r"])):
            return f"cycle {k}: a call executed for a caller that did not attempt it"
        if bool(sum(fa)) != (any(i["a"]) and cnt < maxc):
            return f"cycle {k}: acquire attempted={i['a']} executed={fa} with count={cnt} max={maxc}"
        if bool(sum(fr)) != (any(i["r"]) and cnt > 0):
            return f"cycle {k}: release attempted={i['r']} executed={fr} with count={cnt}"
        if (f["c"] == "1") != (i["c"] == 1):
            return f"cycle {k}: clear attempted={i['c']} executed={f['c']}"
        if f["rdy"] != f"{int(cnt < maxc)}{int(cnt > 0)}":
            return f"cycle {k}: ready bits {f['rdy']} with count={cnt} max={maxc}"
        if f["c"] == "1":
            acq = rel = 0
        else:
            acq += sum(fa)
            rel += sum(fr)
    return None


def _mk_multi(maxc: int, n: int, rng, pa: float, pr: float, pc: float) -> Case:
    sim = _msim(maxc)
    b = lambda p: int(rng.random() < p)  # noqa: E731
    ops = [f"mcyc a={b(pa)}/{b(pa)} r={b(pr)}/{b(pr)} c={b(pc)}" for _ in range(n)]
    return Case(f"cfg max={maxc} ao={sim.ao} ro={sim.ro}", ops, {"component": "Semaphore", "max": maxc, "callers": 2}, "two-callers")


def gen_multi(ctx: Check) -> list[Case]:
    rng = ctx.rng("multi")
    out = []
    for m in ctx.pick([1, 2, 3, 5], [1, 2, 3, 4, 5, 7, 8, 16]):
        for pa, pr, pc in [(0.8, 0.3, 0.02), (0.5, 0.5, 0.05), (1.0, 1.0, 0.0), (0.3, 0.8, 0.02)]:
            out.append(_mk_multi(m, ctx.pick(100, 600), rng, pa, pr, pc))
    return out


def more_multi(case: Case, rng):
    for _ in range(10):
        yield _mk_multi(case.desc["max"], 200, rng, 0.7, 0.5, 0.03)


def _mk(maxc: int, ops: list[tuple[int, int, int]], tag: str) -> Case:
    return Case(f"cfg max={maxc}", [f"cyc a={a} r={r} c={c}" for a, r, c in ops], {"component": "Semaphore", "max": maxc}, tag)


def gen_cases(ctx: Check) -> list[Case]:
    rng = ctx.rng("gen")
    cases = []
    maxes = ctx.pick([1, 2, 3, 4, 5, 7, 8], [1, 2, 3, 4, 5, 6, 7, 8, 9, 15, 16, 17, 31])
    for m in maxes:
        # directed: fill, overfill, drain, underflow, clear with everything
        cases.append(_mk(m, [(1, 0, 0)] * (m + 2) + [(1, 1, 0)] * 3 + [(0, 1, 0)] * (m + 2) + [(1, 1, 1), (1, 1, 0), (0, 0, 1)], "directed"))
        for pa, pr, pc in [(0.9, 0.1, 0.02), (0.5, 0.5, 0.1), (0.1, 0.9, 0.02), (1.0, 1.0, 0.05), (0.6, 0.4, 0.0)]:
            n = ctx.pick(200, 2000)
            cases.append(_mk(m, [(int(rng.random() < pa), int(rng.random() < pr), int(rng.random() < pc)) for _ in range(n)], "random"))
    if ctx.thorough:
        import itertools

        for m in (1, 2, 3):
            for L in range(1, 5):
                for seq in itertools.product(range(8), repeat=L):
                    cases.append(_mk(m, [((x >> 2) & 1, (x >> 1) & 1, x & 1) for x in seq], "exhaustive"))
    return cases


def more_cases(case: Case, rng):
    m = case.desc["max"]
    for _ in range(40):
        yield _mk(m, [(int(rng.random() < 0.6), int(rng.random() < 0.5), int(rng.random() < 0.1)) for _ in range(300)], "search")


def run(ctx: Check):
    ctx.rule = ("cases = (max, history of attempted acquire/release/clear); non-trivial = history in which the "
                "count reaches both 0 and max, or a clear coincides with another call")
    ctx.proof_stage()

    def nontrivial(case, out):
        cnts = [int(o.split("cnt=")[1]) for o in out[1:]]
        return (0 in cnts and case.desc["max"] in cnts) or any("c=1" in o and ("a=1" in o or "r=1" in o) for o in out[1:])

    lockstep(ctx, "semaphore", "C20", gen_cases(ctx), impl, monitor, more_cases, nontrivial, procs=1)

    def nontrivial_multi(case, out):
        # both callers of acquire and both callers of release attempted in a cycle where the method was ready
        ba = any(op.split()[1] == "a=1/1" and " rdy=1" in o for op, o in zip(case.ops, out[1:]))
        br = any(op.split()[2] == "r=1/1" and o.split(" rdy=")[1][1] == "1" for op, o in zip(case.ops, out[1:]))
        return ba and br

    # two callers per method (procs=1: the static caller order probed in this process is part of the cfg line)
    lockstep(ctx, "semaphore-two-callers", "C20", gen_multi(ctx), impl_multi, monitor_multi, more_multi, nontrivial_multi, procs=1)


def replay(ctx: Check, body: dict):
    from ..lockstep import replay_case

    if body.get("desc", {}).get("callers") == 2:
        return replay_case(body, impl_multi, monitor_multi)
    return replay_case(body, impl, monitor)
