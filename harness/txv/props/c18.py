"""C18 — method transformers and connectors implement their documented function
(transactron/lib/transformers.py:143-537, transactron/lib/connectors.py:335-435).

Modelling level: targets' readiness and results in; which targets are called with what,
the method's readiness (executed or not) and result out.  Targets are `Adapter`s whose
`en`/`data_in` are driven directly by the harness, callers are `AdapterTrans`s.
"""

from __future__ import annotations

import itertools
from typing import Optional

from amaranth import Elaboratable
from transactron import TModule, Method
from transactron.core.method import Required

from ..common import Check
from ..lockstep import Case, lockstep
from ..simrun import CompSim

META = {
    "id": "C18",
    "design_ref": "DESIGN.md §7 C18",
    "technique": "Lean 4 theorems over hand-written cycle models of ConnectTrans, CrossbarConnectTrans, MethodMap, "
    "MethodFilter (both modes), MethodProduct, MethodTryProduct, NonexclusiveWrapper and Collector, stated for "
    "arbitrary map/condition/combiner functions, arbitrary target counts and (Collector, crossbar) arbitrary "
    "scheduling orders and histories; lock-step correspondence of the models with the real components in pysim",
    "level_text": "per-cycle theorems (c18_connect, c18_crossbar_*, c18_map, c18_filter_*, c18_product, "
    "c18_tryproduct, c18_nonex; c18_filter_usecond at full strength after the repair of F-b6-1) hold for every readiness pattern, every argument and every function parameter; "
    "c18_collector_once is a history invariant (delivered ++ buffered = results of executed target calls) for every "
    "target count, scheduling order and call history. The models are tied to the code by cycle-exact comparison of "
    "executed calls, arguments seen by every target and results, enumerating all readiness patterns of up to 4 "
    "targets for a family of concrete map/condition/combiner functions",
    "level_note": "trusted: Lean kernel, axioms propext/Classical.choice/Quot.sound; Amaranth semantics and pysim; the "
    "harness glue. Python lambdas (i_fun/o_fun/condition/combiner) are parameters of the theorems; the "
    "correspondence instantiates them with a small family (id, +k, xor k, rotate, *k; bit test, <k, ==k, &k; "
    "first/sum/xor/last; success bits/masked sum/raw sum). The scheduling order of the crossbar's transactions is "
    "read from the real TransactionManager and validated by the driver (any permutation is covered by the theorems). "
    "Not modelled: MethodMap/MethodFilter with a Method (instead of a function) as transform/condition.",
}

# --------------------------------------------------------------------------- function families


def _mask(w: int) -> int:
    return (1 << w) - 1


def _split(code: str) -> tuple[str, int]:
    name, _, k = code.partition(":")
    return name, int(k) if k else 0


def un_ref(code: str, w: int, x: int) -> int:
    """Python reference of the unary function family (used by the monitor only)."""
    name, k = _split(code)
    if name == "id":
        r = x
    elif name == "add":
        r = x + k
    elif name == "xor":
        r = x ^ k
    elif name == "mul":
        r = x * k
    elif name == "rot":
        h = k % w if w else 0
        r = (x >> h) | ((x & _mask(h)) << (w - h))
    else:
        raise ValueError(code)
    return r & _mask(w)


def un_hw(code: str, w: int):
    """The same family as an Amaranth map function `(m, v) -> dict`."""
    from amaranth import Cat

    name, k = _split(code)

    def f(_, v):
        if name == "id":
            return {"data": v.data}
        if name == "add":
            return {"data": v.data + k}
        if name == "xor":
            return {"data": v.data ^ k}
        if name == "mul":
            return {"data": v.data * k}
        if name == "rot":
            h = k % w if w else 0
            return {"data": Cat(v.data[h:], v.data[:h])}
        raise ValueError(code)

    return f


def cond_ref(code: str, w: int, x: int) -> int:
    """Value returned by the condition function (an integer; non-zero = true per the documentation)."""
    name, k = _split(code)
    if name == "bit":
        return (x >> k) & 1
    if name == "lt":
        return int(x < k)
    if name == "eq":
        return int(x == k)
    if name == "and":
        return x & k
    if name == "true":
        return 1
    if name == "false":
        return 0
    raise ValueError(code)


def cond_hw(code: str, w: int):
    from amaranth import C

    name, k = _split(code)

    def f(_, v):
        if name == "bit":
            return v.data[k]
        if name == "lt":
            return v.data < k
        if name == "eq":
            return v.data == k
        if name == "and":
            return v.data & k
        if name == "true":
            return C(1)
        if name == "false":
            return C(0)
        raise ValueError(code)

    return f


def comb_ref(code: str, w: int, rs: list[int]) -> int:
    if code == "first":
        return rs[0]
    if code == "last":
        return rs[-1]
    if code == "add":
        return sum(rs) & _mask(w)
    if code == "xor":
        r = 0
        for x in rs:
            r ^= x
        return r
    raise ValueError(code)


def comb_hw(code: str, w: int):
    if code == "first":
        return None
    L = [("data", w)]
    if code == "last":
        return (L, lambda _, vs: {"data": vs[-1].data})
    if code == "add":
        return (L, lambda _, vs: {"data": sum(x.data for x in vs)})
    if code == "xor":

        def fx(_, vs):
            r = vs[0].data
            for x in vs[1:]:
                r = r ^ x.data
            return {"data": r}

        return (L, fx)
    raise ValueError(code)


def tcomb_width(code: str, w: int, n: int) -> int:
    return {"none": 0, "bits": n, "msum": w, "rsum": w, "both": n + w}[code]


def tcomb_ref(code: str, w: int, n: int, sr: list[tuple[int, int]]) -> int:
    bits = sum(s << i for i, (s, _) in enumerate(sr))
    msum = sum(r for s, r in sr if s) & _mask(w)
    rsum = sum(r for _, r in sr) & _mask(w)
    return {"none": 0, "bits": bits, "msum": msum, "rsum": rsum, "both": bits | (msum << n)}[code]


def tcomb_hw(code: str, w: int, n: int):
    from amaranth import Cat, Mux

    if code == "none":
        return None
    if code == "bits":
        return ([("data", n)], lambda _, vs: {"data": Cat(s for s, _ in vs)})
    if code == "msum":
        return ([("data", w)], lambda _, vs: {"data": sum(Mux(s, r.data, 0) for s, r in vs)})
    if code == "rsum":
        return ([("data", w)], lambda _, vs: {"data": sum(r.data for _, r in vs)})
    if code == "both":
        return (
            [("succ", n), ("sum", w)],
            lambda _, vs: {"succ": Cat(s for s, _ in vs), "sum": sum(Mux(s, r.data, 0) for s, r in vs)},
        )
    raise ValueError(code)


# --------------------------------------------------------------------------- real circuits

_sims: dict[str, tuple] = {}


def _kv(line: str) -> dict[str, str]:
    return dict(x.split("=", 1) for x in line.split()[1:])


def _olist(s: str) -> list[Optional[int]]:
    return [None if x == "-" else int(x) for x in s.split(",")]


def _ilist(s: str) -> list[int]:
    return [] if s in ("", "-") else [int(x) for x in s.split(",")]


def _bits(s: str) -> list[int]:
    return [int(c) for c in s]


def _fo(v) -> str:
    return "-" if v is None else str(int(v))


def _fl(vs) -> str:
    return ",".join(_fo(v) for v in vs)


def _trans_order(sim, first_paths: list[tuple], second_paths: list[tuple]):
    """Scheduling order of the connecting transactions, read from the real manager.

    Returns (order, runs): `order` lists pair indices `i * len(second) + j` by ascending priority
    position (the order in which the eager scheduler grants them); `runs[idx]` is the `run` signal of
    pair `idx`."""
    from transactron.core.manager import MethodMap as MM, TransactionManager

    tm = sim.tctx.transaction_manager
    mm = MM(tm.transactions, tm.methods)
    _, porder = TransactionManager._conflict_graph(mm)
    b1 = {sim.tbs[p].adapter.iface._body: i for i, p in enumerate(first_paths)}
    b2 = {sim.tbs[p].adapter.iface._body: j for j, p in enumerate(second_paths)}
    pairs = {}
    for t in mm.transactions:
        ms = mm.methods_by_transaction[t]
        i = [b1[x] for x in ms if x in b1]
        if len(i) != 1 or (not second_paths and len(ms) < 2):  # (a competing caller only calls the target)
            continue
        if second_paths:
            j = [b2[x] for x in ms if x in b2]
            if len(j) != 1:
                continue
            idx = i[0] * len(second_paths) + j[0]
        else:
            idx = i[0]
        pairs[idx] = t
    order = sorted(pairs, key=lambda idx: porder[pairs[idx]])
    return order, [pairs[idx].run for idx in sorted(pairs)]


def val_ref(code: Optional[str], x: int) -> bool:
    """validate_arguments family of the target methods: `ne:k` = the argument must differ from k"""
    if not code:
        return True
    name, k = _split(code)
    if name == "ne":
        return x != k
    raise ValueError(code)


def val_hw(code: Optional[str]):
    if not code:
        return {}
    name, k = _split(code)
    assert name == "ne"
    return {"validate_arguments": lambda data: data != k}


class Rig(Elaboratable):
    """A transformer/connector wired to target `Adapter`s owned by the rig (as test_transformers.py /
    test_connectors.py do), built either through the constructor (+ `provide`) or through the `create` factory,
    optionally with `validate_arguments` on the target methods.  `tgt` (a tuple, so that SimpleTestCircuit does not
    wrap it) lists the target methods; `adapters` maps CompSim paths to the adapters."""

    def __init__(self, kind: str, d: dict):
        from transactron.lib.adapters import Adapter
        from transactron.lib import transformers as T, connectors as C

        create = d.get("via") == "create"
        vkw = val_hw(d.get("val"))
        self.adapters: dict[tuple, Adapter] = {}
        self.subs: list = []

        def adapter(path, i, o):
            a = Adapter(i=i, o=o, **vkw)
            self.adapters[path] = a
            self.subs.append(a)
            return a.iface

        if kind in ("map", "filter", "nonex"):
            w = d["w"]
            L = [("data", w)]
            t = adapter(("target",), L, L)
            self.tgt = (t,)
            if kind == "map":
                it, ot = (L, un_hw(d["ifun"], w)), (L, un_hw(d["ofun"], w))
                tr = T.MethodMap.create(t, i_transform=it, o_transform=ot) if create else T.MethodMap(L, L, i_transform=it, o_transform=ot)
            elif kind == "filter":
                args = (cond_hw(d["cond"], w), {"data": d["def"]})
                tr = (
                    T.MethodFilter.create(t, *args, use_condition=bool(d["uc"]))
                    if create
                    else T.MethodFilter(L, L, *args, use_condition=bool(d["uc"]))
                )
            else:
                tr = T.NonexclusiveWrapper.create(t) if create else T.NonexclusiveWrapper(L, L)
            if not create:
                tr.target.provide(t)
            if kind == "nonex":
                self.callers = [tr.method for _ in range(d["k"])]
            else:
                self.method = tr.method
        elif kind in ("product", "tryproduct", "collector"):
            w, n = d["w"], d["n"]
            L = [("data", w)]
            ts = [adapter(("targets", j), [] if kind == "collector" else L, L) for j in range(n)]
            self.tgt = tuple(ts)
            if kind == "product":
                cb = comb_hw(d["comb"], w)
                tr = T.MethodProduct.create(ts, cb) if create else T.MethodProduct(L, (L,) * n, cb)
            elif kind == "tryproduct":
                cb = tcomb_hw(d["comb"], w, n)
                tr = T.MethodTryProduct.create(ts, cb) if create else T.MethodTryProduct(L, (L,) * n, cb)
            else:
                tr = T.Collector.create(ts) if create else T.Collector(n, L)
            if not create:
                for m1, m2 in zip(tr.targets, ts):
                    m1.provide(m2)
            self.method = tr.method
        elif kind == "connect":
            LI, LO = [("data", d["wi"])], [("data", d["wo"])]
            m1, m2 = adapter(("method1",), LI, LO), adapter(("method2",), LO, LI)
            self.tgt = (m1, m2)
            tr = C.ConnectTrans.create(m1, m2) if create else C.ConnectTrans(LI, LO)
            if not create:
                tr.method1.provide(m1)
                tr.method2.provide(m2)
        elif kind == "crossbar":
            LI, LO = [("data", d["wi"])], [("data", d["wo"])]
            a = [adapter(("methods1", i), LI, LO) for i in range(d["n1"])]
            b = [adapter(("methods2", j), LO, LI) for j in range(d["n2"])]
            self.tgt = tuple(a + b)
            tr = C.CrossbarConnectTrans.create(a, b) if create else C.CrossbarConnectTrans(d["n1"], d["n2"], LI, LO)
            if not create:
                tr.methods1.provide(a)
                tr.methods2.provide(b)
        else:
            raise ValueError(kind)
        self.tr = tr

    def elaborate(self, platform):
        m = TModule()
        for k, a in enumerate(self.subs):
            m.submodules[f"tadapter{k}"] = a
        m.submodules.tr = self.tr
        return m


def _rig_sim(kind: str, d: dict, decl: Optional[str] = None):
    """CompSim of a `Rig`; the rig's adapters are registered under the usual paths."""
    from types import SimpleNamespace

    if decl is None:
        sim, cf = CompSim(lambda: Rig(kind, d)), None
    else:
        sim, cf = _with_comps(lambda: Rig(kind, d), decl)
    for path, a in sim.dut.adapters.items():
        sim.tbs[path] = SimpleNamespace(adapter=a)
    return sim, cf


def _uses_rig(d: dict) -> bool:
    return d.get("via") == "create" or bool(d.get("val"))


class _CompWrap(Elaboratable):
    """The test circuit plus one competing `AdapterTrans` per target method, declared before or after it."""

    def __init__(self, circ, comps, first: bool):
        self.circ, self.comps, self.first = circ, comps, first

    def elaborate(self, platform):
        from amaranth import Module

        m = Module()
        if self.first:
            for j, c in enumerate(self.comps):
                m.submodules[f"comp{j}"] = c
        m.submodules.circ = self.circ
        if not self.first:
            for j, c in enumerate(self.comps):
                m.submodules[f"comp{j}"] = c
        return m


def _with_comps(make, decl: str):
    """CompSim of `make()` whose target methods are ALSO called by competing AdapterTrans transactions
    (paths `("comp", j)`); returns (sim, cf) with cf[j] = the competitor of target j precedes the transformer's
    transaction(s) using target j in the real manager's priority order."""
    from transactron.lib.adapters import AdapterTrans
    from transactron.testing.testbenchio import TestbenchIO
    from transactron.core.manager import MethodMap as MM, TransactionManager

    comps: list = []

    def wrap(circ, dut):
        ts = list(dut.tgt) if hasattr(dut, "tgt") else (list(dut.targets) if hasattr(dut, "targets") else [dut.target])
        comps.extend(TestbenchIO(AdapterTrans.create(t)) for t in ts)
        return _CompWrap(circ, comps, decl == "first")

    sim = CompSim(make, wrap=wrap)
    for path, a in getattr(sim.dut, "adapters", {}).items():
        from types import SimpleNamespace

        sim.tbs[path] = SimpleNamespace(adapter=a)
    for j, c in enumerate(comps):
        sim.tbs[("comp", j)] = c
    tm = sim.tctx.transaction_manager
    mm = MM(tm.transactions, tm.methods)
    _, porder = TransactionManager._conflict_graph(mm)
    cf = []
    for j, c in enumerate(comps):
        tbody = c.adapter.iface._body
        users = [t for t in mm.transactions if tbody in mm.methods_by_transaction[t]]
        mbody = sim.dut.method._body
        mine = [
            t for t in users
            if t.name.startswith("AdapterTrans") and mbody not in mm.methods_by_transaction[t]
            and len(mm.methods_by_transaction[t]) == 1
        ]
        others = [t for t in users if t not in mine]
        assert len(mine) == 1 and others, (len(mine), len(others))
        cf.append(int(porder[mine[0]] < min(porder[t] for t in others)))
    return sim, cf


def _build(kind: str, d: dict):
    """Elaborate the real component for configuration `d` (cached per configuration)."""
    if "cdecl" in d:
        d0 = {k: v for k, v in d.items() if k not in ("cdecl", "cf")}
        def make():
            # the plain builder creates a CompSim; we only need its dut factory, so rebuild the dut here
            return _make_dut(kind, d0)

        sim, cf = _with_comps(make, d["cdecl"])
        order = None
        if kind == "collector":
            order = _trans_order(sim, [("targets", i) for i in range(d["n"])], [])[0]
            # the connecting transactions are those that also call forwarder.write; competitors call one method
        return sim, (order, cf)
    if _uses_rig(d):
        sim, _ = _rig_sim(kind, d)
        if kind == "crossbar":
            return sim, _trans_order(
                sim, [("methods1", i) for i in range(d["n1"])], [("methods2", j) for j in range(d["n2"])]
            )
        if kind == "collector":
            return sim, _trans_order(sim, [("targets", i) for i in range(d["n"])], [])
        return sim, None
    return _build_plain(kind, d)


def _make_dut(kind: str, d: dict):
    from transactron.lib.transformers import MethodFilter, MethodProduct, MethodTryProduct, Collector

    w = d["w"]
    L = [("data", w)]
    if kind == "filter":
        return MethodFilter(L, L, cond_hw(d["cond"], w), default={"data": d["def"]}, use_condition=bool(d["uc"]))
    if kind == "product":
        return MethodProduct(L, (L,) * d["n"], comb_hw(d["comb"], w))
    if kind == "tryproduct":
        return MethodTryProduct(L, (L,) * d["n"], tcomb_hw(d["comb"], w, d["n"]))
    if kind == "collector":
        return Collector(d["n"], L)
    raise ValueError(kind)


def _build_plain(kind: str, d: dict):
    from transactron.lib.transformers import (
        MethodMap,
        MethodFilter,
        MethodProduct,
        MethodTryProduct,
        NonexclusiveWrapper,
        Collector,
    )
    from transactron.lib.connectors import ConnectTrans, CrossbarConnectTrans

    if kind == "map":
        w = d["w"]
        L = [("data", w)]
        return CompSim(
            lambda: MethodMap(L, L, i_transform=(L, un_hw(d["ifun"], w)), o_transform=(L, un_hw(d["ofun"], w)))
        ), None
    if kind == "filter":
        w = d["w"]
        L = [("data", w)]
        return CompSim(
            lambda: MethodFilter(L, L, cond_hw(d["cond"], w), default={"data": d["def"]}, use_condition=bool(d["uc"]))
        ), None
    if kind == "product":
        w, n = d["w"], d["n"]
        L = [("data", w)]
        return CompSim(lambda: MethodProduct(L, (L,) * n, comb_hw(d["comb"], w))), None
    if kind == "tryproduct":
        w, n = d["w"], d["n"]
        L = [("data", w)]
        return CompSim(lambda: MethodTryProduct(L, (L,) * n, tcomb_hw(d["comb"], w, n))), None
    if kind == "nonex":
        w, k = d["w"], d["k"]
        L = [("data", w)]

        class NonexWrap(Elaboratable):
            """k AdapterTrans callers of one NonexclusiveWrapper (as test_transformers.py:231-254)."""

            target: Required[Method]

            def __init__(self):
                self.nw = NonexclusiveWrapper(L, L)
                self.target = self.nw.target
                self.callers = [self.nw.method for _ in range(k)]

            def elaborate(self, platform):
                m = TModule()
                m.submodules.nw = self.nw
                return m

        return CompSim(NonexWrap), None
    if kind == "connect":
        return CompSim(lambda: ConnectTrans([("data", d["wi"])], [("data", d["wo"])])), None
    if kind == "crossbar":
        n1, n2 = d["n1"], d["n2"]
        sim = CompSim(lambda: CrossbarConnectTrans(n1, n2, [("data", d["wi"])], [("data", d["wo"])]))
        return sim, _trans_order(
            sim, [("methods1", i) for i in range(n1)], [("methods2", j) for j in range(n2)]
        )
    if kind == "collector":
        n = d["n"]
        sim = CompSim(lambda: Collector(n, [("data", d["w"])]))
        return sim, _trans_order(sim, [("targets", i) for i in range(n)], [])
    raise ValueError(kind)


def _get(kind: str, d: dict):
    key = kind + repr(sorted((k, v) for k, v in d.items() if k not in ("component", "order")))
    if key not in _sims:
        _sims[key] = _build(kind, d)
    return _sims[key]


def sched_order(kind: str, d: dict) -> list[int]:
    return _get(kind, d)[1][0]


def impl(case: Case) -> list[str]:
    d = case.desc
    kind = d["component"]
    sim, aux = _get(kind, d)
    lines = [_kv(op) for op in case.ops]
    out = ["ok"]

    def drive_all(assign):
        """pre_cycle hook that drives `data_in` of adapters even when they are not enabled"""

        def pre(ctx, k):
            for path, v in assign(lines[k]).items():
                sig = sim.tbs[path].adapter.data_in.as_value()
                if len(sig):
                    ctx.set(sig, v)

        return pre

    comp = "cdecl" in d
    ncomp = (1 if kind == "filter" else d.get("n", 0)) if comp else 0

    def comp_ops(o):
        return {("comp", j): v for j, v in enumerate(_olist(o["catt"]))} if comp else {}

    def comp_bits(r):
        return [int(r[("comp", j)] is not None) for j in range(ncomp)]

    def csuffix(r):
        return " c=" + "".join(map(str, comp_bits(r))) if comp else ""

    if kind in ("map", "filter"):
        ops = [
            {"method": None if o["call"] == "-" else int(o["call"]), "target": int(o["tret"]) if o["trdy"] == "1" else None,
             **comp_ops(o)}
            for o in lines
        ]
        tr = sim.run(ops, pre_cycle=drive_all(lambda o: {("target",): int(o["tret"])}))
        for r in tr:
            out.append(f"m={_fo(r[('method',)])} t={_fo(r[('target',)])}{csuffix(r)}")
    elif kind in ("product", "tryproduct"):
        n = d["n"]
        ops = []
        for o in lines:
            rd, rt = _bits(o["trdy"]), _ilist(o["tret"])
            op = {("targets", i): (rt[i] if rd[i] else None) for i in range(n)}
            op[("method",)] = None if o["call"] == "-" else int(o["call"])
            op.update(comp_ops(o))
            ops.append(op)
        tr = sim.run(ops, pre_cycle=drive_all(lambda o: {("targets", i): v for i, v in enumerate(_ilist(o["tret"]))}))
        for r in tr:
            out.append(f"m={_fo(r[('method',)])} t={_fl(r[('targets', i)] for i in range(n))}{csuffix(r)}")
    elif kind == "nonex":
        k = d["k"]
        ops = []
        for o in lines:
            cs = _olist(o["calls"])
            op = {("callers", i): cs[i] for i in range(k)}
            op[("target",)] = int(o["tret"]) if o["trdy"] == "1" else None
            ops.append(op)
        tr = sim.run(ops, pre_cycle=drive_all(lambda o: {("target",): int(o["tret"])}))
        for r in tr:
            out.append(f"c={_fl(r[('callers', i)] for i in range(k))} t={_fo(r[('target',)])}")
    elif kind == "connect":
        ops = [
            {"method1": int(o["d1"]) if o["r1"] == "1" else None, "method2": int(o["d2"]) if o["r2"] == "1" else None}
            for o in lines
        ]
        tr = sim.run(ops, pre_cycle=drive_all(lambda o: {("method1",): int(o["d1"]), ("method2",): int(o["d2"])}))
        for r in tr:
            out.append(f"m1={_fo(r[('method1',)])} m2={_fo(r[('method2',)])}")
    elif kind == "crossbar":
        n1, n2 = d["n1"], d["n2"]
        ops = []
        for o in lines:
            r1, r2, d1, d2 = _bits(o["r1"]), _bits(o["r2"]), _ilist(o["d1"]), _ilist(o["d2"])
            op = {("methods1", i): (d1[i] if r1[i] else None) for i in range(n1)}
            op.update({("methods2", j): (d2[j] if r2[j] else None) for j in range(n2)})
            ops.append(op)

        def asg(o):
            a = {("methods1", i): v for i, v in enumerate(_ilist(o["d1"]))}
            a.update({("methods2", j): v for j, v in enumerate(_ilist(o["d2"]))})
            return a

        tr = sim.run(ops, pre_cycle=drive_all(asg), extra=lambda _: aux[1])
        for r in tr:
            out.append(
                f"run={''.join(str(x) for x in r['_extra'])} m1={_fl(r[('methods1', i)] for i in range(n1))} "
                f"m2={_fl(r[('methods2', j)] for j in range(n2))}"
            )
    elif kind == "collector":
        n = d["n"]
        ops = []
        for o in lines:
            rd, rt = _bits(o["trdy"]), _ilist(o["tret"])
            op = {("targets", i): (rt[i] if rd[i] else None) for i in range(n)}
            op[("method",)] = 0 if o["rd"] == "1" else None
            op.update(comp_ops(o))
            ops.append(op)
        tr = sim.run(ops, pre_cycle=drive_all(lambda o: {("targets", i): v for i, v in enumerate(_ilist(o["tret"]))}))
        for r in tr:
            cb = comp_bits(r) if comp else [0] * n
            # called by the collector = the target ran and its competing caller did not
            own = ["0" if r[("targets", i)] is None or cb[i] else "1" for i in range(n)]
            out.append(f"t={''.join(own)} rd={_fo(r[('method',)])}{csuffix(r)}")
    else:
        raise ValueError(kind)
    return out


# --------------------------------------------------------------------------- property monitor
# A direct transcription of the sentences of C18, evaluated on the implementation's observations only.


def monitor(case: Case, out: list[str]) -> Optional[str]:
    d = case.desc
    kind = d["component"]
    produced: list[int] = []  # collector: results of executed target calls, in order
    delivered: list[int] = []
    for k, (op, ob) in enumerate(zip(case.ops, out[1:])):
        i = _kv(op)
        o = dict(x.split("=", 1) for x in ob.split())
        where = f"{kind} cycle {k} [{op}] -> [{ob}]: "
        # competing callers of the targets (if any): cdone[j] = the competitor's call to target j executed
        catt = _olist(i["catt"]) if "catt" in i else []
        cdone = [c == "1" for c in o.get("c", "")]
        if catt:
            trd = [i["trdy"] == "1"] if kind == "filter" else [b == 1 for b in _bits(i["trdy"])]
            for j, cd in enumerate(cdone):
                if cd and (catt[j] is None or not trd[j]):
                    return where + f"competitor of target {j} executes without attempting / with the target not ready"
        vc = d.get("val")  # validate_arguments of the targets: callable iff ready and valid(argument it would receive)
        if kind == "connect":
            # transfers data between the two methods exactly when both can run
            both = i["r1"] == "1" and i["r2"] == "1" and val_ref(vc, int(i["d2"])) and val_ref(vc, int(i["d1"]))
            if (o["m1"] != "-") != both or (o["m2"] != "-") != both:
                return where + f"methods called {o['m1'] != '-'}/{o['m2'] != '-'} but both ready = {both}"
            if both and (o["m1"] != i["d2"] or o["m2"] != i["d1"]):
                return where + "data not exchanged"
        elif kind == "crossbar":
            n1, n2 = d["n1"], d["n2"]
            r1, r2, d1, d2 = _bits(i["r1"]), _bits(i["r2"]), _ilist(i["d1"]), _ilist(i["d2"])
            run = [(x // n2, x % n2) for x, b in enumerate(o["run"]) if b == "1"]
            m1, m2 = _olist(o["m1"]), _olist(o["m2"])
            for a, b in run:
                if not (r1[a] and r2[b] and val_ref(vc, d2[b]) and val_ref(vc, d1[a])):
                    return where + f"pair {(a, b)} runs but cannot run (not ready / argument rejected)"
                if m1[a] != d2[b] or m2[b] != d1[a]:
                    return where + f"pair {(a, b)} runs without exchanging data"
            if len({a for a, _ in run}) != len(run) or len({b for _, b in run}) != len(run):
                return where + "a method serves two pairs"
            for a in range(n1):
                if (m1[a] is not None) != any(x == a for x, _ in run):
                    return where + f"methods1[{a}] called without a running pair (or vice versa)"
            for b in range(n2):
                if (m2[b] is not None) != any(y == b for _, y in run):
                    return where + f"methods2[{b}] called without a running pair (or vice versa)"
            for a in range(n1):
                for b in range(n2):
                    if r1[a] and r2[b] and val_ref(vc, d2[b]) and val_ref(vc, d1[a]) and m1[a] is None and m2[b] is None:
                        return where + f"pair {(a, b)}: both can run and neither is served"
        elif kind == "map":
            w = d["w"]
            done = i["call"] != "-" and i["trdy"] == "1" and val_ref(vc, un_ref(d["ifun"], w, int(i["call"])))
            if (o["m"] != "-") != done or (o["t"] != "-") != done:
                return where + f"executed={o['m'] != '-'} target called={o['t'] != '-'} expected {done}"
            if done:
                if int(o["t"]) != un_ref(d["ifun"], w, int(i["call"])):
                    return where + "target argument is not i_fun(arg)"
                if int(o["m"]) != un_ref(d["ofun"], w, int(i["tret"])):
                    return where + "result is not o_fun(target result)"
        elif kind == "filter":
            w = d["w"]
            if i["call"] == "-":
                if o["m"] != "-" or (o["t"] != "-" and not (cdone and cdone[0])):
                    return where + "something executes without a call"
                continue
            a = int(i["call"])
            holds = cond_ref(d["cond"], w, a) != 0
            # the target is available to the filter iff it is ready and not taken by the competing caller
            rdy = i["trdy"] == "1" and not (cdone and cdone[0])
            ok = rdy and (not holds or val_ref(vc, a))  # a call under m.If is validated only when enabled
            done = (ok or not holds) if d["uc"] else ok
            if (o["m"] != "-") != done:
                return where + f"executed={o['m'] != '-'} but condition={holds} target ready={rdy} use_condition={d['uc']}"
            own = o["t"] != "-" and not (cdone and cdone[0])  # the target ran and it was not the competitor's call
            if cdone and cdone[0] and (o["t"] == "-" or int(o["t"]) != catt[0]):
                return where + "competitor executes but the target did not receive its argument"
            if own != (done and holds):
                return where + f"target called by the filter={own} but condition={holds} executed={done}"
            if done and holds and (int(o["t"]) != a or o["m"] != i["tret"]):
                return where + "call not forwarded unchanged"
            if done and not holds and int(o["m"]) != d["def"]:
                return where + "default not returned"
        elif kind in ("product", "tryproduct"):
            w, n = d["w"], d["n"]
            rd, rt = _bits(i["trdy"]), _ilist(i["tret"])
            seen = _olist(o["t"])
            cd = cdone or [False] * n
            for j in range(n):
                if cd[j] and seen[j] != catt[j]:
                    return where + f"competitor of target {j} executes but the target did not receive its argument"
            # the transformer's OWN calls: the target ran and it was not the competitor's call
            tc = [None if cd[j] else seen[j] for j in range(n)]
            # a target is available to the transformer iff it is ready and not taken by a competing caller
            rd = [int(rd[j] and not cd[j] and (i["call"] == "-" or val_ref(vc, int(i["call"])))) for j in range(n)]
            if i["call"] == "-":
                if o["m"] != "-" or any(x is not None for x in tc):
                    return where + "something executes without a call"
                continue
            a = int(i["call"])
            if kind == "product":
                done = all(rd)
                if (o["m"] != "-") != done:
                    return where + f"executed={o['m'] != '-'} but all targets ready={done}"
                if any((x is not None) != done for x in tc) or (done and any(x != a for x in tc)):
                    return where + "not all targets called with the argument"
                if done and int(o["m"]) != comb_ref(d["comb"], w, rt):
                    return where + "result is not combiner(results)"
            else:
                if o["m"] == "-":
                    return where + "try-product did not execute"
                for j in range(n):
                    if (tc[j] is not None) != bool(rd[j]) or (rd[j] and tc[j] != a):
                        return where + f"target {j}: available={rd[j]} called by the try-product with {tc[j]}"
                # "reports which succeeded": success bit j iff the try-product's own call to target j executed
                succ = [int(x is not None) for x in tc]
                if int(o["m"]) != tcomb_ref(d["comb"], w, n, list(zip(succ, rt))):
                    return where + (
                        f"result is not combiner(success bits, results) with success = own executed calls {succ}"
                    )
        elif kind == "nonex":
            cs = _olist(i["calls"])
            res = _olist(o["c"])
            rdy = i["trdy"] == "1"
            if vc and len({c for c in cs if c is not None}) == 1:
                rdy = rdy and val_ref(vc, next(c for c in cs if c is not None))
            for j, c in enumerate(cs):
                if (res[j] is not None) != (c is not None and rdy):
                    return where + f"caller {j}: attempted={c is not None} executed={res[j] is not None} target ready={rdy}"
                if res[j] is not None and res[j] != int(i["tret"]):
                    return where + f"caller {j} did not receive the target's result"
            att = [c for c in cs if c is not None]
            if (o["t"] != "-") != (rdy and bool(att)):
                return where + "target called iff some caller executes fails"
            if o["t"] != "-" and len(set(att)) == 1 and int(o["t"]) != att[0]:
                return where + "target did not receive the callers' argument"
        elif kind == "collector":
            rd, rt = _bits(i["trdy"]), _ilist(i["tret"])
            called = [j for j, b in enumerate(o["t"]) if b == "1"]
            pending = len(produced) - len(delivered)
            if len(called) > 1:
                return where + "two targets called in one cycle"
            for j in called:
                if not rd[j]:
                    return where + f"target {j} called while not ready"
                produced.append(rt[j])
            if called and pending:
                return where + "a target is called while a result is still buffered"
            cd = cdone or [False] * len(rd)
            if any(cd[j] for j in called):
                return where + "a target serves the collector and its competing caller in one cycle"
            if not called and not pending and any(r and not c for r, c in zip(rd, cd)):
                return where + "buffer empty and a target ready (not taken by a competitor), yet none is called"
            can_read = len(produced) > len(delivered)
            if (o["rd"] != "-") != (i["rd"] == "1" and can_read):
                return where + f"read attempted={i['rd']} executed={o['rd'] != '-'} but result available={can_read}"
            if o["rd"] != "-":
                delivered.append(int(o["rd"]))
            if delivered != produced[: len(delivered)] or len(produced) - len(delivered) > 1:
                return where + f"delivered {delivered[-4:]} is not a prefix of target results {produced[-5:]} (exactly-once broken)"
        else:
            return f"unknown component {kind}"
    return None


def nontrivial(case: Case, out: list[str]) -> bool:
    kind = case.desc["component"]
    obs = [dict(x.split("=", 1) for x in ob.split()) for ob in out[1:]]
    ins = [_kv(op) for op in case.ops]
    if case.desc.get("val"):
        # something executes, and something is blocked although every involved target is ready (argument rejected)
        def allready(i):
            return all(ch == "1" for key in ("trdy", "r1", "r2") if key in i for ch in i[key]) and i.get("call", "0") != "-" and i.get("calls", "0") != "-"

        def idle(o):
            return all(v.replace("-", "").replace(",", "").replace("0", "") == "" for k2, v in o.items() if k2 in ("m", "m1", "c", "run"))

        return any(allready(i) and idle(o) for i, o in zip(ins, obs)) and any(not idle(o) for o in obs)
    if "cdecl" in case.desc:
        # contention: a competing caller and the transformer want the same ready target in one cycle
        def contended(i):
            want = i.get("call", "0") != "-"
            rd = i["trdy"]
            return want and any(a != "-" and rd[j] == "1" for j, a in enumerate(i["catt"].split(",")))

        return any(contended(i) for i in ins)
    if kind in ("map", "filter", "product"):
        # the method both executes and is blocked by a target in the same case
        return any(o["m"] != "-" for o in obs) and any(i["call"] != "-" and o["m"] == "-" for i, o in zip(ins, obs))
    if kind == "tryproduct":
        return any("-" in o["t"].split(",") and o["t"].replace("-", "").replace(",", "") != "" for o in obs) or case.desc["n"] == 1
    if kind == "nonex":
        return any(sum(x != "-" for x in o["c"].split(",")) >= min(2, case.desc["k"]) for o in obs)
    if kind == "connect":
        return any(o["m1"] != "-" for o in obs) and any(o["m1"] == "-" for o in obs)
    if kind == "crossbar":
        # some pair that could run is blocked by a conflicting pair, or two pairs run at once
        return any(o["run"].count("1") >= 2 for o in obs) or any(
            o["run"].count("1") == 1 and i["r1"].count("1") + i["r2"].count("1") >= 3 for i, o in zip(ins, obs)
        )
    if kind == "collector":
        fwd = any("1" in o["t"] and o["rd"] != "-" for o in obs)
        buf = any("1" not in o["t"] and o["rd"] != "-" for o in obs)
        return fwd and buf
    return True


# --------------------------------------------------------------------------- case generation


def _cfg(kind: str, d: dict) -> tuple[str, dict]:
    d = dict(d, component=kind)
    if kind in ("crossbar", "collector"):
        d["order"] = sched_order(kind, d)
    if "cdecl" in d:
        d["cf"] = "".join(map(str, _get(kind, d)[1][1]))
    toks = [f"comp={kind}"]
    for k, v in d.items():
        if k in ("component", "multibit", "cdecl", "via"):
            continue
        toks.append(f"{k}={','.join(map(str, v)) if isinstance(v, list) else v}")
    return "cfg " + " ".join(toks), d


_via_counter: dict[str, int] = {}


def _case(kind: str, d: dict, ops: list[str], tag: str) -> Case:
    if "via" not in d:
        # build every transformer alternately through its constructor and through its `create` factory
        # (filter: alternate separately per mode so that both modes see both ways in every run)
        ck = f"{kind}{d.get('uc', '')}"
        _via_counter[ck] = _via_counter.get(ck, 0) + 1
        d = dict(d, via="create" if _via_counter[ck] % 2 == 0 else "ctor")
    cfg, desc = _cfg(kind, d)
    return Case(cfg, ops, desc, tag)


def _rand_un(rng, w: int) -> str:
    name = rng.choice(["id", "add", "xor", "mul", "rot"])
    if name == "id":
        return "id"
    if name == "rot":
        return f"rot:{rng.randrange(max(1, w))}"
    return f"{name}:{rng.randrange(1 << w) if name != 'mul' else rng.choice([2, 3, 5])}"


def _rand_cond(rng, w: int, multibit: bool) -> str:
    name = rng.choice(["bit", "lt", "eq", "true", "false"] + (["and", "and"] if multibit else []))
    if name == "bit":
        return f"bit:{rng.randrange(w)}"
    if name in ("true", "false"):
        return name
    if name == "and":
        return f"and:{rng.randrange(2, 1 << w) if w > 1 else 1}"
    return f"{name}:{rng.randrange(1 << w)}"


def _u_ops(rng, w: int, n: int, exhaustive: bool) -> list[str]:
    ops = []
    if exhaustive:
        for c in ["-", *range(1 << w)]:
            for r in (0, 1):
                for t in range(1 << w):
                    ops.append(f"cyc call={c} trdy={r} tret={t}")
        return ops
    for _ in range(n):
        c = "-" if rng.random() < 0.15 else rng.randrange(1 << w)
        ops.append(f"cyc call={c} trdy={int(rng.random() < 0.6)} tret={rng.randrange(1 << w)}")
    return ops


def _patterns(n: int):
    return ["".join(p) for p in itertools.product("01", repeat=n)]


def _vals(rng, w: int, n: int) -> str:
    return ",".join(str(rng.randrange(1 << w)) for _ in range(n))


def gen_cases(ctx: Check, rng, thorough: bool) -> list[Case]:
    cases: list[Case] = []
    widths = [1, 2, 3, 8] if not thorough else [1, 2, 3, 4, 5, 7, 8, 16]
    nmax = 4 if not thorough else 5
    reps = 2 if not thorough else 6
    # --- MethodMap
    for w in widths:
        for r in range(reps if thorough else 1):
            d = {"w": w, "ifun": _rand_un(rng, w), "ofun": _rand_un(rng, w)}
            ex = w <= 3 and r == 0
            cases.append(_case("map", d, _u_ops(rng, w, 120, ex), "exhaustive" if ex else "random"))
    # --- MethodFilter, both modes, one-bit and multi-bit condition values
    for uc in (0, 1):
        for w in widths:
            for r in range(reps if thorough else 1):
                d = {"w": w, "cond": _rand_cond(rng, w, multibit=True), "def": rng.randrange(1 << w), "uc": uc}
                ex = w <= 3 and r == 0
                cases.append(_case("filter", d, _u_ops(rng, w, 120, ex), "exhaustive" if ex else "random"))
    # --- MethodProduct / MethodTryProduct: every readiness pattern of <= nmax targets
    for n in range(1, nmax + 1):
        for comb in (("first", "last", "add", "xor") if thorough else ["first", *rng.sample(["last", "add", "xor"], 1)]):
            w = rng.choice(widths)
            ops = []
            for p in _patterns(n):
                ops.append(f"cyc call=- trdy={p} tret={_vals(rng, w, n)}")
                for _ in range(2):
                    ops.append(f"cyc call={rng.randrange(1 << w)} trdy={p} tret={_vals(rng, w, n)}")
            cases.append(_case("product", {"w": w, "n": n, "comb": comb}, ops, "exhaustive"))
        for comb in (("none", "bits", "msum", "rsum", "both") if thorough else ["none", "rsum", rng.choice(["bits", "msum", "both"])]):
            w = rng.choice(widths)
            ops = []
            for p in _patterns(n):
                ops.append(f"cyc call=- trdy={p} tret={_vals(rng, w, n)}")
                for _ in range(2):
                    ops.append(f"cyc call={rng.randrange(1 << w)} trdy={p} tret={_vals(rng, w, n)}")
            cases.append(_case("tryproduct", {"w": w, "n": n, "comb": comb}, ops, "exhaustive"))
    # --- NonexclusiveWrapper: every pattern of attempting callers
    for k in range(1, nmax + 1):
        w = rng.choice([2, 3, 4, 8])
        ops = []
        for p in _patterns(k):
            for r in (0, 1):
                for same in (0, 1):
                    v = rng.randrange(1 << w)
                    cs = ",".join((str(v if same else rng.randrange(1 << w)) if b == "1" else "-") for b in p)
                    ops.append(f"cyc calls={cs} trdy={r} tret={rng.randrange(1 << w)}")
        cases.append(_case("nonex", {"w": w, "k": k}, ops, "exhaustive"))
    # --- ConnectTrans
    for wi, wo in [(1, 1), (3, 4), (8, 2)] + ([(0, 5), (5, 0), (16, 16)] if thorough else [(0, 4)]):
        ops = [
            f"cyc r1={a} r2={b} d1={rng.randrange(1 << wo)} d2={rng.randrange(1 << wi)}"
            for _ in range(3)
            for a in "01"
            for b in "01"
        ]
        cases.append(_case("connect", {"wi": wi, "wo": wo}, ops, "exhaustive"))
    # --- CrossbarConnectTrans: every readiness pattern of every shape with n1 + n2 <= nmax + 1
    for n1 in range(1, nmax + 1):
        for n2 in range(1, nmax + 2 - n1):
            wi, wo = rng.choice([2, 3, 4]), rng.choice([2, 3, 4])
            ops = []
            for p1 in _patterns(n1):
                for p2 in _patterns(n2):
                    ops.append(f"cyc r1={p1} r2={p2} d1={_vals(rng, wo, n1)} d2={_vals(rng, wi, n2)}")
            cases.append(_case("crossbar", {"n1": n1, "n2": n2, "wi": wi, "wo": wo}, ops, "exhaustive"))
    # --- Collector: histories
    for n in range(1, nmax + 1):
        w = rng.choice([2, 4, 8])
        # directed: every readiness pattern with the buffer empty and with the buffer full, with and without read
        ops = []
        for p in _patterns(n):
            for rd in (0, 1):
                ops.append(f"cyc trdy={'0' * n} tret={_vals(rng, w, n)} rd=1")  # drain
                ops.append(f"cyc trdy={p} tret={_vals(rng, w, n)} rd={rd}")  # pattern on empty buffer
                ops.append(f"cyc trdy={p} tret={_vals(rng, w, n)} rd={rd}")  # pattern on (possibly) full buffer
        cases.append(_case("collector", {"n": n, "w": w}, ops, "directed"))
        for pt, pr in [(0.6, 0.6), (0.2, 0.9), (0.5, 0.5), (0.9, 0.2), (1.0, 1.0)][: (1 if not thorough else 5)]:
            ops = [
                f"cyc trdy={''.join(str(int(rng.random() < pt)) for _ in range(n))} tret={_vals(rng, w, n)} "
                f"rd={int(rng.random() < pr)}"
                for _ in range(150 if not thorough else 600)
            ]
            cases.append(_case("collector", {"n": n, "w": w}, ops, "random"))
    return cases


def _catts(rng, n: int, w: int, pattern: str) -> str:
    return ",".join(str(rng.randrange(1 << w)) if b == "1" else "-" for b in pattern)


def gen_comp_cases(rng, thorough: bool) -> list[Case]:
    """Every transformer once more with a competing caller (an extra AdapterTrans) on each target, declared before
    and after the transformer so that it wins the arbitration in one of the two circuits: all readiness patterns x
    all patterns of attempting competitors."""
    cases: list[Case] = []
    nmax = 3 if not thorough else 4
    for decl in ("first", "after"):
        for n in range(1, nmax + 1):
            w = rng.choice([2, 3, 4])
            for kind, comb in (("tryproduct", rng.choice(["bits", "both"])), ("tryproduct", "msum"),
                               ("product", rng.choice(["first", "add", "xor"])))[:: (1 if thorough or n == 2 else 2)]:
                ops = []
                for p in _patterns(n):
                    for q in _patterns(n):
                        ops.append(f"cyc call={rng.randrange(1 << w)} trdy={p} tret={_vals(rng, w, n)} catt={_catts(rng, n, w, q)}")
                        if rng.random() < 0.25:
                            ops.append(f"cyc call=- trdy={p} tret={_vals(rng, w, n)} catt={_catts(rng, n, w, q)}")
                cases.append(_case(kind, {"w": w, "n": n, "comb": comb, "cdecl": decl}, ops, "exhaustive"))
            # collector: every readiness x competitor pattern, buffer empty and full, then a random history
            ops = []
            for p in _patterns(n):
                for q in _patterns(n):
                    for rd in (0, 1):
                        ops.append(f"cyc trdy={'0' * n} tret={_vals(rng, w, n)} rd=1 catt={_catts(rng, n, w, '0' * n)}")
                        ops.append(f"cyc trdy={p} tret={_vals(rng, w, n)} rd={rd} catt={_catts(rng, n, w, q)}")
                        ops.append(f"cyc trdy={p} tret={_vals(rng, w, n)} rd={rd} catt={_catts(rng, n, w, q)}")
            for _ in range(30 if not thorough else 300):
                ops.append(
                    f"cyc trdy={rng.choice(_patterns(n))} tret={_vals(rng, w, n)} rd={int(rng.random() < 0.6)} "
                    f"catt={_catts(rng, n, w, rng.choice(_patterns(n)))}"
                )
            cases.append(_case("collector", {"n": n, "w": w, "cdecl": decl}, ops, "exhaustive"))
        for uc in (0, 1):
            for _ in range(1 if not thorough else 4):
                w = rng.choice([2, 3])
                d = {"w": w, "cond": _rand_cond(rng, w, multibit=True), "def": rng.randrange(1 << w), "uc": uc, "cdecl": decl}
                ops = [
                    f"cyc call={c} trdy={r} tret={rng.randrange(1 << w)} catt={_catts(rng, 1, w, q)}"
                    for c in ["-", *range(1 << w)] for r in (0, 1) for q in "01"
                ]
                cases.append(_case("filter", d, ops, "exhaustive"))
    return cases


def gen_valid_cases(rng, thorough: bool) -> list[Case]:
    """Targets with `validate_arguments` (argument != k, mostly k = 0): a target is callable iff ready and it
    accepts the argument it would receive.  Built through the constructor and through `create`."""
    cases: list[Case] = []
    for via in ("ctor", "create"):
        k = 0 if via == "ctor" or rng.random() < 0.5 else rng.randrange(1, 4)
        V = {"val": f"ne:{k}", "via": via}
        w = 2
        vals = range(1 << w)
        cases.append(_case("connect", {"wi": w, "wo": w, **V}, [
            f"cyc r1={a} r2={b} d1={x} d2={y}" for a in "01" for b in "01" for x in vals for y in vals], "exhaustive"))
        for n1, n2 in ([(1, 2), (2, 2)] if not thorough else [(1, 1), (1, 2), (2, 1), (2, 2), (2, 3), (3, 2)]):
            ops = []
            for p1 in _patterns(n1):
                for p2 in _patterns(n2):
                    for _ in range(3):
                        ops.append(f"cyc r1={p1} r2={p2} d1={_vals(rng, w, n1)} d2={_vals(rng, w, n2)}")
            cases.append(_case("crossbar", {"n1": n1, "n2": n2, "wi": w, "wo": w, **V}, ops, "exhaustive"))
        cases.append(_case("map", {"w": w, "ifun": _rand_un(rng, w), "ofun": _rand_un(rng, w), **V}, _u_ops(rng, w, 0, True), "exhaustive"))
        for uc in (0, 1):
            d = {"w": w, "cond": _rand_cond(rng, w, multibit=True), "def": rng.randrange(1 << w), "uc": uc, **V}
            cases.append(_case("filter", d, _u_ops(rng, w, 0, True), "exhaustive"))
        for kind, comb in (("product", "add"), ("tryproduct", "both")):
            n = rng.choice([2, 3])
            ops = [f"cyc call={c} trdy={p} tret={_vals(rng, w, n)}" for c in ["-", *vals] for p in _patterns(n)]
            cases.append(_case(kind, {"w": w, "n": n, "comb": comb, **V}, ops, "exhaustive"))
        ops = [f"cyc calls={c} trdy={r} tret={rng.randrange(1 << w)}" for c in ["-", *vals] for r in (0, 1)]
        cases.append(_case("nonex", {"w": w, "k": 1, **V}, ops, "exhaustive"))
    return cases


def gen_regression_cases(rng) -> list[Case]:
    """MethodFilter(use_condition=True) with a condition value wider than one bit: the region of the repaired
    defect F-b6-1 (the condition used to be truncated to its LSB); ordinary monitored cases now."""
    cases = []
    for w in (2, 3, 4):
        d = {"w": w, "cond": f"and:{rng.randrange(1, 1 << (w - 1)) * 2}", "def": rng.randrange(1 << w), "uc": 1}
        cases.append(_case("filter", d, _u_ops(rng, w, 80, w <= 3), "directed"))
    return cases


def more_cases(case: Case, rng):
    """Failing-input search around a diverging case: the same configuration with fresh stimulus."""
    d = {k: v for k, v in case.desc.items() if k not in ("component", "order", "multibit", "cf")}
    kind = case.desc["component"]
    for _ in range(20):
        n = d.get("n", d.get("k", 1))
        w = d.get("w", 4)
        if kind in ("map", "filter"):
            ops = _u_ops(rng, w, 200, False)
        elif kind in ("product", "tryproduct"):
            ops = [
                f"cyc call={'-' if rng.random() < 0.1 else rng.randrange(1 << w)} trdy={rng.choice(_patterns(n))} "
                f"tret={_vals(rng, w, n)}"
                for _ in range(150)
            ]
        elif kind == "nonex":
            ops = [
                "cyc calls=" + ",".join("-" if rng.random() < 0.4 else str(rng.randrange(1 << w)) for _ in range(n))
                + f" trdy={int(rng.random() < 0.7)} tret={rng.randrange(1 << w)}"
                for _ in range(150)
            ]
        elif kind == "connect":
            ops = [
                f"cyc r1={rng.randrange(2)} r2={rng.randrange(2)} d1={rng.randrange(1 << d['wo'])} "
                f"d2={rng.randrange(1 << d['wi'])}"
                for _ in range(60)
            ]
        elif kind == "crossbar":
            ops = [
                f"cyc r1={rng.choice(_patterns(d['n1']))} r2={rng.choice(_patterns(d['n2']))} "
                f"d1={_vals(rng, d['wo'], d['n1'])} d2={_vals(rng, d['wi'], d['n2'])}"
                for _ in range(150)
            ]
        else:
            ops = [
                f"cyc trdy={rng.choice(_patterns(n))} tret={_vals(rng, w, n)} rd={int(rng.random() < 0.6)}"
                for _ in range(200)
            ]
        if "cdecl" in d:
            nt = 1 if kind == "filter" else n
            ops = [o + f" catt={_catts(rng, nt, w, rng.choice(_patterns(nt)))}" for o in ops]
        yield _case(kind, d, ops, "search")


def run(ctx: Check):
    ctx.rule = (
        "case = (component, configuration incl. concrete map/condition/combiner function, list of cycles = readiness "
        "and result of every target + attempted calls); every readiness pattern of <= 4 targets is enumerated; "
        "non-trivial = the case shows the method both executing and being blocked (map/filter/product/connect), a "
        "partial success (try-product), >= 2 simultaneous callers (nonexclusive wrapper), a ready pair blocked by a "
        "conflicting running pair or two pairs running (crossbar), both forwarding and buffering (collector); "
        "cases with competing callers of the targets (declared before and after the transformer): non-trivial = a "
        "competitor and the transformer want the same ready target in one cycle; cases with validate_arguments on "
        "the targets: non-trivial = something is blocked with all targets ready (argument rejected) and something runs; "
        "every transformer is built alternately through its constructor and its `create` factory"
    )
    ctx.proof_stage()
    ctx.replay_findings(replay_witness)
    rng = ctx.rng("gen")
    cases = (
        gen_cases(ctx, rng, ctx.thorough) + gen_regression_cases(ctx.rng("mb")) + gen_comp_cases(ctx.rng("comp"), ctx.thorough)
        + gen_valid_cases(ctx.rng("valid"), ctx.thorough)
    )
    for c in cases:
        ctx.count(f"component_{c.desc['component']}" + ("_with_competitors" if "cdecl" in c.desc else "")
                  + ("_validating_targets" if c.desc.get("val") else ""))
        ctx.count(f"built_via_{c.desc.get('via', 'ctor')}")
    procs = 1 if ctx.quick else 8
    lockstep(ctx, "transformers", "C18", cases, impl, monitor, more_cases, nontrivial, procs=procs)
    ctx.exhaustive = False


def desc_of_cfg(cfg: str) -> dict:
    """Descriptor of a configuration line (for witnesses / replays that carry only `cfg` and `ops`)."""
    d: dict = {}
    for k, v in _kv(cfg).items():
        if k == "comp":
            d["component"] = v
        elif k == "order":
            d[k] = _ilist(v)
        else:
            d[k] = int(v) if v.lstrip("-").isdigit() else v
    return d


def replay_witness(w: dict) -> Optional[str]:
    """Replay the witness of a (proposed/known) finding on the implementation; returns the failure or None."""
    case = Case(w["cfg"], list(w["ops"]), w.get("desc") or desc_of_cfg(w["cfg"]), "witness")
    return monitor(case, impl(case))


def replay(ctx: Check, body: dict):
    from ..lockstep import replay_case

    if "cfg" in body and not body.get("desc"):
        body = dict(body, desc=desc_of_cfg(body["cfg"]))
    return replay_case(body, impl, monitor)
