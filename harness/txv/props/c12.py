"""C12 - condition() picks one admissible branch (transactron/lib/simultaneous.py, transactron/core/manager.py `_simultaneous`)."""

from __future__ import annotations

import random
from typing import Optional

from ..common import Check

META = {
    "id": "C12",
    "design_ref": "DESIGN.md §6 C12 (model: §6.1 incl. 'Derived inputs', correspondence: §6.2)",
    "technique": "Lean 4 theorems on the post-merge flat design (TxV/Proofs/Simultaneous.lean, from the core theorems "
    "C01/C03/C04/C07/C08 of TxV/Core) under a decidable shape predicate; an executable Lean model of condition() and of "
    "TransactionManager._simultaneous (TxV/Model/Simultaneous.lean) whose output is compared with the real post-merge "
    "design, and whose scheduler equations with derived enables are compared with the real circuit in pysim",
    "level_text": "c12_branch_needs, c12_one, c12_default, c12_parent, c12_priority_partial are proved for every post-merge "
    "design satisfying the shape predicate, every valuation and every run assignment satisfying the scheduler equations; "
    "simultaneous_shape_basic proves the shape for the family 'one parent transaction, n branches' for every n from the "
    "executable model of _simultaneous; for nested / in-method / multi-caller uses the shape is checked by the driver on "
    "every generated design (on the model's merge result, which is compared with the real one)",
    "level_note": "trusted: Lean kernel; Amaranth If semantics and pysim; the harness glue (spec interpreter, extraction "
    "from Body objects, canonical numbering of merged transactions). Monitor: the five sentences of the property on the "
    "real run bits, admissibility computed from the inputs only. Excluded region (proposed finding): condition() inside a "
    "nonexclusive method with >= 2 callers runs two branches in one cycle.",
}


# ------------------------------------------------------------------------------------ static tables (spec only)
class Tables:
    def __init__(self, spec: dict):
        self.spec = spec
        self.ready_in: dict[str, Optional[int]] = {}
        self.direct: dict[str, list] = {}  # body name -> direct callee names
        self.uses: dict[int, dict] = {}
        self.conds_in: dict[str, list] = {}  # body name -> uses placed directly in it
        for lf in spec.get("leaves", []):
            self.ready_in[lf["name"]] = lf.get("ready")
        for it in spec["items"]:
            self._body(it["name"], it.get("ready"), it["block"])
        # top-level transactions whose (transitive) callees are called by no other top-level body
        self.alone = set()
        tops = {it["name"]: it for it in spec["items"]}
        reach = {}
        for nm in tops:
            r = set()
            stack = [nm]
            seen = set()
            while stack:
                x = stack.pop()
                if x in seen:
                    continue
                seen.add(x)
                for m in self.direct.get(x, []):
                    r.add(m)
                    stack.append(m)
                for u in self.conds_in.get(x, []):
                    stack.extend(self.uses[u]["names"])
            reach[nm] = r
        for nm, it in tops.items():
            if it["k"] == "trans" and all(not (reach[nm] & reach[o]) and nm not in reach[o] for o in tops if o != nm):
                self.alone.add(nm)

    def _body(self, name, ready, block):
        self.ready_in[name] = ready
        self.direct.setdefault(name, [])
        self.conds_in.setdefault(name, [])
        for s in block:
            if s["k"] == "call":
                self.direct[name].append(s["m"])
            elif s["k"] == "trans":
                self._body(s["name"], s.get("ready"), s["block"])
            elif s["k"] in ("if", "switch", "fsm"):  # calls inside control structures are part of the static call tree
                from ..core.simulgen import calls_of

                self.direct[name] += [c["m"] for c in calls_of([s])]
            elif s["k"] == "cond":
                u = s["_use"]
                conds = [br["c"] for br in s["branches"]]
                explicit_default = bool(conds) and conds[-1] is None
                names = [f"u{u}b{k}" for k in range(len(conds))]
                implicit = bool(s["nb"]) and not explicit_default
                if implicit:
                    names.append(f"u{u}b{len(conds)}")
                self.uses[u] = {"u": u, "parent": name, "names": names, "conds": conds + ([None] if implicit else []),
                                "nb": s["nb"], "prio": s["prio"], "explicit_default": explicit_default, "implicit": implicit}
                self.conds_in[name].append(u)
                for k, br in enumerate(s["branches"]):
                    self._body(names[k], None, br["block"])
                if implicit:
                    self._body(names[-1], None, [])

    def callees(self, name: str) -> set:
        seen: set = set()

        def rec(n):
            for m in self.direct.get(n, []):
                if m not in seen:
                    seen.add(m)
                    rec(m)

        rec(name)
        return seen


def _ready(T: Tables, bits, name: str) -> int:
    k = T.ready_in.get(name)
    return 1 if k is None else bits[k]


def _cond(use: dict, bits, k: int) -> int:
    c = use["conds"][k]
    if c is not None:
        return bits[c]
    return int(not any(bits[x] for x in use["conds"] if x is not None))  # the catch-all: no other condition holds


def _callees_ready(T: Tables, bits, name: str) -> bool:
    return all(_ready(T, bits, m) for m in T.callees(name))


def _local_admissible(T: Tables, bits, use: dict, k: int) -> bool:
    """condition holds, all methods the branch calls are ready, every condition nested directly in the branch has a
    (locally) admissible branch - computed from the inputs only"""
    nm = use["names"][k]
    if not _cond(use, bits, k) or not _callees_ready(T, bits, nm):
        return False
    return _conds_ok(T, bits, nm)


def _conds_reachable(T: Tables, name: str, skip=None) -> list:
    """the condition() uses written in `name` or in a method of its static call tree (their branch transactions are
    merged into every transaction that executes `name`)"""
    out = [u for u in T.conds_in.get(name, []) if u != skip]
    for m in sorted(T.callees(name)):
        out += T.conds_in.get(m, [])
    return out


def _conds_ok(T: Tables, bits, name: str, skip=None) -> bool:
    for u2 in _conds_reachable(T, name, skip):
        inner = T.uses[u2]
        if not any(_local_admissible(T, bits, inner, j) for j in range(len(inner["names"]))):
            return False
    return True


def _enabled(T: Tables, bits, name: str) -> bool:
    """the enclosing body could run as far as its own readiness and its own callees are concerned"""
    for use in T.uses.values():
        if name in use["names"]:
            k = use["names"].index(name)
            return bool(_cond(use, bits, k)) and _callees_ready(T, bits, name) and _enabled(T, bits, use["parent"])
    return bool(_ready(T, bits, name)) and _callees_ready(T, bits, name)


def monitor(b, vals, obs):
    """the five sentences of C12 on the observations of the REAL circuit; returns (message, valuation index) or None"""
    spec = b.spec
    if b.reject is not None:
        if spec.get("expect", "ok") == "ok":
            return (f"well-formed use of condition() rejected by the manager: {b.reject}: {b.reject_msg[:160]}", None)
        return None
    T = Tables(spec)
    ids = b.id_of
    for vi, ((bits, _dv), o) in enumerate(zip(vals, obs)):
        run = lambda nm: (o.run[ids[nm]] if nm in ids else 0)  # noqa: E731  (a body that does not exist never runs)
        for use in T.uses.values():
            P = use["parent"]
            names = use["names"]
            running = [k for k, nm in enumerate(names) if run(nm)]
            # 1. a branch runs only if the enclosing body runs, its condition holds, all methods it calls are ready
            for k in running:
                if not run(P):
                    return (f"branch {k} of condition u{use['u']} in {P} runs but {P} does not run (inputs {_b(bits)})", vi)
                if not _cond(use, bits, k):
                    return (f"branch {k} of condition u{use['u']} in {P} runs although its condition is false (inputs {_b(bits)})", vi)
                bad = [m for m in T.callees(names[k]) if not _ready(T, bits, m)]
                if bad:
                    return (f"branch {k} of condition u{use['u']} in {P} runs although callee {bad[0]} is not ready (inputs {_b(bits)})", vi)
            # 2. at most one branch per cycle
            if len(running) > 1:
                return (f"branches {running} of condition u{use['u']} in {P} run in the same cycle (inputs {_b(bits)})", vi)
            # 3. the default branch runs only when no other condition holds
            if use["conds"] and use["conds"][-1] is None and run(names[-1]):
                if any(bits[c] for c in use["conds"] if c is not None):
                    return (f"default branch of condition u{use['u']} in {P} runs although another condition holds (inputs {_b(bits)})", vi)
            # 4. the enclosing body runs only together with a branch unless nonblocking and no condition holds
            if run(P):
                user_running = [k for k in running if not (use["implicit"] and k == len(names) - 1)]
                if not user_running:
                    none_holds = not any(bits[c] for c in use["conds"] if c is not None)
                    if not (use["nb"] and none_holds):
                        return (f"{P} runs without any branch of its condition u{use['u']} (nonblocking={use['nb']}, inputs {_b(bits)})", vi)
            # 4b. "nonblocking: the condition should not block the containing method or transaction from running, even
            #     when none of the branch conditions is true" (docstring of condition()).  Checked where it can be decided
            #     from the inputs alone: the parent is a top-level transaction whose callees nobody else calls.
            if use["nb"] and P in T.alone and not run(P):
                none_holds = not any(bits[c] for c in use["conds"] if c is not None)
                others_ok = _conds_ok(T, bits, P, skip=use["u"])
                default_ok = use["implicit"] or _local_admissible(T, bits, use, len(names) - 1)
                if none_holds and default_ok and _ready(T, bits, P) and _callees_ready(T, bits, P) and others_ok:
                    return (f"nonblocking condition u{use['u']} blocks {P}: no condition holds, {P} and its callees are ready, "
                            f"but {P} does not run (inputs {_b(bits)})", vi)
            # 5. priority: a branch runs only if no earlier branch was admissible
            if use["prio"]:
                for k in running:
                    for j in range(k):
                        if _enabled(T, bits, P) and _local_admissible(T, bits, use, j):
                            return (f"priority condition u{use['u']} in {P}: branch {k} runs although the earlier branch {j} is admissible (inputs {_b(bits)})", vi)
    return None


def _b(bits) -> str:
    return "".join(str(x) for x in bits)


# ------------------------------------------------------------------------------------ generators
KINDS = ["basic", "chain", "deep", "guardcall", "three", "method1", "methodN", "nested", "two", "chain", "basic", "deep", "guardcall",
         "methodN", "nested", "free", "chain"]


def _has_two_prio(spec: dict) -> bool:
    """>= 2 priority conditions whose branches can end up in one merged transaction: rejected by the real
    manager (cyclic priority graph) - see the report"""

    def count(block) -> int:
        n = 0
        for s in block:
            if s["k"] == "cond":
                n += int(bool(s["prio"])) if len(s["branches"]) + int(bool(s["nb"])) > 1 else 0
                for br in s["branches"]:
                    n += count(br["block"])
        return n

    top = {it["name"]: it for it in spec["items"]}

    def reach(nm, seen):
        for m in _all_calls(top[nm]["block"]):
            if m in top and m not in seen:
                seen.add(m)
                reach(m, seen)
        return seen

    return any(sum(count(top[m]["block"]) for m in reach(it["name"], {it["name"]})) >= 2 for it in spec["items"])


def _all_calls(block) -> list:
    out = []
    for s in block:
        if s["k"] == "call":
            out.append(s["m"])
        elif s["k"] == "cond":
            for br in s["branches"]:
                out += _all_calls(br["block"])
        elif s["k"] == "trans":
            out += _all_calls(s["block"])
        elif s["k"] in ("if", "switch", "fsm"):
            for a in s.get("alts", []) + s.get("cases", []) + s.get("states", []):
                out += _all_calls(a["items"])
    return out


def descriptor(spec: dict) -> dict:
    """canonical descriptor of a case: the regions of the proposed findings (generators stay outside them)"""
    callers: dict[str, list] = {}
    direct: dict[str, set] = {}

    def walk(owner, block):
        for s in block:
            if s["k"] == "call":
                callers.setdefault(s["m"], []).append(s.get("en"))
                direct.setdefault(owner, set()).add(s["m"])
            elif s["k"] == "cond":
                for k, br in enumerate(s["branches"]):
                    walk((owner, id(s), k), br["block"])
            elif s["k"] == "trans":
                walk(s["name"], s["block"])
            elif s["k"] in ("if", "switch", "fsm"):  # a call inside a control structure is a conditional call
                for m in _all_calls([s]):
                    callers.setdefault(m, []).append("guard")
                    direct.setdefault(owner, set()).add(m)

    for it in spec["items"]:
        walk(it["name"], it["block"])

    def depth(block) -> int:
        d = 0
        for s in block:
            if s["k"] == "cond":
                d = max(d, 1 + max([depth(br["block"]) for br in s["branches"]] + [0]))
        return d

    def shared_levels(owner_calls: set, block) -> bool:
        """a callee of a body is called again in a branch nested at least two condition levels below it, or a callee
        of a branch is called again by a branch nested inside it"""
        for s in block:
            if s["k"] != "cond":
                continue
            for br in s["branches"]:
                mine = {x["m"] for x in br["block"] if x["k"] == "call"}
                for s2 in br["block"]:
                    if s2["k"] == "cond":
                        for br2 in s2["branches"]:
                            inner = {x["m"] for x in br2["block"] if x["k"] == "call"}
                            if inner & owner_calls:
                                return True
                if shared_levels(mine, br["block"]) or shared_levels(owner_calls, br["block"]):
                    return True
        return False

    # methods reached through at least one conditional link (directly or through their callers)
    cond_called = {m for m, ens in callers.items() if any(e is not None for e in ens)}
    top = {it["name"]: it for it in spec["items"]}
    changed = True
    while changed:
        changed = False
        for nm, it in top.items():
            if nm in cond_called:
                for m in _all_calls(it["block"]):
                    if m not in cond_called:
                        cond_called.add(m)
                        changed = True
    nx_multi = deep = shared = False
    for it in spec["items"]:
        has_cond = any(s["k"] == "cond" for s in it["block"])
        if it["k"] == "method" and it.get("nx") and len(callers.get(it["name"], [])) >= 2 and has_cond:
            nx_multi = True
        if it["k"] == "method" and depth(it["block"]) >= 3 and it["name"] in cond_called:
            deep = True
        if shared_levels({x["m"] for x in it["block"] if x["k"] == "call"}, it["block"]):
            shared = True
    return {"condition_in_nonexclusive_method_with_several_callers": nx_multi,
            "condition_nested_three_deep_in_conditionally_called_method": deep,
            "callee_shared_across_condition_levels": shared,
            "two_priority_conditions_in_one_body": _has_two_prio(spec)}


def est_groups(spec: dict) -> int:
    """number of merged transactions the manager will create (static estimate from the spec)"""
    callers: dict[str, int] = {}

    def block_groups(block) -> int:
        g = 1
        for s in block:
            if s["k"] == "cond":
                n = sum(block_groups(br["block"]) for br in s["branches"])
                if s["nb"] and (not s["branches"] or s["branches"][-1]["c"] is not None):
                    n += 1
                g *= max(n, 1)
            elif s["k"] == "call":
                callers[s["m"]] = callers.get(s["m"], 0) + 1
        return g

    total = 0
    per = {it["name"]: block_groups(it["block"]) for it in spec["items"]}
    top = {it["name"]: it for it in spec["items"]}

    def reaches(src, dst, seen=None) -> bool:
        seen = seen or set()
        for m in _all_calls(top[src]["block"]):
            if m == dst or (m in top and m not in seen and reaches(m, dst, seen | {m})):
                return True
        return False

    for it in spec["items"]:
        g = per[it["name"]]
        if g > 1 or any(s["k"] == "cond" for s in it["block"]):
            ntr = sum(1 for o in spec["items"] if o["k"] == "trans" and reaches(o["name"], it["name"]))
            total += g * (max(ntr, 1) if it["k"] == "method" else 1)
    return total


def gen(pid: str, index: int, seed: int, tier: str) -> dict:
    from ..core import simulgen as sg

    kind = KINDS[index % len(KINDS)]
    P = {}
    cap = 6 if tier == "quick" else 12
    if tier == "thorough" and index % 4 == 3:
        P = {"n_branches": [2, 3, 4, 5], "max_nest": 2}
        cap = 20
    if kind in ("three", "nested"):
        cap = max(cap, 8)
    for attempt in range(50):
        rng = random.Random(f"{pid}/{seed}/{index}/{attempt}")
        spec = sg.gen_c12(rng, kind, P)
        d = descriptor(spec)
        excluded = (d["condition_in_nonexclusive_method_with_several_callers"] or d["callee_shared_across_condition_levels"]
                    or d["condition_nested_three_deep_in_conditionally_called_method"])  # regions of proposed findings
        if est_groups(spec) <= cap and not excluded:
            break
    spec["expect"] = "any" if _has_two_prio(spec) else "ok"
    return spec


def _call(m, en=None):
    return {"k": "call", "m": m, "en": en, "arg": None}


def _mk(nin, leaves, items, tag, expect="ok"):
    return {"nin": nin, "dins": [], "leaves": [{"name": n, "ready": r} for n, r in leaves], "connects": [], "items": items,
            "simul": [], "tag": tag, "expect": expect}


def directed() -> list[dict]:
    out = []
    # the eight flag combinations of test/lib/test_simultaneous.py, three overlapping conditions, a shared callee
    for nb in (0, 1):
        for prio in (0, 1):
            for catch in (0, 1):
                brs = [{"c": k, "block": [_call("x0")]} for k in range(3)]
                if catch:
                    brs.append({"c": None, "block": [_call("x0")]})
                out.append(_mk(5, [("x0", 3)], [{"k": "trans", "name": "T0", "ready": 4, "block": [
                    {"k": "cond", "nb": nb, "prio": prio, "branches": brs}]}], "c12:directed-flags"))
    # condition in a method that is called conditionally (enable of the branch call is derived from the method's run)
    out.append(_mk(6, [("x0", 4), ("x1", 5)], [
        {"k": "method", "name": "M0", "ready": None, "nx": 0, "block": [
            {"k": "cond", "nb": 0, "prio": 1, "branches": [{"c": 0, "block": [_call("x0")]}, {"c": 1, "block": [_call("x1")]}]}]},
        {"k": "trans", "name": "T0", "ready": 2, "block": [_call("M0", en=3)]}], "c12:directed-condcall"))
    # the condition-hosting method is called unconditionally by a wrapper that is called conditionally (and one level more)
    host = {"k": "method", "name": "M0", "ready": None, "nx": 0, "block": [
        {"k": "cond", "nb": 0, "prio": 0, "branches": [{"c": 0, "block": [_call("x0")]}]}]}
    out.append(_mk(4, [("x0", None)], [
        host, {"k": "method", "name": "M1", "ready": None, "nx": 0, "block": [_call("M0")]},
        {"k": "trans", "name": "T0", "ready": 1, "block": [_call("M1", en=2)]}], "c12:directed-chain2"))
    out.append(_mk(5, [("x0", None)], [
        host, {"k": "method", "name": "M1", "ready": None, "nx": 0, "block": [_call("M0")]},
        {"k": "method", "name": "M2", "ready": None, "nx": 0, "block": [_call("M1", en=3)]},
        {"k": "trans", "name": "T0", "ready": 1, "block": [_call("M2", en=2)]}], "c12:directed-chain3"))
    # simultaneity groups of four bodies: three conditions in one body / three nesting levels in a transaction /
    # a condition in a method called from a branch of a nested condition
    def c2(a, b_, nb=0, prio=0, blk_a=None, blk_b=None):
        return {"k": "cond", "nb": nb, "prio": prio, "branches": [{"c": a, "block": blk_a or []}, {"c": b_, "block": blk_b or []}]}

    out.append(_mk(8, [("x0", 7), ("x1", None), ("x2", None)], [{"k": "trans", "name": "T0", "ready": 6, "block": [
        c2(0, 1, prio=1, blk_a=[_call("x0")]), c2(2, 3, nb=1, blk_b=[_call("x1")]), c2(4, 5, blk_a=[_call("x2")])]}],
        "c12:directed-three-conditions-in-one-body"))
    out.append(_mk(7, [("x0", 6), ("x1", None)], [{"k": "trans", "name": "T0", "ready": 5, "block": [
        c2(0, 1, blk_a=[c2(2, 3, prio=1, blk_a=[{"k": "cond", "nb": 0, "prio": 0, "branches": [
            {"c": 4, "block": [_call("x0")]}, {"c": None, "block": [_call("x1")]}]}])])]}],
        "c12:directed-nested-three-deep"))
    out.append(_mk(7, [("x0", None), ("x1", 6)], [
        {"k": "method", "name": "M0", "ready": None, "nx": 0, "block": [c2(3, 4, blk_a=[_call("x0")], blk_b=[_call("x1")])]},
        {"k": "trans", "name": "T0", "ready": 5, "block": [c2(0, 1, blk_a=[c2(2, 2, blk_a=[_call("M0")])])]}],
        "c12:directed-condition-below-nested-branch"))
    # T --enable_call--> outer{condition: branch -> mid}, mid -> leaf{condition: branch -> x0}
    out.append(_mk(5, [("x0", None)], [
        {"k": "method", "name": "M0", "ready": None, "nx": 0, "block": [
            {"k": "cond", "nb": 0, "prio": 0, "branches": [{"c": 1, "block": [_call("x0")]}]}]},
        {"k": "method", "name": "M1", "ready": None, "nx": 0, "block": [_call("M0")]},
        {"k": "method", "name": "M2", "ready": None, "nx": 0, "block": [
            {"k": "cond", "nb": 0, "prio": 0, "branches": [{"c": 0, "block": [_call("M1")]}]}]},
        {"k": "trans", "name": "T0", "ready": 2, "block": [_call("M2", en=3)]}], "c12:directed-deep"))
    # a method with condition() called from inside an FSM state (and a Switch case) written in a transaction body
    for form in ("fsm", "switch"):
        inner = ({"k": "fsm", "sel": [3], "states": [{"items": []}, {"items": [_call("M0")]}]} if form == "fsm" else
                 {"k": "switch", "sel": [3], "cases": [{"pat": 1, "items": [_call("M0")]}, {"pat": None, "items": []}]})
        out.append(_mk(4, [("x0", None), ("x1", None)], [
            {"k": "method", "name": "M0", "ready": None, "nx": 0, "block": [
                {"k": "cond", "nb": 0, "prio": 0, "branches": [{"c": 0, "block": [_call("x0")]}, {"c": 1, "block": [_call("x1")]}]}]},
            {"k": "trans", "name": "T0", "ready": 2, "block": [inner]}], f"c12:directed-call-in-{form}"))
    # uncalled method with a condition (its branches are dropped by the manager)
    out.append(_mk(3, [("x0", None)], [
        {"k": "method", "name": "M0", "ready": None, "nx": 0, "block": [
            {"k": "cond", "nb": 1, "prio": 0, "branches": [{"c": 0, "block": [_call("x0")]}]}]},
        {"k": "trans", "name": "T0", "ready": 1, "block": [_call("x0", en=2)]}], "c12:directed-uncalled"))
    # two priority conditions in one body: rejected (cyclic priorities)
    out.append(_mk(4, [], [{"k": "trans", "name": "T0", "ready": None, "block": [
        {"k": "cond", "nb": 0, "prio": 1, "branches": [{"c": 0, "block": []}, {"c": 1, "block": []}]},
        {"k": "cond", "nb": 0, "prio": 1, "branches": [{"c": 2, "block": []}, {"c": 3, "block": []}]}]}],
        "c12:directed-two-prio", expect="any"))
    # a callee shared between the parent and a branch: double call through the merged transaction (rejected)
    out.append(_mk(2, [("x0", None)], [{"k": "trans", "name": "T0", "ready": None, "block": [
        _call("x0"), {"k": "cond", "nb": 0, "prio": 0, "branches": [{"c": 0, "block": [_call("x0")]}, {"c": 1, "block": []}]}]}],
        "c12:directed-doublecall", expect="any"))
    return out


def _cond1(c, block):
    return {"k": "cond", "nb": 0, "prio": 0, "branches": [{"c": c, "block": block}]}


def witness_specs(kind: str) -> list[dict]:
    if kind == "deep_nesting_in_conditionally_called_method":
        return [_mk(5, [], [
            {"k": "method", "name": "M0", "ready": None, "nx": 0, "block": [_cond1(0, [_cond1(1, [_cond1(2, [])])])]},
            {"k": "trans", "name": "T0", "ready": 3, "block": [_call("M0", en=4)]}], "c12:witness-deep")]
    if kind == "callee_shared_across_condition_levels":
        return [_mk(5, [("x0", None)], [{"k": "trans", "name": "T0", "ready": 4, "block": [
            _call("x0"),
            {"k": "cond", "nb": 0, "prio": 0, "branches": [
                {"c": 0, "block": [{"k": "cond", "nb": 0, "prio": 0, "branches": [
                    {"c": 2, "block": [_call("x0")]}, {"c": 3, "block": []}]}]},
                {"c": 1, "block": []}]}]}], "c12:witness-shared")]
    if kind == "two_priority_conditions_in_one_body":
        return [dict(_mk(4, [], [{"k": "trans", "name": "T0", "ready": None, "block": [
            {"k": "cond", "nb": 0, "prio": 1, "branches": [{"c": 0, "block": []}, {"c": 1, "block": []}]},
            {"k": "cond", "nb": 0, "prio": 1, "branches": [{"c": 2, "block": []}, {"c": 3, "block": []}]}]}],
            "c12:witness-two-prio"), expect="ok")]
    if kind == "condition_in_nonexclusive_multicaller":
        return [_mk(4, [("x0", None), ("x1", None)], [
            {"k": "method", "name": "M0", "ready": None, "nx": 1, "block": [
                {"k": "cond", "nb": 0, "prio": 0, "branches": [{"c": 0, "block": [_call("x0")]}, {"c": 1, "block": [_call("x1")]}]}]},
            {"k": "trans", "name": "T0", "ready": 2, "block": [_call("M0")]},
            {"k": "trans", "name": "T1", "ready": 3, "block": [_call("M0")]}], "c12:witness-nx")]
    raise KeyError(kind)


def nontrivial(r: dict) -> bool:
    """some valuation in which a merged transaction ran while another transaction ran too or an enable was derived"""
    s = r.get("stats") or {}
    return bool(r["reject"] is None and s.get("merged_ran") and s.get("groups", 0) >= 2)


def run(ctx: Check):
    from ..core.simulcheck import run_simul

    ctx.rule = ("cases = (circuit using condition(), input valuation); non-trivial = circuits with >= 2 merged transactions "
                "of which one ran in some valuation (blocking/nonblocking, priority, default, overlapping, nested, in methods "
                "with one or several callers, shared callees)")
    run_simul(ctx, "C12", gen, monitor, directed(), witness_specs, nontrivial, n_quick=40, n_thorough=1600,
              descriptor=descriptor)


def replay(ctx: Check, body: dict):
    from ..core.simulcheck import replay_simul

    return replay_simul(ctx, "C12", body, monitor)
