"""C17 — Forwarder and Pipe are lossless one-slot buffers (transactron/lib/connectors.py:90-163, 166-232)."""

from __future__ import annotations

from ..bufcases import (REGIMES, exhaustive_ops, fields, fmt, load_corpus, make_multi, mfmt, multi_nontrivial, multi_obs,
                        multi_sim_op, optv, parse, probe_orders, random_multi_ops, random_ops, reduce_multi)
from ..common import Check
from ..lockstep import Case, lockstep, replay_case
from ..simrun import CompSim, fmt_opt

META = {
    "id": "C17",
    "design_ref": "DESIGN.md §7 C17",
    "technique": "Lean 4: two-register step models of Forwarder (write evaluated before read/peek) and Pipe (read/peek before "
    "write) transcribed from the source incl. the order of the sync assignments; history invariant delivered ++ buffer = "
    "written (since the last clear) by induction over arbitrary histories, readiness/clear/peek sentences by case analysis "
    "of one step; lock-step correspondence of both models with the real components in pysim",
    "level_text": "c17_fwd_order/c17_pipe_order, c17_fwd_read_value/c17_pipe_read_value, c17_fwd_ready, c17_pipe_ready, "
    "c17_fwd_clear/c17_pipe_clear, c17_fwd_peek/c17_pipe_peek hold for every history of simultaneous "
    "write/read/peek/clear attempts and every data value; the models are tied to the code by cycle-exact comparison of done "
    "bits, returned data and the three ready signals over all histories up to length 2 from the empty and the full state "
    "(thorough: also length 3 from the empty state), directed sequences and random regimes at several data widths"
    " Multi-caller scenarios: a wrapper owning the real component with two AdapterTrans on each of write/read/peek; per cycle each caller attempts independently, the model grants exclusive methods to the first attempting caller in the priority order probed from the real scheduler (c17_callers theorem: at most one caller executes and it sees the single-port outcome), the monitor accepts either winner and checks at-most-one executing caller per exclusive method and exactly-once in-order delivery over the union of all callers.",
    "level_note": "trusted: Lean kernel with axioms propext/Quot.sound(/Classical.choice); Amaranth semantics and pysim; data "
    "layouts flattened to one number; that the manager honours schedule_before (write before read in Forwarder, read before "
    "write in Pipe) is C03/C10's subject and is exercised here through the real TransactionManager.",
}

_sims: dict[tuple, CompSim] = {}


def _layout(widths):
    return [(f"f{i}", w) for i, w in enumerate(widths)]


def _sim(cls: str, widths: tuple, callers: int = 0) -> CompSim:
    key = (cls, widths, callers)
    if key not in _sims:
        from transactron.lib.connectors import Forwarder, Pipe

        k = Forwarder if cls == "fwd" else Pipe
        if callers:
            _sims[key] = CompSim(lambda: make_multi(k(_layout(widths)), callers))
        else:
            _sims[key] = CompSim(lambda: k(_layout(widths)))
    return _sims[key]


def impl(case: Case) -> list[str]:
    try:
        return _impl(case)
    except Exception as e:  # noqa: BLE001 - an exception of the real code is an observation
        return [f"raise {type(e).__name__}"] + ["-"] * len(case.ops)


def _impl(case: Case) -> list[str]:
    d = case.desc
    callers = d.get("callers", 0)
    sim = _sim(d["cls"], tuple(d["layout"]), callers)
    out = ["ok"]
    if callers:
        tr = sim.run([multi_sim_op(line, True) for line in case.ops],
                     extra=lambda dut: [dut.inner.read.ready, dut.inner.peek.ready, dut.inner.write.ready])
        for r in tr:
            e = r["_extra"]
            out.append(f"{multi_obs(r, callers, True)} rdy={e[0]}{e[1]}{e[2]}")
        return out
    cycs = [parse(line) for line in case.ops]
    ops = [{"write": w, "read": 0 if r else None, "peek": 0 if p else None, "clear": 0 if c else None} for w, r, p, c in cycs]
    tr = sim.run(ops, extra=lambda dut: [dut.read.ready, dut.peek.ready, dut.write.ready])
    for r in tr:
        e = r["_extra"]
        out.append(
            f"w={0 if r[('write',)] is None else 1} r={fmt_opt(r[('read',)])} p={fmt_opt(r[('peek',)])} "
            f"c={0 if r[('clear',)] is None else 1} rdy={e[0]}{e[1]}{e[2]}"
        )
    return out


def monitor(case: Case, out: list[str]):
    """Property sentences on the implementation's observations.  `buf` is the reference one-slot buffer,
    `written`/`delivered` the values of executed writes/reads since the last clear."""
    fwd = case.desc["cls"] == "fwd"
    name = "Forwarder" if fwd else "Pipe"
    if case.desc.get("callers"):
        # several transactions call the same method: exclusivity first, then the property on the union of all callers
        fail, case, out = reduce_multi(case, out)
        if fail:
            return f"{name}: {fail}"
    if out[0] != "ok":
        return f"the component does not elaborate/simulate: {out[0]}"
    buf = None
    written: list[int] = []
    delivered: list[int] = []
    for k, (line, obs) in enumerate(zip(case.ops, out[1:])):
        w, r, p, c = parse(line)
        f = fields(obs)
        wdone, rret, pret, cdone = f["w"] == "1", optv(f["r"]), optv(f["p"]), f["c"] == "1"
        rr, pr, wr = (x == "1" for x in f["rdy"])
        full = buf is not None
        if fwd:
            exp_wr = not full
            exp_w = w is not None and exp_wr
            exp_rr = full or exp_w  # buffer full, or write runs in the same cycle
            exp_val = buf if full else w  # ... then returning the written value
        else:
            exp_rr = full
            exp_val = buf
            exp_r = bool(r) and exp_rr
            exp_wr = (not full) or exp_r  # buffer empty, or read runs in the same cycle
            exp_w = w is not None and exp_wr
        if wr != exp_wr:
            return f"cycle {k}: {name}.write.ready={int(wr)} with buffer {'full' if full else 'empty'}, read executed={rret is not None}"
        if wdone != exp_w:
            return f"cycle {k}: {name}.write attempted={w is not None} executed={wdone} with buffer {'full' if full else 'empty'}"
        if rr != exp_rr or pr != exp_rr:
            return f"cycle {k}: {name}.read.ready,peek.ready={int(rr)}{int(pr)} with buffer {'full' if full else 'empty'}, write executed={wdone}"
        if (rret is not None) != (bool(r) and exp_rr):
            return f"cycle {k}: {name}.read attempted={r} executed={rret is not None}, expected ready={exp_rr}"
        if (pret is not None) != (bool(p) and exp_rr):
            return f"cycle {k}: {name}.peek attempted={p} executed={pret is not None}, expected ready={exp_rr}"
        if cdone != bool(c):
            return f"cycle {k}: {name}.clear attempted={c} executed={cdone}"
        if rret is not None and rret != exp_val:
            return f"cycle {k}: {name}.read returned {rret}, expected {exp_val}"
        if pret is not None and pret != exp_val:
            return f"cycle {k}: {name}.peek returned {pret}, expected {exp_val}"
        # exactly once and in order: the n-th read since the last clear returns the n-th write since it
        if fwd and wdone:
            written.append(w)
        if rret is not None:
            if len(delivered) >= len(written) or written[len(delivered)] != rret:
                return f"cycle {k}: {name}.read delivered {rret} as element {len(delivered)} but the values written are {written}"
            delivered.append(rret)
        if not fwd and wdone:
            written.append(w)
        # buffer update: peek never consumes; clear wins over everything
        if fwd:
            if rret is not None:
                buf = None
            elif wdone:
                buf = w
        else:
            if rret is not None:
                buf = None
            if wdone:
                buf = w
        if cdone:
            buf = None
            written, delivered = [], []
        if len(delivered) + (buf is not None) != len(written):
            return f"cycle {k}: {name} lost or duplicated a value: written {written}, delivered {delivered}, buffer {buf}"
    return None


def nontrivial(case: Case, out: list[str]) -> bool:
    """a cycle in which read and write both execute (forwarding / pass-through), or clear coincides with a write"""
    if out[0] != "ok":
        return False
    if case.desc.get("callers"):
        return multi_nontrivial(case, out)
    for obs in out[1:]:
        f = fields(obs)
        if f["w"] == "1" and (f["r"] != "-" or f["c"] == "1"):
            return True
    return False


def _mk(cls: str, widths: tuple, cycs, tag: str) -> Case:
    return Case(
        f"cfg cls={cls} w={sum(widths)}",
        [fmt(c) for c in cycs],
        {"component": "Forwarder" if cls == "fwd" else "Pipe", "cls": cls, "layout": list(widths)},
        tag,
    )


def _mk_multi(cls: str, widths: tuple, lines: list[str], tag: str, callers: int = 2) -> Case:
    pw, pr = probe_orders(_sim(cls, widths, callers), callers)
    return Case(
        f"cfg cls={cls} w={sum(widths)} callers={callers} pw={','.join(map(str, pw))} pr={','.join(map(str, pr))}",
        lines,
        {"component": "Forwarder" if cls == "fwd" else "Pipe", "cls": cls, "layout": list(widths), "callers": callers},
        tag,
    )


def gen_multi(ctx: Check, cls: str) -> list[Case]:
    """two independent transactions on each of write / read / peek of the same component"""
    rng = ctx.rng("multi-" + cls)
    cases = []
    for lay in ctx.pick([(4,), (8,)], [(1,), (4,), (8,), (3, 5)]):
        width = sum(lay)
        # everybody asks every cycle; then independent random attempts
        cases.append(_mk_multi(cls, lay, random_multi_ops(rng, ctx.pick(40, 300), width, 1.0, 1.0, 1.0, 0.05), "directed"))
        for reg in REGIMES[: ctx.pick(4, 7)]:
            cases.append(_mk_multi(cls, lay, random_multi_ops(rng, ctx.pick(80, 800), width, *reg), "random"))
    return cases


def gen_cases(ctx: Check, cls: str) -> list[Case]:
    rng = ctx.rng("gen-" + cls)
    cases = [c for c in load_corpus("C17") if c.desc.get("cls") == cls]
    # every history of length <= L over {no write, write a, write b} x read x peek x clear, from empty and from full
    L = ctx.pick(2, 3)
    for n in range(1, L + 1):
        for seq in exhaustive_ops(n, (1, 2)):
            cases.append(_mk(cls, (2,), seq + [(None, 1, 1, 0)], "exhaustive"))
            if n <= 2:  # (length-3 histories from the full state are the length-4 ones starting with a lone write)
                cases.append(_mk(cls, (2,), [(3, 0, 0, 0)] + seq + [(None, 1, 1, 0)], "exhaustive"))
    layouts = ctx.pick([(1,), (4,), (3, 5), (33,)], [(1,), (2,), (4,), (8,), (3, 5), (1, 1, 2), (16,), (33,), (64, 3)])
    for lay in layouts:
        width = sum(lay)
        n = ctx.pick(150, 1000)
        for reg in REGIMES:
            cases.append(_mk(cls, lay, random_ops(rng, n, width, *reg), "random"))
        # streaming: producer always writes, consumer stalls now and then (and the converse)
        for pw, pr in ((1.0, 0.8), (0.8, 1.0), (1.0, 1.0)):
            cases.append(_mk(cls, lay, random_ops(rng, n, width, pw, pr, 0.2, 0.0), "directed"))
    return cases


def more_cases(case: Case, rng):
    d = case.desc
    if d.get("callers"):
        for k in range(40):
            yield _mk_multi(d["cls"], tuple(d["layout"]), random_multi_ops(rng, 100, sum(d["layout"]), *REGIMES[k % len(REGIMES)]), "search")
        return
    for k in range(40):
        yield _mk(d["cls"], tuple(d["layout"]), random_ops(rng, 200, sum(d["layout"]), *REGIMES[k % len(REGIMES)]), "search")


def run(ctx: Check):
    ctx.rule = (
        "case = (class Forwarder|Pipe, layout, history of attempted write(data)/read/peek/clear per cycle); non-trivial = "
        "some cycle executes read and write together (forwarding / pass-through) or clear together with a write; "
        "multi-caller cases (two transactions per method): non-trivial = two callers compete for a ready exclusive method"
    )
    ctx.proof_stage()
    procs = ctx.pick(1, 8)
    # one Lean driver process serves both classes (the cfg line of a case selects the model)
    cases = gen_cases(ctx, "fwd") + gen_cases(ctx, "pipe") + gen_multi(ctx, "fwd") + gen_multi(ctx, "pipe")
    ctx.count("cases_multi_caller", sum(1 for c in cases if c.desc.get("callers")))
    lockstep(ctx, "forwarder+pipe", "C17", cases, impl, monitor, more_cases, nontrivial, procs=procs)
    ctx.exhaustive = False
    ctx.note("all histories up to length 2 over a 24-letter alphabet are enumerated from both buffer states%s; "
             "this validates the model, the unbounded claim is the Lean theorems" % ctx.pick("", " and of length 3 from the empty state"))


def replay(ctx: Check, body: dict):
    return replay_case(body, impl, monitor)
